"""Per-property metadata for the driver: enumeration rule text, assumptions, vacuity requirements."""

TRUSTED = [
    "rustc and the arkworks algebra crates (ark-ff/ec/poly/serialize/std) are correct",
    "ark-crypto-primitives sponge, CRH and Merkle tree are correct",
    "the harness reference model (naive evaluators, textbook relations) is correct",
    "values outside the finite alphabets and sizes above the stated bounds are not covered",
]

ALL_SCHEMES = ["MAR", "SON", "IPA", "PST", "HYR", "LIG", "MLL", "BRK"]

PROPS = {
    "C01": {
        "rule": "full products of the listed dimensions (slices A: key/degree arithmetic D x s x bound-list x shape x bound x hiding x point; B: every query set over 3 polys x 3 labels with prover/verifier list permutations; C: scheme-specific sizes); a point is non-trivial/distinct by (scheme, shape class, bound/hiding flags, decision class)",
        "assumptions": TRUSTED,
        "require": {"classes": ["accept"], "dims": {"scheme": ALL_SCHEMES}},
        "level_text": "bounded exhaustive exploration of the real library: every point of the C01 slices (key arithmetic grid, all query sets with list permutations, scheme-specific sizes) is executed end to end and must be accepted; small-scope exhaustiveness is what reaches the index-arithmetic corners the randomized suite never visits",
        "design_ref": "DESIGN.md section 4 C01",
        "level_note": "claimed values come from ark-poly's evaluators (trusted); alphabets and bounds as listed in the evidence scopes",
        "technique": "explicit-state bounded exhaustive enumeration of configurations on the real code (grid explorer E1)",
    },
}

HOOK_COMMITS = ["512e10f"]

_PENDING = "check not built yet in this round of the framework (planned, see DESIGN.md section 4)"
NOT_APPLICABLE = {("C%02d" % i): _PENDING for i in range(1, 20)}

