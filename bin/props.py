"""Per-property metadata for the driver: enumeration rule text, assumptions, vacuity requirements."""

TRUSTED = [
    "rustc and the arkworks algebra crates (ark-ff/ec/poly/serialize/std) are correct",
    "ark-crypto-primitives sponge, CRH and Merkle tree are correct",
    "the harness reference model (naive evaluators, textbook relations) is correct",
    "values outside the finite alphabets and sizes above the stated bounds are not covered",
]

ALL_SCHEMES = ["MAR", "SON", "IPA", "PST", "HYR", "LIG", "MLL", "BRK"]

PROPS = {
    "C01": {
        "rule": "full products of the listed dimensions (slices A: key/degree arithmetic D x s x bound-list x shape x bound x hiding x point; B: every query set over 3 polys x 3 labels with prover/verifier list permutations; C: scheme-specific sizes); a point is non-trivial/distinct by (scheme, shape class, bound/hiding flags, decision class)",
        "assumptions": TRUSTED,
        "require": {"classes": ["accept"], "dims": {"scheme": ALL_SCHEMES}},
        "level_text": "bounded exhaustive exploration of the real library: every point of the C01 slices (key arithmetic grid, all query sets with list permutations, scheme-specific sizes) is executed end to end and must be accepted; small-scope exhaustiveness is what reaches the index-arithmetic corners the randomized suite never visits",
        "design_ref": "DESIGN.md section 4 C01",
        "level_note": "claimed values come from ark-poly's evaluators (trusted); alphabets and bounds as listed in the evidence scopes",
        "technique": "explicit-state bounded exhaustive enumeration of configurations on the real code (grid explorer E1)",
    },
    "C02": {
        "rule": "E3 fault explorer over accepting C01 transcripts: every position x delta in {+1,-1,+r1} for values, every other alphabet point, every replacement commitment (other set members, commit(p+1)); entry points check, batch_check, check_combinations (trivial LCs), KZG10::{check,batch_check}, MultilinearPC::check, streaming verify; statements that stay true are classified and skipped; distinct = (scheme, entry, operator, decision class)",
        "assumptions": TRUSTED,
        "require": {"classes": ["source-accepted", "fault-reject"], "dims": {"scheme": ALL_SCHEMES + ["KZG", "MLP", "STR"]}},
        "level_text": "bounded exhaustive enumeration of the complete single-fault neighbourhood (statement side) of every accepting transcript in the scope; each faulted statement is first classified true/false by the reference evaluator and every false one must be non-accepted by the real verifier",
        "design_ref": "DESIGN.md section 4 C02",
        "level_note": "deltas and replacement points are alphabet members; the cryptographic 'for every delta' is covered for the listed alphabet only",
        "technique": "explicit-state fault enumeration (E3) over real transcripts with a reference evaluator as oracle",
    },
    "C03": {
        "rule": "E3 attack catalogue on an honest commitment with a false claim: prover run on (q,state_q) against commitment(p) for every ordered pair, proof replay across points/commitments, every proof component x replacement alphabet {identity, generator, generic, +G/+1, other proof's component}, shape mutations (list lengths 0..n+1, IPA rounds +-1, PST/Hyrax/linear-code vectors stretched/shortened/rotated, foreign Merkle paths); distinct = (scheme, entry, operator class, decision class)",
        "assumptions": TRUSTED + ["the computational-hardness reading of the property is not decidable by enumeration; only the catalogue the property names is decided"],
        "require": {"classes": ["source-accepted", "attack-reject"], "dims": {"scheme": ALL_SCHEMES}},
        "level_text": "bounded exhaustive enumeration of the named attack catalogue against the real verifiers: every catalogue entry at every position it applies to, each paired with a false claim, must be non-accepted",
        "design_ref": "DESIGN.md section 4 C03",
        "level_note": "replacement elements are alphabet members; adversaries outside the catalogue are out of reach of any enumeration",
        "technique": "explicit-state fault/attack enumeration (E3) on real transcripts",
    },
    "C05": {
        "rule": "for k x m query grids over the slice-B set: all 2^(km) subsets of claims made false, all ordered cancelling pairs (+d,-d) for d in {1,r1}, every proof-list permutation / truncation / duplication / overwrite / surplus and per-proof shape mutation, each with true and false claims, verifier RNG in A_S; oracle = per-point checks run in label order on one sponge, AND-ed; KZG10::batch_check and streaming verify_multi_points likewise; distinct = (scheme, operator class, AND decision, batch decision class)",
        "assumptions": TRUSTED,
        "require": {"classes": ["and-accepts", "and-rejects", "batch-accept"], "dims": {"scheme": ALL_SCHEMES + ["KZG", "STR"]}},
        "level_text": "differential bounded exhaustive exploration: for every edited batch the real batch verifier's decision is compared, in both directions, with the conjunction of the real individual verifier's decisions on the same claims",
        "design_ref": "DESIGN.md section 4 C05",
        "level_note": "the individual verifier is the reference here (its own correctness is C02/C03/C10's business); streaming verify_multi_points takes its batching challenge from the caller, negative cases use a generic challenge",
        "technique": "explicit-state differential enumeration of batch edits on the real verifiers",
    },
    "C10": {
        "rule": "E3 single-fault neighbourhood of accepting transcripts: every verifier-visible component (each commitment part, degree-bound label, value, point coordinate, each proof field and vector element, each verifier-key element incl. shift elements) x replacement alphabet {identity/zero, generator/one, generic, +G/+1, corresponding component of another transcript}; oracle = independent implementation of the published relation with the same challenge derivation; distinct = (scheme, component class, relation verdict, library decision class)",
        "assumptions": TRUSTED + ["Brakedown's row encoding is taken from the public LinearEncode::encode (its linearity and length are checked under C13)"],
        "require": {"classes": ["relation-holds", "relation-fails", "lib-accept", "lib-reject"], "dims": {"scheme": ALL_SCHEMES + ["KZG", "MLP", "STR"]}},
        "level_text": "bounded exhaustive comparison, in both directions, of every real verifier with an independently written reference verification relation over the complete single-component replacement neighbourhood of the transcripts in scope",
        "design_ref": "DESIGN.md sections 3.5 and 4 C10",
        "level_note": "reference relations are written from the protocol descriptions with naive group arithmetic; only transcripts of the right shape are compared (shape mutations belong to C03/C05)",
        "technique": "explicit-state differential enumeration: real verifier vs reference relation on all single-component replacements",
    },
}

HOOK_COMMITS = ["512e10f"]

_PENDING = "check not built yet in this round of the framework (planned, see DESIGN.md section 4)"
NOT_APPLICABLE = {("C%02d" % i): _PENDING for i in range(1, 20)}


