"""Per-property metadata for the driver: enumeration rule text, assumptions, vacuity requirements."""

TRUSTED = [
    "rustc and the arkworks algebra crates (ark-ff/ec/poly/serialize/std) are correct",
    "ark-crypto-primitives sponge, CRH and Merkle tree are correct",
    "the harness reference model (naive evaluators, textbook relations) is correct",
    "values outside the finite alphabets and sizes above the stated bounds are not covered",
]

ALL_SCHEMES = ["MAR", "SON", "IPA", "PST", "HYR", "LIG", "MLL", "BRK"]

PROPS = {
    "C01": {
        "rule": "full products of the listed dimensions (slices A: key/degree arithmetic D x s x bound-list x shape x bound x hiding x point; B: every query set over 3 polys x 3 labels with prover/verifier list permutations; C: scheme-specific sizes); a point is non-trivial/distinct by (scheme, shape class, bound/hiding flags, decision class)",
        "assumptions": TRUSTED,
        "require": {"classes": ["accept"], "dims": {"scheme": ALL_SCHEMES}},
        "level_text": "bounded exhaustive exploration of the real library: every point of the C01 slices (key arithmetic grid, all query sets with list permutations, scheme-specific sizes) is executed end to end and must be accepted; small-scope exhaustiveness is what reaches the index-arithmetic corners the randomized suite never visits",
        "design_ref": "DESIGN.md section 4 C01",
        "level_note": "claimed values come from ark-poly's evaluators (trusted); alphabets and bounds as listed in the evidence scopes",
        "technique": "explicit-state bounded exhaustive enumeration of configurations on the real code (grid explorer E1)",
    },
    "C02": {
        "rule": "E3 fault explorer over accepting C01 transcripts: every position x delta in {+1,-1,+r1} for values, every other alphabet point, every replacement commitment (other set members, commit(p+1)); entry points check, batch_check, check_combinations (trivial LCs), KZG10::{check,batch_check}, MultilinearPC::check, streaming verify; statements that stay true are classified and skipped; distinct = (scheme, entry, operator, decision class)",
        "assumptions": TRUSTED,
        "require": {"classes": ["source-accepted", "fault-reject"], "dims": {"scheme": ALL_SCHEMES + ["KZG", "MLP", "STR"]}},
        "level_text": "bounded exhaustive enumeration of the complete single-fault neighbourhood (statement side) of every accepting transcript in the scope; each faulted statement is first classified true/false by the reference evaluator and every false one must be non-accepted by the real verifier",
        "design_ref": "DESIGN.md section 4 C02",
        "level_note": "deltas and replacement points are alphabet members; the cryptographic 'for every delta' is covered for the listed alphabet only",
        "technique": "explicit-state fault enumeration (E3) over real transcripts with a reference evaluator as oracle",
    },
    "C03": {
        "rule": "E3 attack catalogue on an honest commitment with a false claim: prover run on (q,state_q) against commitment(p) for every ordered pair, proof replay across points/commitments, every proof component x replacement alphabet {identity, generator, generic, +G/+1, other proof's component}, shape mutations (list lengths 0..n+1, IPA rounds +-1, PST/Hyrax/linear-code vectors stretched/shortened/rotated, foreign Merkle paths); distinct = (scheme, entry, operator class, decision class)",
        "assumptions": TRUSTED + ["the computational-hardness reading of the property is not decidable by enumeration; only the catalogue the property names is decided"],
        "require": {"classes": ["source-accepted", "attack-reject"], "dims": {"scheme": ALL_SCHEMES}},
        "level_text": "bounded exhaustive enumeration of the named attack catalogue against the real verifiers: every catalogue entry at every position it applies to, each paired with a false claim, must be non-accepted",
        "design_ref": "DESIGN.md section 4 C03",
        "level_note": "replacement elements are alphabet members; adversaries outside the catalogue are out of reach of any enumeration",
        "technique": "explicit-state fault/attack enumeration (E3) on real transcripts",
    },
    "C04": {
        "rule": "E1 grids on MAR/SON/IPA: admission = D x s x bound-list (incl. 0, unsorted, duplicated) x polynomial degree 0..s+1 x declared bound None|0..D+1 x hiding, commit (and open with a borrowed state) must refuse exactly the inadmissible triples; mislabel = all ordered pairs of trimmed bounds x polynomial kinds {zero, const, deg1, deg2, root-at-z} x hiding x points {r1,r2,1,-1,0}, honest and re-made proofs; surgery = shifted part dropped / borrowed / replaced, label dropped, unbounded commitment shown bounded; the reference relation arbitrates degenerate points, which must lie in the scheme's known degenerate set; distinct = (scheme, family, reference verdict, library class)",
        "assumptions": TRUSTED + ["degree-bound enforcement at a fixed (non-random) point is only claimed outside the exactly computed degenerate set of the published relation"],
        "require": {"classes": ["admitted", "refused", "presented-reject", "degenerate"], "dims": {"scheme": ["MAR", "SON", "IPA"]}},
        "level_text": "bounded exhaustive enumeration of key configurations, degree/bound pairs and mislabelled or surgically altered transcripts on the real committer, prover and verifier; every inadmissible request must be refused and every mislabelled commitment rejected unless the published relation itself accepts at that point",
        "design_ref": "DESIGN.md section 4 C04",
        "level_note": "Marlin's trim accepts enforced bounds above supported_degree and enforces them; demanding an error there would exceed the property",
        "technique": "explicit-state grid enumeration (E1) plus fault enumeration (E3) with the reference relation as arbiter",
    },
    "C05": {
        "rule": "for k x m query grids over the slice-B set: all 2^(km) subsets of claims made false, all ordered cancelling pairs (+d,-d) for d in {1,r1}, every proof-list permutation / truncation / duplication / overwrite / surplus and per-proof shape mutation, each with true and false claims, verifier RNG in A_S; oracle = per-point checks run in label order on one sponge, AND-ed; KZG10::batch_check and streaming verify_multi_points likewise; distinct = (scheme, operator class, AND decision, batch decision class)",
        "assumptions": TRUSTED,
        "require": {"classes": ["and-accepts", "and-rejects", "batch-accept"], "dims": {"scheme": ALL_SCHEMES + ["KZG", "STR"]}},
        "level_text": "differential bounded exhaustive exploration: for every edited batch the real batch verifier's decision is compared, in both directions, with the conjunction of the real individual verifier's decisions on the same claims",
        "design_ref": "DESIGN.md section 4 C05",
        "level_note": "the individual verifier is the reference here (its own correctness is C02/C03/C10's business); streaming verify_multi_points takes its batching challenge from the caller, negative cases use a generic challenge",
        "technique": "explicit-state differential enumeration of batch edits on the real verifiers",
    },
    "C06": {
        "rule": "E1 over linear combinations: every term list of length <= 2 (quick) / 3 (thorough) over the 16 term kinds {(c,p_j),(c,One) : c in {0,1,-1,r1}, j<3} with at least one polynomial term, x query-set variants (one label; one LC at two points; two labels sharing a value; two LCs at one label; two LCs at labels sharing a value); positive: open_combinations + check_combinations accept the RefLC values; E3: claimed value +delta, verifier-side coefficient +1, constant +1, transmitted evaluations changed (singly and in cancelling pairs); combinations that mix or scale a degree-bounded polynomial must be refused; distinct = (scheme, variant/operator, decision class)",
        "assumptions": TRUSTED,
        "require": {"classes": ["honest-accept", "fault-reject", "bound-drop-refused"], "dims": {"scheme": ALL_SCHEMES}},
        "level_text": "bounded exhaustive enumeration of linear combinations and query-set shapes on the real prover and verifier, with a BTreeMap-based reference evaluation of each combination and the complete catalogue of statement-side faults",
        "design_ref": "DESIGN.md section 4 C06",
        "level_note": "coefficients range over {0,1,-1,r1}; three committed polynomials (one hiding, one degree-bounded where the scheme has bounds)",
        "technique": "explicit-state enumeration of operation inputs (E1) with a reference model plus fault enumeration (E3)",
    },
    "C07": {
        "rule": "E1 over KZG, MAR, SON, PST, IPA, HYR: polynomial shapes x degree bounds x every hiding bound 1..key limit (and none) x points x RNG seed pairs; oracles: (i) commitment - naive_commit(p) == naive_msm(hiding generators, blinding scalars of the returned state), for plain and shifted parts and Hyrax rows; (ii) >= h+2 blinding coefficients (polynomial blinding), all non-zero and pairwise distinct, shifted part not reusing the plain part's; (iii) equal seeds reproduce commitment/state, different seeds change commitment/state/proof, 8 repeated commitments distinct, RNG byte count; (iv) proof blinding field == sum xi_i r_i(z); (v) hiding with rng=None refused; (vi) no hiding => empty state, RNG-independent; distinct = (scheme, hiding?, seed-difference)",
        "assumptions": TRUSTED + ["hiding is decided structurally (the algebraic form and freshness of the blinding), not as a statistical indistinguishability claim"],
        "require": {"classes": ["structure-ok", "proof-blinding-ok", "norng-refused"], "dims": {"scheme": ["KZG", "MAR", "SON", "PST", "IPA", "HYR"]}},
        "level_text": "bounded exhaustive enumeration of hiding configurations on the real committer and prover, each compared with an independent recomputation of the blinding term from the returned commitment state and the published hiding generators, plus differential runs over all ordered pairs of RNG seeds",
        "design_ref": "DESIGN.md section 4 C07",
        "level_note": "RNGs handed to the library are counting ChaCha20 streams owned by the harness",
        "technique": "explicit-state grid enumeration (E1) with structural reference identities and seed-pair differentials",
    },
    "C08": {
        "rule": "E1 over values: every coefficient (evaluation) vector in {0,1,-1,r1}^len, len <= 4 (quick) plus the shape alphabet, x every trimmed degree bound; oracle commit(p) == naive_msm(published key elements, coefficients) for plain and shifted parts (MAR, SON, IPA, PST over its term map, KZG, MLP, streaming time and space committers, Hyrax rows); all unordered pairs of the len <= 2 vectors x scalars {0,1,-1,r2}^2 for additivity; commit(0) = identity; hash-based: root and metadata == independent recomputation (row layout, Reed-Solomon by naive evaluation / public encode for Brakedown, Blake2s column hashes, Merkle tree), equal polynomials equal roots, distinct polynomials distinct roots; distinct = (scheme, bound?, verdict)",
        "assumptions": TRUSTED,
        "require": {"classes": ["matches-naive-msm", "additive", "root-matches"], "dims": {"scheme": ["MAR", "SON", "IPA", "PST", "KZG", "STR", "MLP", "HYR", "LIG", "MLL", "BRK"]}},
        "level_text": "exhaustive enumeration of all small coefficient vectors over a 4-letter alphabet on the real committers, each compared with a naive double-and-add recomputation from the published key (never VariableBaseMSM), plus exhaustive pairwise additivity and an independent Merkle-root recomputation for the hash-based schemes",
        "design_ref": "DESIGN.md section 4 C08",
        "level_note": "non-hiding commitments (hiding terms are C07's); Hyrax rows are compared after removing the blinding recorded in the returned state",
        "technique": "explicit-state exhaustive value enumeration (E1) against a naive reference implementation",
    },
    "C09": {
        "rule": "E1: KZG-family SRS for every max_degree 1..64 (with and without G2 powers): element counts, every consecutive pair of G1/gamma powers and every negative G2 power checked by pairings, prepared elements, prefix agreement with a larger setup of the same seed, dependence on the seed; IPA (max_degree 0..64) and Hyrax (0..8 variables) generators == independent derivation from the protocol seed, distinct, non-identity, prime order, RNG-independent, every trim prefix; Marlin and Sonic trim on the full grid D<=5 (7 thorough) x supported 1..D+1 x hiding 0..D+2 x bound lists (None, [], singletons, sorted/unsorted pairs, duplicates, triples over 0..D+1): every returned element compared with the parameter element it must be, degree reports, supported / supported+1 commit probes, out-of-range refused; cross-trim interop; prepared tables; MultilinearPC table identities; streaming SRS; distinct = (scheme, family, verdict)",
        "assumptions": TRUSTED,
        "require": {"classes": ["srs-consistent", "generators-ok", "trim-faithful", "trim-refused", "interop-accept", "prepared-ok"], "dims": {"scheme": ["MAR", "SON", "IPA", "HYR", "MLP", "STR"]}},
        "level_text": "bounded exhaustive enumeration of setup sizes and trim requests on the real key generators, with element-wise pairing / equality identities against the published parameters as oracle",
        "design_ref": "DESIGN.md section 4 C09",
        "level_note": "PST13 parameters are C15's; linear-code keys carry no group elements",
        "technique": "explicit-state grid enumeration (E1) with element-wise algebraic identities",
    },
    "C10": {
        "rule": "E3 single-fault neighbourhood of accepting transcripts: every verifier-visible component (each commitment part, degree-bound label, value, point coordinate, each proof field and vector element, each verifier-key element incl. shift elements) x replacement alphabet {identity/zero, generator/one, generic, +G/+1, corresponding component of another transcript}; oracle = independent implementation of the published relation with the same challenge derivation; distinct = (scheme, component class, relation verdict, library decision class)",
        "assumptions": TRUSTED + ["Brakedown's row encoding is taken from the public LinearEncode::encode (its linearity and length are checked under C13)"],
        "require": {"classes": ["relation-holds", "relation-fails", "lib-accept", "lib-reject"], "dims": {"scheme": ALL_SCHEMES + ["KZG", "MLP", "STR"]}},
        "level_text": "bounded exhaustive comparison, in both directions, of every real verifier with an independently written reference verification relation over the complete single-component replacement neighbourhood of the transcripts in scope",
        "design_ref": "DESIGN.md sections 3.5 and 4 C10",
        "level_note": "reference relations are written from the protocol descriptions with naive group arithmetic; only transcripts of the right shape are compared (shape mutations belong to C03/C05)",
        "technique": "explicit-state differential enumeration: real verifier vs reference relation on all single-component replacements",
    },
    "C11": {
        "rule": "E2 history explorer: depth-first search over all sequences of {open([p0])@z1, open([p0,p1])@z2, batch_open(Q over two labels), open_combinations(L)} up to the tier's depth on one shared sponge, from three sponge pre-states; prover and verifier sponges are cloned at every node; invariant at every node: the check accepts and squeeze(prover sponge) == squeeze(verifier sponge); negative: every earlier proof of the same kind moved to the node (and vice versa) and every other pre-state must be non-accepted; distinct = (scheme, operation, depth, decision class)",
        "assumptions": TRUSTED,
        "require": {"classes": ["node-accept", "lockstep-ok", "prestate-reject"], "dims": {"scheme": ALL_SCHEMES}},
        "level_text": "explicit-state exploration of all operation histories up to a depth on the real library, with the lock-step invariant evaluated at every node (not only at leaves) and the binding of proofs to their transcript position checked by exhaustive transposition",
        "design_ref": "DESIGN.md section 4 C11",
        "level_note": "histories are over a fixed committed set of two non-constant polynomials per scheme (the property's own restriction for the binding half); depth 3 quick, 4-5 thorough",
        "technique": "explicit-state DFS over operation sequences with state cloning (history explorer E2) on real code",
    },
    "C12": {
        "rule": "every artefact type of every scheme (universal parameters, committer key, verifier key, each commitment, each commitment state, each labelled polynomial, batch proof, combination proof; KZG Powers/VerifierKey/Commitment/Randomness/Proof; MultilinearPC types) harvested from the slice-B transcripts (plus small bounded/unbounded keys for Marlin/Sonic) x Compress {Yes,No} x Validate {Yes,No}: ser(deser(ser(x))) == ser(x), serialized_size == bytes written, verification with the deserialized key + commitments + proof decides the honest and one tampered batch (and a single check) exactly as the originals, and every proper prefix fails to deserialize (all prefixes in uncompressed/no-validate mode and for artefacts <= 512 B; otherwise the first 16, every 16th and the last 64 lengths; all of them in the thorough tier); distinct = (scheme, artefact, mode, verdict)",
        "assumptions": TRUSTED,
        "require": {"classes": ["roundtrip-ok", "prefix-rejected", "decisions-equal"], "dims": {"scheme": ALL_SCHEMES + ["KZG", "MLP"]}},
        "level_text": "exhaustive enumeration of artefact types x serialization modes x truncation lengths on real artefacts, with a differential decision oracle (original vs deserialized verifier inputs)",
        "design_ref": "DESIGN.md section 4 C12",
        "level_note": "streaming KZG types have no serialization; prepared key types are not serializable",
        "technique": "explicit-state enumeration of artefacts, modes and all truncation points (E1 + E3) with differential oracle",
    },
    "C13": {
        "rule": "E5: calculate_t (through the cfg-guarded hook) on the grid lambda x distance {1/2,3/4,7/8,61/1521,1/100} x n in {2^k-1,2^k,2^k+1 : k <= 40} x fields {BLS12-381 Fr, BLS12-377 Fr, Jubjub Fr, BLS12-377 Fq} (quick: 16 lambdas incl. 250..256; thorough: 1..256), three-valued exact oracle over big integers (holds(t) and not holds(t-1); capped at n; error <=> infeasible); E1: honest proofs of LIG/MLL/BRK over the size ladder: |columns| = |paths| = exact t, positions inside the codeword and equal to the reference replay of the transcript; encoders: E(a e_i + b e_j) == a E(e_i) + b E(e_j) for all i <= j and (a,b) in {1,-1,r1}^2, E(0)=0, declared length, Brakedown refuses wrong lengths; distinct = (field, lambda, distance, verdict, log t)",
        "assumptions": TRUSTED,
        "require": {"classes": ["t-exact", "t-err-infeasible", "columns-ok", "encoder-linear"], "dims": {"field": ["bls12-381-Fr", "bls12-377-Fr", "jubjub-Fr", "bls12-377-Fq"], "scheme": ["LIG", "MLL", "BRK"]}},
        "level_text": "exhaustive evaluation of the column-count function on the stated parameter grid against an exact big-integer evaluation of the soundness bound, plus exhaustive enumeration of honest proofs over the size ladder and of unit-vector pairs for encoder linearity",
        "design_ref": "DESIGN.md section 4 C13",
        "level_note": "the private calculate_t is reached through hook H2 (cfg ark_poly_commit_verif); codeword lengths up to 2^40 cannot be observed by producing proofs",
        "technique": "explicit-state exhaustive grid evaluation (E5) against an exact rational oracle",
    },
    "C14": {
        "rule": "E1+E5: every degree 0..40 (256 thorough) x key size {deg+1, deg+2, 2deg} x coefficient pattern {dense, low-zero, top}: time commit == space commit; single-point open at {r1,0,1} time == space for every msm buffer in {1,2,3,5,8,len-1,len,len+1,2^10,2^20}; verify accepts the truth and rejects value+delta; multi-point openings for point sets of size 1..4 (8 thorough): time proof == space proof, space remainder == p mod Z, verify_multi_points with eta in {0,1,r1} accepts the truth and rejects each evaluation+delta; batched time proof == proof of the explicit combination for 1..3 polynomials; folding: every length 1..130 x depth 0..7 x pattern {ones, rho, unit-first, unit-last}: FoldedPolynomialTree and FoldedPolynomialStream == naive fold level by level incl. lengths, commit_folding/open_folding == time prover on the explicit foldings; distinct = (family, size class, pattern, verdict)",
        "assumptions": TRUSTED,
        "require": {"classes": ["time==space", "false-rejected", "multi-true-accepted", "fold-ok", "commit_folding-ok", "open_folding-ok"], "dims": {"family": ["provers", "folding"]}},
        "level_text": "exhaustive enumeration of degrees, key sizes, buffer sizes, point sets and of all (length, depth) pairs on the real time- and space-efficient provers, compared with each other and with naive reference computations (remainder by long division, fold by definition)",
        "design_ref": "DESIGN.md section 4 C14",
        "level_note": "the number of evaluation points is kept within the G2 powers the key actually holds (beyond that honest proofs are refused, which is acceptable)",
        "technique": "explicit-state exhaustive enumeration (E1/E5) with differential and naive-reference oracles",
    },
    "C15": {
        "rule": "E1: the full grid num_vars x max_degree in 1..6 x 1..6 (36 setups): key set == independent stars-and-bars enumeration (no missing, surplus or duplicate monomial), every identity e(G[m*x_i],H) == e(G[m], beta_i H) with deg(m*x_i) <= D, every gamma-power chain, prepared elements, every trim 1..D+1 keeps exactly the monomials of degree <= supported with the parameters' elements; then for (n,d) in 1..3^2 (1..4^2 thorough) every monomial support when there are <= 10 monomials (all 2^k - 1 subsets), supports of size <= 3 plus the full support beyond, x hiding {none,1} x {generic point, point with coordinates 0 and 1}: commit/open/check accepts the truth and rejects value+1; distinct = (grid cell, verdicts, mixed?, hiding?)",
        "assumptions": TRUSTED,
        "require": {"classes": ["keyset-complete", "trapdoor-consistent", "trim-faithful", "true-accepted", "false-rejected"], "dims": {"grid": ["1x1", "6x6", "3x3", "2x3"]}},
        "level_text": "exhaustive enumeration of the parameter grid the property names, with every pairing identity evaluated, and exhaustive enumeration of monomial supports (including all mixed monomials) on the real committer, prover and verifier",
        "design_ref": "DESIGN.md section 4 C15",
        "level_note": "coefficients are generic alphabet elements; supports beyond 10 monomials are covered up to size 3 plus the dense polynomial",
        "technique": "explicit-state exhaustive grid and support enumeration (E1) with pairing identities and end-to-end round trips",
    },
    "C16": {
        "rule": "E2: the 32 operations {+=(c,lc), -=(c,lc), +=lc, -=lc, +=c, -=c, *=c : c in {0,1,-1,r1}, lc in two fixed combinations (one with a constant and a repeated label)}, ALL operation sequences to depth 4 (5 thorough) from two start combinations, invariant value(lc) == reference BTreeMap arithmetic at every node for three assignments; plus every <= 2-position deviation of a fixed length-12 sequence; evaluate_query_set on all 511 query sets over 3 polynomials x 3 point labels (two sharing a value), two listing orders; SuccinctCheckPolynomial for every challenge vector in {1,-1,r1}^k, k = 0..8 (10 thorough) at 7 points: evaluate == Horner(compute_coeffs) and compute_coeffs == naive product expansion, len == 2^k; distinct = (family, operation kinds / sizes, verdict)",
        "assumptions": TRUSTED,
        "require": {"classes": ["lc-node-ok", "eqs-ok", "scp-ok"], "dims": {"family": ["lc-ops", "evaluate_query_set", "succinct-check-polynomial"]}},
        "level_text": "explicit-state exploration of all operator sequences up to a depth on the real LinearCombination type against a map-based reference, and exhaustive enumeration of query sets and challenge vectors for the two pure helpers",
        "design_ref": "DESIGN.md section 4 C16",
        "level_note": "operators act locally on the term list, so depth beyond the bound only lengthens lists; length 12 is reached with the deviation-bounded sweep",
        "technique": "explicit-state DFS over operation sequences (E2) and exhaustive input enumeration (E5) against reference models",
    },
}

HOOK_COMMITS = ["512e10f"]

_PENDING = "check not built yet in this round of the framework (planned, see DESIGN.md section 4)"
NOT_APPLICABLE = {("C%02d" % i): _PENDING for i in range(1, 20)}


