//! Transcript sources: accepting transcripts of C01 sub-scopes, handed to fault explorers (E3).
use crate::checks::c01::{all_queries, slice_b_labels, slice_b_polys};
use crate::rec::Rec;
use crate::sch::*;
use crate::scope::*;
use crate::tr::*;
use crate::util::*;
use ark_poly_commit::QuerySet;

pub struct SingleT<'a, S: Sch> {
    pub id: String,
    pub keys: &'a Keys<S>,
    pub c: &'a Committed<S>,
    pub sel: Vec<usize>,
    pub s: Single<S>,
}

impl<'a, S: Sch> SingleT<'a, S> {
    pub fn comms(&self) -> Vec<&LCm<S>> {
        self.sel.iter().map(|i| &self.c.comms[*i]).collect()
    }
    pub fn polys(&self) -> Vec<&LP<S>> {
        self.sel.iter().map(|i| &self.c.polys[*i]).collect()
    }
}

pub struct BatchT<'a, S: Sch> {
    pub id: String,
    pub keys: &'a Keys<S>,
    pub c: &'a Committed<S>,
    pub b: Batch<S>,
}

/// How wide the transcript scope is.
#[derive(Clone, Copy, PartialEq, Eq)]
pub enum Width {
    /// a handful of transcripts per scheme (C10 quick, C12)
    Narrow,
    /// C02/C03 quick
    Medium,
    /// thorough
    Wide,
}

fn small_a_cfgs<S: Sch>(w: Width) -> Vec<KeyCfg> {
    if !S::BOUNDS {
        return vec![];
    }
    if S::NAME == "IPA" {
        return match w {
            Width::Narrow => vec![KeyCfg::uni(3, 3, 1, None)],
            Width::Medium => vec![KeyCfg::uni(1, 1, 1, None), KeyCfg::uni(3, 3, 1, None), KeyCfg::uni(7, 3, 1, None)],
            Width::Wide => vec![KeyCfg::uni(1, 1, 1, None), KeyCfg::uni(3, 3, 1, None), KeyCfg::uni(7, 3, 1, None), KeyCfg::uni(7, 7, 1, None), KeyCfg::uni(15, 15, 1, None)],
        };
    }
    match w {
        // bounds with gaps (3 and 4 are never enforced) and a bound above the supported degree for Marlin
        Width::Narrow => vec![KeyCfg::uni(6, 5, 2, Some(if S::NAME.starts_with("MAR") { vec![2, 5, 6] } else { vec![2, 5] }))],
        Width::Medium => {
            let mut v = Vec::new();
            for d in 1..=3usize {
                for s in 1..=d {
                    v.push(KeyCfg::uni(d, s, 1, None));
                    v.push(KeyCfg::uni(d, s, d.min(2), Some((1..=s).collect())));
                }
            }
            v
        }
        Width::Wide => slice_a::<S>(4),
    }
}

/// Single-point transcripts: one polynomial (slice A'/C') and 1..3 polynomials (slice B').
/// `f` is called once per accepting transcript owned by this worker.
pub fn for_single<S: Sch>(rec: &mut Rec, w: Width, mut f: impl FnMut(&mut Rec, &SingleT<S>)) {
    // slice A' : degree-bound schemes, small keys
    let mut cfgs = small_a_cfgs::<S>(w);
    // slice C' : the smallest two sizes of the scheme-specific ladder
    let c_all = slice_c::<S>(false);
    let take_c = match w {
        Width::Narrow => 1,
        Width::Medium => 2,
        Width::Wide => 4,
    };
    let mut c_cfgs: Vec<KeyCfg> = c_all.into_iter().filter(|c| c.lc.is_none()).collect();
    if S::NAME == "PST" {
        c_cfgs.retain(|c| c.sup == c.max && c.nv.unwrap() >= 2 && c.max >= 2);
    }
    if S::NAME == "HYR" {
        c_cfgs.retain(|c| c.nv.unwrap() >= 2);
    }
    if S::NAME == "LIG" {
        c_cfgs = vec![KeyCfg::uni(8, 8, 1, None)];
    }
    cfgs.extend(c_cfgs.into_iter().take(take_c));
    // linear codes: one key built through the public constructor WITHOUT the well-formedness check
    // (the verifier then follows its other branch; every width includes it)
    match S::NAME {
        "LIG" => {
            let mut c = KeyCfg::uni(8, 8, 1, None);
            c.lc = Some((128, 4, false));
            cfgs.push(c);
        }
        "MLL" | "BRK" => {
            let mut c = KeyCfg::ml(if S::NAME == "BRK" { 3 } else { 2 });
            c.lc = Some((128, 2, false));
            cfgs.push(c);
        }
        _ => {}
    }
    for cfg in cfgs {
        let shapes = if w == Width::Wide { S::shapes(&cfg, rec.seed) } else { shapes_short::<S>(&cfg, rec.seed) };
        // the generic point first; for the multilinear / multivariate families also the point with a 0 and a 1
        // among its coordinates (tensors with zero entries) at every width
        let all_pts = S::points(&cfg, rec.seed);
        let mut pts: Vec<_> = all_pts.iter().take(if w == Width::Narrow { 1 } else { 2 }).cloned().collect();
        if S::FAM != Fam::Uni {
            if let Some(m) = all_pts.iter().find(|(n, _)| n == "mixed") {
                if !pts.iter().any(|(n, _)| n == "mixed") {
                    pts.push(m.clone());
                }
            }
        }
        let mut todo = Vec::new();
        for (sname, p) in shapes.iter() {
            for (b, h) in lp_options::<S>(&cfg, S::degree(p), false) {
                for (zn, z) in pts.iter() {
                    let id = format!("{}/S1/{}/{}/b={:?}/h={:?}/z={}", S::NAME, cfg.id(), sname, b, h, zn);
                    if rec.take(&id) {
                        todo.push((id, p.clone(), b, h, z.clone()));
                    }
                }
            }
        }
        if todo.is_empty() {
            continue;
        }
        let keys = match build_keys::<S>(&cfg, rec.seed) {
            Ok(k) => k,
            Err(_) => continue,
        };
        for (id, p, b, h, z) in todo {
            let c = match commit_set::<S>(&keys, vec![lp::<S>("p", p, b, h)], rec.seed, 0) {
                Ok(c) => c,
                Err(_) => {
                    rec.class("source-commit-failed");
                    continue;
                }
            };
            match open_single::<S>(&keys, &c, &[0], &z, 0, rec.seed, 0) {
                Ok(s) => {
                    rec.op(2);
                    let t = SingleT { id, keys: &keys, c: &c, sel: vec![0], s };
                    f(rec, &t);
                }
                Err(_) => rec.class("source-open-failed"),
            }
        }
    }
    // slice B' : the fixed three-polynomial set, 1..3 polynomials at one point
    let cfg = slice_b::<S>();
    let mut labels = slice_b_labels::<S>(&cfg, rec.seed);
    if S::FAM != Fam::Uni {
        // a point with a 0 and a 1 among its coordinates
        if let Some((_, m)) = S::points(&cfg, rec.seed).into_iter().find(|(n, _)| n == "mixed") {
            labels.push(("m".into(), m));
        }
    }
    let mut todo = Vec::new();
    let sels: Vec<Vec<usize>> = vec![vec![0], vec![1], vec![0, 1], vec![1, 0], vec![0, 1, 2], vec![2, 1, 0]];
    for sel in sels {
        for (ln, z) in labels.iter().skip(1) {
            let id = format!("{}/SB/{}/sel={:?}@{}", S::NAME, cfg.id(), sel, ln).replace(' ', "");
            if rec.take(&id) {
                todo.push((id, sel.clone(), z.clone()));
            }
        }
    }
    if !todo.is_empty() {
        if let Ok(keys) = build_keys::<S>(&cfg, rec.seed) {
            if let Ok(c) = commit_set::<S>(&keys, slice_b_polys::<S>(&cfg, rec.seed), rec.seed, 0) {
                for (id, sel, z) in todo {
                    if let Ok(s) = open_single::<S>(&keys, &c, &sel, &z, 0, rec.seed, 0) {
                        rec.op(1);
                        let t = SingleT { id, keys: &keys, c: &c, sel, s };
                        f(rec, &t);
                    } else {
                        rec.class("source-open-failed");
                    }
                }
            } else {
                rec.class("source-commit-failed");
            }
        }
    }
}

pub fn shapes_short<S: Sch>(cfg: &KeyCfg, seed: u64) -> Vec<(String, S::P)> {
    let all = S::shapes(cfg, seed);
    if all.len() <= 6 {
        return all;
    }
    let mut keep: Vec<(String, S::P)> = Vec::new();
    let mut fams: Vec<String> = Vec::new();
    // the last member of each shape family (largest degree / last unit vector) plus zero and const
    for (n, p) in all.iter().rev() {
        let fam: String = n.split(|c| c == '(' || c == '[').next().unwrap().trim_end_matches(char::is_numeric).to_string();
        if !fams.contains(&fam) {
            fams.push(fam);
            keep.push((n.clone(), p.clone()));
        }
    }
    keep.reverse();
    keep
}

/// Batch transcripts over slice B: query sets = all non-empty subsets up to `max_size`.
pub fn for_batch<S: Sch>(rec: &mut Rec, max_size: usize, masks: Option<&[u32]>, mut f: impl FnMut(&mut Rec, &BatchT<S>)) {
    let cfg = slice_b::<S>();
    let keys = match build_keys::<S>(&cfg, rec.seed) {
        Ok(k) => k,
        Err(_) => return,
    };
    let c = match commit_set::<S>(&keys, slice_b_polys::<S>(&cfg, rec.seed), rec.seed, 0) {
        Ok(c) => c,
        Err(_) => {
            rec.class("source-commit-failed");
            return;
        }
    };
    let labels = slice_b_labels::<S>(&cfg, rec.seed);
    let allq = all_queries::<S>(&c.polys, &labels);
    let nq = allq.len();
    let all_masks: Vec<u32> = match masks {
        Some(m) => m.to_vec(),
        None => (1u32..(1 << nq)).filter(|m| (m.count_ones() as usize) <= max_size).collect(),
    };
    for mask in all_masks {
        let id = format!("{}/BT/{}/q={:09b}", S::NAME, cfg.id(), mask);
        if !rec.take(&id) {
            continue;
        }
        let qs: QuerySet<S::Pt> = (0..nq).filter(|i| mask >> i & 1 == 1).map(|i| allq[i].clone()).collect();
        match open_batch::<S>(&keys, &c, &[0, 1, 2], &qs, 0, rec.seed, 0) {
            Ok(b) => {
                rec.op(1);
                let t = BatchT { id, keys: &keys, c: &c, b };
                f(rec, &t);
            }
            Err(_) => rec.class("source-open-failed"),
        }
    }
}
