//! Mirror structs for crate-private types, reached through canonical serialization (DESIGN A.4).
//! Every conversion is self-validated: mirror -> bytes must equal the original bytes.
use crate::schemes::MT;
use ark_crypto_primitives::merkle_tree::{Config, Path};
use ark_ff::PrimeField;
use ark_serialize::{CanonicalDeserialize, CanonicalSerialize, Compress, Validate};

#[derive(Clone, CanonicalSerialize, CanonicalDeserialize)]
pub struct MSingle<F: PrimeField> {
    pub paths: Vec<Path<MT>>,
    pub v: Vec<F>,
    pub columns: Vec<Vec<F>>,
}

#[derive(Clone, CanonicalSerialize, CanonicalDeserialize)]
pub struct MProof<F: PrimeField> {
    pub opening: MSingle<F>,
    pub well_formedness: Option<Vec<F>>,
}

#[derive(Clone, Debug, CanonicalSerialize, CanonicalDeserialize)]
pub struct MMeta {
    pub n_rows: usize,
    pub n_cols: usize,
    pub n_ext_cols: usize,
}

#[derive(Clone, CanonicalSerialize, CanonicalDeserialize)]
pub struct MComm {
    pub metadata: MMeta,
    pub root: <MT as Config>::InnerDigest,
}

#[derive(Clone, CanonicalSerialize, CanonicalDeserialize)]
pub struct MMatrix<F: PrimeField> {
    pub n: usize,
    pub m: usize,
    pub entries: Vec<Vec<F>>,
}

#[derive(Clone, CanonicalSerialize, CanonicalDeserialize)]
pub struct MState<F: PrimeField> {
    pub mat: MMatrix<F>,
    pub ext_mat: MMatrix<F>,
    pub leaves: Vec<Vec<u8>>,
}

#[derive(Clone, CanonicalSerialize, CanonicalDeserialize)]
pub struct MHyraxState<F: PrimeField> {
    pub randomness: Vec<F>,
    pub mat: MMatrix<F>,
}

/// Convert by serialize -> deserialize; panics (machinery error) if the mirror does not reproduce
/// the original bytes.
pub fn convert<A: CanonicalSerialize, B: CanonicalSerialize + CanonicalDeserialize>(a: &A) -> B {
    let mut bytes = Vec::new();
    a.serialize_with_mode(&mut bytes, Compress::No).expect("mirror: serialize");
    let b = B::deserialize_with_mode(&bytes[..], Compress::No, Validate::No).expect("mirror: deserialize");
    let mut back = Vec::new();
    b.serialize_with_mode(&mut back, Compress::No).expect("mirror: re-serialize");
    assert!(bytes == back, "MACHINERY: mirror struct does not round-trip");
    b
}

#[derive(Clone, CanonicalSerialize, CanonicalDeserialize)]
pub struct MSprs<F: PrimeField> {
    pub n: usize,
    pub m: usize,
    pub d: usize,
    pub ind_ptr: Vec<usize>,
    pub col_ind: Vec<usize>,
    pub val: Vec<F>,
}

/// Mirror of `BrakedownPCParams` with unit hash parameters.
#[derive(Clone, CanonicalSerialize, CanonicalDeserialize)]
pub struct MBrkParams<F: PrimeField> {
    pub sec_param: usize,
    pub alpha: (usize, usize),
    pub beta: (usize, usize),
    pub rho_inv: (usize, usize),
    pub base_len: usize,
    pub n: usize,
    pub m: usize,
    pub m_ext: usize,
    pub a_dims: Vec<(usize, usize, usize)>,
    pub b_dims: Vec<(usize, usize, usize)>,
    pub start: Vec<usize>,
    pub end: Vec<usize>,
    pub a_mats: Vec<MSprs<F>>,
    pub b_mats: Vec<MSprs<F>>,
    pub check_well_formedness: bool,
}

/// Mirror of `LigeroPCParams` with unit hash parameters.
#[derive(Clone, CanonicalSerialize, CanonicalDeserialize)]
pub struct MLigParams {
    pub sec_param: usize,
    pub rho_inv: usize,
    pub check_well_formedness: bool,
}
