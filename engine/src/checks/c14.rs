//! C14 — streaming KZG: space- and time-efficient provers are interchangeable; folded streams
//! enumerate exactly the successive foldings.
use crate::alpha::*;
use crate::rec::Rec;
use crate::refm::*;
use crate::schemes::*;
use crate::special::*;
use crate::util::*;
use ark_ec::pairing::Pairing;
use ark_ec::{AffineRepr, CurveGroup};
use ark_ff::{Field, One, Zero};
use ark_poly::{DenseUVPolynomial, Polynomial};
use ark_poly_commit::streaming_kzg::{self as skzg, CommitterKeyStream, FoldedPolynomialStream, FoldedPolynomialTree};
use ark_std::iterable::{Iterable, Reverse};

type F = Fr381;

fn viol(rec: &mut Rec, what: &str, id: &str, detail: String) {
    rec.violation(&format!("C14/STR/{}", what), id, detail);
}

/// remainder of p modulo prod (X - z_j), little-endian, padded to k entries
fn ref_remainder(coeffs: &[F], pts: &[F]) -> Vec<F> {
    let mut z = vec![F::one()];
    for p in pts {
        let mut n = vec![F::zero(); z.len() + 1];
        for (i, c) in z.iter().enumerate() {
            n[i + 1] += *c;
            n[i] -= *c * p;
        }
        z = n;
    }
    let k = pts.len();
    let mut r = coeffs.to_vec();
    // schoolbook long division by the monic z
    while r.len() > k {
        let top = *r.last().unwrap();
        let off = r.len() - 1 - k;
        for i in 0..=k {
            r[off + i] -= top * z[i];
        }
        r.pop();
    }
    r.resize(k, F::zero());
    r
}

fn point_sets(seed: u64, max: usize) -> Vec<(String, Vec<F>)> {
    let a = [("r1", rho::<F>(seed, 1)), ("r2", rho::<F>(seed, 2)), ("0", F::zero()), ("1", F::one()), ("-1", -F::one()), ("r3", rho::<F>(seed, 3)), ("2", F::from(2u64)), ("r4", rho::<F>(seed, 4))];
    let picks: Vec<Vec<usize>> = vec![vec![0], vec![2], vec![0, 1], vec![2, 3], vec![0, 2, 3], vec![1, 3, 4], vec![0, 1, 2, 3], vec![0, 1, 2, 3, 4], vec![0, 1, 2, 3, 4, 5], vec![0, 1, 2, 3, 4, 5, 6, 7]];
    picks.into_iter().filter(|p| p.len() <= max).map(|p| (p.iter().map(|i| a[*i].0).collect::<Vec<_>>().join(","), p.iter().map(|i| a[*i].1).collect())).collect()
}

pub fn provers(rec: &mut Rec, dmax: usize, max_pts: usize) {
    let r = rho_stream::<F>(rec.seed, 21, dmax + 2);
    let deltas = [F::one(), -F::one(), rho::<F>(rec.seed, 1)];
    for deg in 0..=dmax {
        for (kn, ksize) in [("deg+1", deg + 1), ("deg+2", deg + 2), ("2deg", (2 * deg).max(deg + 1)), ("deg+5", deg + 5)] {
            for pat in ["dense", "lowzero", "top", "hizero", "alternating"] {
                if (pat == "hizero" || pat == "alternating") && deg < 2 {
                    continue;
                }
                let id = format!("STR/prove/deg={}/key={}/{}", deg, kn, pat);
                if !rec.take(&id) {
                    continue;
                }
                rec.dim("family", "provers");
                let mut coeffs: Vec<F> = r[..=deg].to_vec();
                if pat == "lowzero" {
                    coeffs[0] = F::zero();
                }
                if pat == "top" {
                    coeffs = vec![F::zero(); deg + 1];
                    coeffs[deg] = F::one();
                }
                if pat == "hizero" {
                    // a coefficient vector that is not normalized: the two highest entries are zero
                    coeffs[deg] = F::zero();
                    coeffs[deg - 1] = F::zero();
                }
                if pat == "alternating" {
                    for i in (1..=deg).step_by(2) {
                        coeffs[i] = F::zero();
                    }
                }
                let max_degree = (ksize - 1).max(1);
                let ck = str_key(max_degree, max_pts, rec.seed);
                let vk = SVk::from(&ck);
                let sck = CommitterKeyStream::from(&ck);
                let rev: Vec<F> = coeffs.iter().rev().cloned().collect();
                let stream = rev.as_slice();
                let len = coeffs.len();
                let bufs: Vec<usize> = {
                    let mut b = vec![1usize, 2, 3, 5, 8, len.saturating_sub(1).max(1), len, len + 1, 1 << 10, 1 << 20];
                    b.sort();
                    b.dedup();
                    b
                };
                // commitment
                let ct = match catch(|| ck.commit(&coeffs)) {
                    Ok(c) => c,
                    Err(e) => {
                        viol(rec, "time/commit-panics", &id, e);
                        continue;
                    }
                };
                match catch(|| sck.commit(&stream)) {
                    Ok(cs) => {
                        rec.op(2);
                        if cs != ct {
                            viol(rec, "commit/time!=space", &id, "space-efficient commitment differs from the time-efficient one".into());
                        }
                    }
                    Err(e) => viol(rec, "space/commit-panics", &id, e),
                }
                // single-point openings
                let pts = [rho::<F>(rec.seed, 1), F::zero(), F::one()];
                let p = UP::<F>::from_coefficients_slice(&coeffs);
                let mut all_equal = true;
                for z in &pts {
                    let (et, pt) = match catch(|| ck.open(&coeffs, z)) {
                        Ok(x) => x,
                        Err(e) => {
                            viol(rec, "time/open-panics", &id, e);
                            continue;
                        }
                    };
                    rec.op(1);
                    if et != p.evaluate(z) {
                        viol(rec, "time/open-wrong-evaluation", &id, "time-efficient open returned a wrong evaluation".into());
                    }
                    for b in bufs.iter() {
                        rec.count_points(1);
                        rec.op(1);
                        match catch(|| sck.open(&stream, z, *b)) {
                            Ok((es, ps)) => {
                                if es != et || ps != pt {
                                    all_equal = false;
                                    viol(rec, "open/time!=space", &id, format!("buffer {}: space-efficient (evaluation, proof) differ from the time-efficient ones", b));
                                }
                            }
                            Err(e) => {
                                all_equal = false;
                                viol(rec, "space/open-panics", &id, format!("buffer {}: {}", b, e));
                            }
                        }
                    }
                    let d = str_verify(&vk, &ct, z, &et, &pt);
                    if !d.accepted() {
                        viol(rec, "verify/honest-rejected", &id, format!("true evaluation rejected: {}", d.short()));
                    }
                    for dl in deltas.iter() {
                        rec.count_points(1);
                        rec.op(1);
                        let d = str_verify(&vk, &ct, z, &(et + dl), &pt);
                        rec.class(if d.accepted() { "false-accepted" } else { "false-rejected" });
                        if d.accepted() {
                            viol(rec, "verify/false-value-accepted", &id, "value+delta accepted".into());
                        }
                    }
                }
                // multi-point openings
                for (pn, pset) in point_sets(rec.seed, max_pts) {
                    // the verifier key holds min(max_degree + 1, max_eval_points + 1) G2 powers
                    if pset.len() > max_degree.min(max_pts) {
                        continue;
                    }
                    // on the dense pattern also: Z(x) * (x^k + c) + 1, whose quotient by Z has zero coefficients
                    if pat == "dense" && deg >= pset.len() + 2 {
                        let mut zpoly = vec![F::one()];
                        for z in pset.iter() {
                            let mut nz = vec![F::zero(); zpoly.len() + 1];
                            for (i, c) in zpoly.iter().enumerate() {
                                nz[i + 1] += *c;
                                nz[i] -= *z * *c;
                            }
                            zpoly = nz;
                        }
                        let k = deg - pset.len();
                        let mut cv = vec![F::zero(); deg + 1];
                        for (i, c) in zpoly.iter().enumerate() {
                            cv[i + k] += *c;
                            cv[i] += r[1] * *c;
                        }
                        cv[0] += F::one();
                        let revv: Vec<F> = cv.iter().rev().cloned().collect();
                        let sv = revv.as_slice();
                        rec.count_points(1);
                        rec.op(2);
                        match (catch(|| ck.open_multi_points(&cv, &pset)), catch(|| sck.open_multi_points(&sv, &pset, 3))) {
                            (Ok(ptv), Ok((rsv, psv))) => {
                                let mut want = ref_remainder(&cv, &pset);
                                want.reverse();
                                rec.class(if psv == ptv && rsv == want { "sparse-quotient-ok" } else { "sparse-quotient-differs" });
                                if psv != ptv {
                                    all_equal = false;
                                    viol(rec, "open_multi_points/time!=space", &id, format!("points {{{}}}: proofs differ for Z(x)*(x^{} + c) + 1 (sparse quotient)", pn, k));
                                }
                                if rsv != want {
                                    all_equal = false;
                                    viol(rec, "open_multi_points/remainder", &id, format!("points {{{}}}: remainder differs from p mod Z for Z(x)*(x^{} + c) + 1", pn, k));
                                }
                            }
                            (a, b) => viol(rec, "space/open_multi_points-panics", &id, format!("points {{{}}}: sparse-quotient polynomial: time {:?} / space {:?}", pn, a.err(), b.err())),
                        }
                    }
                    let pt = match catch(|| ck.open_multi_points(&coeffs, &pset)) {
                        Ok(x) => x,
                        Err(e) => {
                            viol(rec, "time/open_multi_points-panics", &id, format!("points {{{}}}: {}", pn, e));
                            continue;
                        }
                    };
                    rec.op(1);
                    let rem = ref_remainder(&coeffs, &pset);
                    let mut rem_be = rem.clone();
                    rem_be.reverse();
                    for b in [1usize, 3, len, 1 << 10] {
                        rec.count_points(1);
                        rec.op(1);
                        match catch(|| sck.open_multi_points(&stream, &pset, b)) {
                            Ok((rs, ps)) => {
                                if ps != pt {
                                    all_equal = false;
                                    viol(rec, "open_multi_points/time!=space", &id, format!("points {{{}}}, buffer {}: proofs differ", pn, b));
                                }
                                if rs != rem_be {
                                    all_equal = false;
                                    viol(rec, "open_multi_points/remainder", &id, format!("points {{{}}}, buffer {}: remainder differs from p mod Z", pn, b));
                                }
                            }
                            Err(e) => {
                                all_equal = false;
                                let kind = if pset.len() > len { "space/open_multi_points-panics/more-points-than-coefficients" } else { "space/open_multi_points-panics" };
                                viol(rec, kind, &id, format!("points {{{}}}, buffer {}: {}", pn, b, e));
                            }
                        }
                    }
                    let evals: Vec<F> = pset.iter().map(|z| p.evaluate(z)).collect();
                    for (en, eta) in [("0", F::zero()), ("1", F::one()), ("r1", rho::<F>(rec.seed, 1))] {
                        rec.count_points(1);
                        rec.op(1);
                        let run = |ev: &Vec<F>| match catch(|| vk.verify_multi_points(&[ct], &pset, &[ev.clone()], &pt, &eta)) {
                            Ok(Ok(())) => Dec::Acc,
                            Ok(Err(_)) => Dec::Rej,
                            Err(e) => Dec::Panic(e),
                        };
                        let d = run(&evals);
                        rec.class(if d.accepted() { "multi-true-accepted" } else { "multi-true-rejected" });
                        if !d.accepted() {
                            viol(rec, "verify_multi_points/honest-rejected", &id, format!("points {{{}}}, eta {}: {}", pn, en, d.short()));
                        }
                        for j in 0..evals.len() {
                            let mut ev = evals.clone();
                            ev[j] += deltas[2];
                            rec.count_points(1);
                            let d = run(&ev);
                            rec.class(if d.accepted() { "false-accepted" } else { "false-rejected" });
                            if d.accepted() {
                                viol(rec, "verify_multi_points/false-value-accepted", &id, format!("points {{{}}}, eta {}: evaluation {} + delta accepted", pn, en, j));
                            }
                        }
                    }
                }
                rec.class(if all_equal { "time==space" } else { "time!=space" });
                rec.obs(&format!("prove|{}|{}|{}|{}", deg.min(20), kn, pat, all_equal));
                rec.sample("provers", id.clone());
            }
        }
    }
    // several polynomials: the batched time proof equals the proof of the explicit linear combination
    // length profiles: the original ascending one per m, and EVERY sequence of 1..3 lengths over {1, 2, 3, 9}
    // (polynomials with no more coefficients than evaluation points - zero quotient - before, between and after long ones)
    let mut profiles: Vec<Vec<usize>> = (1..=3usize.min(max_pts)).map(|m| (0..m).map(|i| 6 + 2 * i).collect()).collect();
    let lens = [1usize, 2, 3, 9];
    for m in 1..=3usize {
        for code in 0..lens.len().pow(m as u32) {
            profiles.push((0..m).map(|i| lens[code / lens.len().pow(i as u32) % lens.len()]).collect());
        }
    }
    for profile in profiles {
        let m = profile.len();
        for (en, eta) in [("0", F::zero()), ("1", F::one()), ("r1", rho::<F>(rec.seed, 1))] {
            let id = if profile.iter().enumerate().all(|(i, l)| *l == 6 + 2 * i) { format!("STR/batch/m={}/eta={}", m, en) } else { format!("STR/batch/lengths={:?}/eta={}", profile, en).replace(' ', "") };
            if !rec.take(&id) {
                continue;
            }
            rec.dim("family", "provers");
            let ck = str_key(12, max_pts, rec.seed);
            let vk = SVk::from(&ck);
            let polys: Vec<Vec<F>> = profile.iter().enumerate().map(|(i, l)| rho_stream::<F>(rec.seed, 40 + i as u64, *l)).collect();
            let refs: Vec<&Vec<F>> = polys.iter().collect();
            for (pn, pset) in point_sets(rec.seed, max_pts.min(4)) {
                rec.count_points(1);
                rec.op(3);
                let proof = match catch(|| ck.batch_open_multi_points(&refs, &pset, &eta)) {
                    Ok(p) => p,
                    Err(e) => {
                        viol(rec, "time/batch_open_multi_points-panics", &id, format!("points {{{}}}: {}", pn, e));
                        continue;
                    }
                };
                let mut comb = vec![F::zero(); polys.iter().map(|p| p.len()).max().unwrap()];
                let mut pw = F::one();
                for p in polys.iter() {
                    for (i, c) in p.iter().enumerate() {
                        comb[i] += pw * c;
                    }
                    pw *= eta;
                }
                let want = ck.open_multi_points(&comb, &pset);
                if want != proof {
                    viol(rec, "batch_open_multi_points/differs-from-combination", &id, format!("points {{{}}}: batched proof != proof of sum eta^i p_i", pn));
                }
                let comms: Vec<_> = polys.iter().map(|p| ck.commit(p)).collect();
                let evals: Vec<Vec<F>> = polys.iter().map(|p| pset.iter().map(|z| horner(p, *z)).collect()).collect();
                let d = match catch(|| vk.verify_multi_points(&comms, &pset, &evals, &proof, &eta)) {
                    Ok(Ok(())) => Dec::Acc,
                    Ok(Err(_)) => Dec::Rej,
                    Err(e) => Dec::Panic(e),
                };
                rec.class(if d.accepted() { "multi-true-accepted" } else { "multi-true-rejected" });
                if !d.accepted() {
                    viol(rec, "verify_multi_points/honest-rejected", &id, format!("points {{{}}}: {}", pn, d.short()));
                }
            }
        }
    }
}

/// naive successive foldings, little-endian: f_i[j] = f_{i-1}[2j] + ch[i-1] * f_{i-1}[2j+1]
pub fn ref_fold(coeffs: &[F], ch: &[F]) -> Vec<Vec<F>> {
    let mut levels = vec![coeffs.to_vec()];
    for c in ch {
        let prev = levels.last().unwrap();
        let mut next = Vec::new();
        let mut j = 0;
        while j < prev.len() {
            let lo = prev[j];
            let hi = if j + 1 < prev.len() { prev[j + 1] } else { F::zero() };
            next.push(lo + *c * hi);
            j += 2;
        }
        levels.push(next);
    }
    levels
}

fn strip(mut v: Vec<F>) -> Vec<F> {
    while v.last().map(|x| x.is_zero()).unwrap_or(false) {
        v.pop();
    }
    v
}

pub fn folding(rec: &mut Rec, max_len: usize, max_depth: usize) {
    let rs = rho_stream::<F>(rec.seed, 22, max_len + 8);
    let chs = rho_stream::<F>(rec.seed, 23, max_depth + 1);
    let ck = str_key(max_len + 2, 3, rec.seed);
    let sck = CommitterKeyStream::from(&ck);
    for n in 1..=max_len {
        for depth in 0..=max_depth {
            for pat in ["ones", "rho", "unit-first", "unit-last"] {
                let id = format!("STR/fold/n={}/depth={}/{}", n, depth, pat);
                if !rec.take(&id) {
                    continue;
                }
                rec.dim("family", "folding");
                rec.op(3);
                let coeffs: Vec<F> = match pat {
                    "ones" => vec![F::one(); n],
                    "rho" => rs[..n].to_vec(),
                    "unit-first" => {
                        let mut v = vec![F::zero(); n];
                        v[0] = F::one();
                        v
                    }
                    _ => {
                        let mut v = vec![F::zero(); n];
                        v[n - 1] = F::one();
                        v
                    }
                };
                let ch = &chs[..depth];
                let want = ref_fold(&coeffs, ch);
                let rev: Vec<F> = coeffs.iter().rev().cloned().collect();
                let stream = rev.as_slice();
                let mut ok = true;
                let mut bad = String::new();
                // tree: (level, coefficient) pairs in stream order per level
                let tree = FoldedPolynomialTree::new(&stream, ch);
                match catch(|| tree.iter().collect::<Vec<(usize, F)>>()) {
                    Ok(items) => {
                        for lvl in 1..=depth {
                            let mut got: Vec<F> = items.iter().filter(|(l, _)| *l == lvl).map(|(_, c)| *c).collect();
                            got.reverse();
                            let exp_len = (n + (1 << lvl) - 1) >> lvl;
                            if strip(got.clone()) != strip(want[lvl].clone()) {
                                ok = false;
                                bad = format!("tree level {} differs from the naive fold", lvl);
                            } else if got.len() != exp_len {
                                ok = false;
                                bad = format!("tree level {} has {} coefficients, the fold of a length-{} polynomial has {}", lvl, got.len(), n, exp_len);
                            }
                        }
                        if items.iter().any(|(l, _)| *l == 0 || *l > depth) {
                            ok = false;
                            bad = "tree emits a level outside 1..=depth".into();
                        }
                        if tree.len() != n || tree.depth() != depth {
                            ok = false;
                            bad = "tree len()/depth() wrong".into();
                        }
                    }
                    Err(e) => {
                        ok = false;
                        bad = format!("tree iteration panicked: {}", e);
                    }
                }
                // stream: only the last level
                let fs = FoldedPolynomialStream::new(&stream, ch);
                match catch(|| fs.iter().collect::<Vec<F>>()) {
                    Ok(mut got) => {
                        got.reverse();
                        let exp_len = (n + (1 << depth) - 1) >> depth;
                        if strip(got.clone()) != strip(want[depth].clone()) {
                            ok = false;
                            bad = format!("stream differs from the depth-{} naive fold", depth);
                        } else if got.len() != exp_len || fs.len() != exp_len {
                            ok = false;
                            bad = format!("stream yields {} coefficients and reports len() = {}, the fold has {}", got.len(), fs.len(), exp_len);
                        }
                    }
                    Err(e) => {
                        ok = false;
                        bad = format!("stream iteration panicked: {}", e);
                    }
                }
                rec.class(if ok { "fold-ok" } else { "fold-bad" });
                rec.obs(&format!("fold|{}|{}|{}|{}", n.min(20), depth, pat, ok));
                if !ok {
                    viol(rec, "fold/differs-from-naive-fold", &id, bad);
                    continue;
                }
                // commit_folding / open_folding against the time prover on the explicit foldings
                if depth >= 1 && (pat == "rho") && (n <= 40 || n % 7 == 0) {
                    rec.op(4);
                    match catch(|| sck.commit_folding(&tree, 1 << 10)) {
                        Ok(cs) => {
                            let wantc: Vec<_> = (1..=depth).map(|l| ck.commit(&want[l])).collect();
                            if cs != wantc {
                                viol(rec, "commit_folding/differs-from-time", &id, "commit_folding != time commitments of the explicit foldings".into());
                            } else {
                                rec.class("commit_folding-ok");
                            }
                        }
                        Err(e) => viol(rec, "commit_folding/panics", &id, e),
                    }
                    let pts = vec![rho::<F>(rec.seed, 1), F::one()];
                    let etas: Vec<F> = rho_stream::<F>(rec.seed, 24, depth);
                    // levels with fewer coefficients than evaluation points included (the folded polynomial is
                    // then its own remainder)
                    for pts in [pts.clone(), vec![pts[0]], vec![pts[0], pts[1], -F::one()]] {
                        let tree = FoldedPolynomialTree::new(&stream, ch);
                        match catch(|| sck.open_folding(tree, &pts, &etas, 1 << 10)) {
                            Ok((rems, proof)) => {
                                let mut comb = vec![F::zero(); want[1].len()];
                                for l in 1..=depth {
                                    for (i, c) in want[l].iter().enumerate() {
                                        comb[i] += etas[l - 1] * c;
                                    }
                                }
                                let wantp = ck.open_multi_points(&comb, &pts);
                                let mut rok = rems.len() == depth;
                                for l in 1..=depth {
                                    let mut r = ref_remainder(&want[l], &pts);
                                    r.reverse();
                                    rok &= rems.get(l - 1) == Some(&r);
                                }
                                if proof != wantp || !rok {
                                    viol(rec, "open_folding/differs-from-time", &id, format!("open_folding proof equal: {}, remainders equal: {}", proof == wantp, rok));
                                } else {
                                    rec.class("open_folding-ok");
                                }
                            }
                            Err(e) => viol(rec, "open_folding/panics", &id, e),
                        }
                    }
                }
                rec.sample("folding", id.clone());
            }
        }
    }
}

/// The remaining public key operations, observed through commitments (the key fields are private):
/// `CommitterKeyStream::as_committer_key`, `CommitterKey::index_by`, `CommitterKey::batch_commit`,
/// `VerifierKey::from(&CommitterKeyStream)`.
pub fn key_operations(rec: &mut Rec) {
    let n = 9usize;
    let ck = str_key(n - 1, 3, rec.seed);
    let sck = CommitterKeyStream::from(&ck);
    let unit = |i: usize, len: usize| -> Vec<F> {
        let mut v = vec![F::zero(); len];
        v[i] = F::one();
        v
    };
    let g: Vec<<E381 as Pairing>::G1Affine> = (0..n).map(|i| ck.commit(&unit(i, n)).verif_inner()).collect();
    let r = rho_stream::<F>(rec.seed, 25, 2 * n);
    for m in 1..=n {
        let id = format!("STR/keys/as_committer_key/m={}", m);
        if !rec.take(&id) {
            continue;
        }
        rec.dim("family", "keys");
        let k = match catch(|| sck.as_committer_key(m)) {
            Ok(k) => k,
            Err(e) => {
                viol(rec, "as_committer_key/panics", &id, e);
                continue;
            }
        };
        let mut ok = true;
        for i in 0..m {
            rec.count_points(1);
            if catch(|| k.commit(&unit(i, i + 1)).verif_inner()).ok() != Some(g[i]) {
                ok = false;
            }
        }
        // nothing beyond the requested size
        let over = catch(|| k.commit(&unit(m, m + 1)).verif_inner());
        if over.is_ok() {
            ok = false;
        }
        rec.class(if ok { "key-op-ok" } else { "key-op-bad" });
        if !ok {
            viol(rec, "as_committer_key/differs", &id, format!("the key of size {} cut from the stream does not hold exactly the first {} powers", m, m));
        }
    }
    // index_by: every index vector over {0,1,2} of length 3 (collisions included)
    for code in 0..27usize {
        let idx = [code % 3, code / 3 % 3, code / 9];
        let id = format!("STR/keys/index_by/{:?}", idx).replace(' ', "");
        if !rec.take(&id) {
            continue;
        }
        rec.dim("family", "keys");
        let k = match catch(|| ck.index_by(&idx)) {
            Ok(k) => k,
            Err(e) => {
                viol(rec, "index_by/panics", &id, e);
                continue;
            }
        };
        let mut ok = true;
        for i in 0..3 {
            rec.count_points(1);
            let mut want = <E381 as Pairing>::G1::zero();
            for (kk, t) in idx.into_iter().enumerate() {
                if t == i {
                    want += g[kk];
                }
            }
            if catch(|| k.commit(&unit(i, i + 1)).verif_inner()).ok() != Some(want.into_affine()) {
                ok = false;
            }
        }
        rec.class(if ok { "key-op-ok" } else { "key-op-bad" });
        if !ok {
            viol(rec, "index_by/differs", &id, format!("index_by({:?}): element i is not the sum of the powers whose index is i", idx));
        }
    }
    // batch_commit == the list of single commitments, for every list of up to three vectors of different lengths
    let vecs: Vec<Vec<F>> = vec![vec![], r[..1].to_vec(), r[1..5].to_vec(), r[5..5 + n].to_vec()];
    for code in 0..64usize {
        let sel = [code % 4, code / 4 % 4, code / 16];
        let id = format!("STR/keys/batch_commit/{:?}", sel).replace(' ', "");
        if !rec.take(&id) {
            continue;
        }
        rec.dim("family", "keys");
        let list: Vec<Vec<F>> = sel.into_iter().map(|i| vecs[i].clone()).collect();
        rec.count_points(1);
        let got = catch(|| ck.batch_commit(&list).into_iter().map(|c| c.verif_inner()).collect::<Vec<_>>());
        let want: Vec<_> = (0..list.len()).map(|i| ck.commit(&list[i]).verif_inner()).collect();
        let ok = got.as_ref().ok() == Some(&want);
        rec.class(if ok { "key-op-ok" } else { "key-op-bad" });
        if !ok {
            viol(rec, "batch_commit/differs", &id, "batch_commit is not the list of the single commitments".into());
        }
    }
    // the verifier key derived from the stream decides like the one derived from the time key
    let id = "STR/keys/verifier-key-from-stream".to_string();
    if rec.take(&id) {
        rec.dim("family", "keys");
        let vk_t = SVk::from(&ck);
        let vk_s = SVk::from(&sck);
        let coeffs = r[..n].to_vec();
        let c = ck.commit(&coeffs);
        let mut ok = true;
        for z in [r[n], F::zero(), F::one()] {
            let (v, pf) = ck.open(&coeffs, &z);
            for dv in [F::zero(), F::one()] {
                rec.count_points(1);
                let a = str_verify(&vk_t, &c, &z, &(v + dv), &pf).accepted();
                let b = str_verify(&vk_s, &c, &z, &(v + dv), &pf).accepted();
                if a != b || a != dv.is_zero() {
                    ok = false;
                }
            }
        }
        rec.class(if ok { "key-op-ok" } else { "key-op-bad" });
        if !ok {
            viol(rec, "verifier-key/from-stream-differs", &id, "the verifier key derived from the streaming key decides differently from the one derived from the time key".into());
        }
    }
}

pub fn run(rec: &mut Rec) {
    let t = rec.thorough();
    provers(rec, if t { 256 } else { 40 }, if t { 8 } else { 4 });
    folding(rec, 130, 7);
    key_operations(rec);
}
