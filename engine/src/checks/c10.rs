//! C10 — verifiers decide exactly the published relation: on every single-component replacement of
//! an accepting transcript the library's decision equals the reference relation's (both directions).
use crate::alpha::*;
use crate::mirror::*;
use crate::pmut::{f_alpha, g_alpha, ProofMut};
use crate::rec::Rec;
use crate::refm::*;
use crate::sch::*;
use crate::schemes::*;
use crate::source::*;
use crate::tr::*;
use crate::util::*;
use ark_ec::pairing::Pairing;
use ark_ec::AffineRepr;
use ark_ff::{One, PrimeField, Zero};
use ark_poly_commit::{Evaluations, QuerySet};
use ark_poly_commit::linear_codes::{LinCodeParametersInfo, LinearEncode};
use ark_poly_commit::{hyrax, ipa_pc, kzg10, marlin_pc, sonic_pc, LabeledCommitment};

pub trait RefOps: Sch + ProofMut {
    fn ref_check(vk: &VK<Self>, comms: &[&LCm<Self>], point: &Self::Pt, values: &[Self::F], proof: &Pf<Self>, sponge: &mut Sponge<Self::F>) -> bool;
    fn comm_mutations(c: &Cm<Self>, other: &Cm<Self>, seed: u64) -> Vec<(String, Cm<Self>)>;
    fn vk_mutations(vk: &VK<Self>, seed: u64) -> Vec<(String, VK<Self>)>;
    /// single-coordinate replacements of the point
    fn point_mutations(p: &Self::Pt, seed: u64) -> Vec<(String, Self::Pt)>;
}

fn uni_point_muts<F: PrimeField>(p: &F, seed: u64) -> Vec<(String, F)> {
    f_alpha(p, None, seed).into_iter().map(|(n, f)| (format!("point:={}", n), f)).collect()
}

fn vec_point_muts<F: PrimeField>(p: &Vec<F>, seed: u64) -> Vec<(String, Vec<F>)> {
    let mut out = Vec::new();
    for i in 0..p.len() {
        for (n, f) in f_alpha(&p[i], None, seed).into_iter().take(3) {
            let mut q = p.clone();
            q[i] = f;
            out.push((format!("point[{}]:={}", i, n), q));
        }
    }
    out
}

type G1<E> = <E as Pairing>::G1Affine;
type G2<E> = <E as Pairing>::G2Affine;

fn marlin_comm_muts<E: Pairing>(c: &marlin_pc::Commitment<E>, other: &marlin_pc::Commitment<E>, seed: u64) -> Vec<(String, marlin_pc::Commitment<E>)> {
    let mut out = Vec::new();
    for (n, g) in g_alpha::<G1<E>>(&c.comm.0, Some(&other.comm.0), seed) {
        out.push((format!("comm:={}", n), marlin_pc::Commitment { comm: kzg10::Commitment(g), shifted_comm: c.shifted_comm }));
    }
    if let Some(s) = c.shifted_comm {
        for (n, g) in g_alpha::<G1<E>>(&s.0, other.shifted_comm.as_ref().map(|x| &x.0), seed) {
            out.push((format!("shifted_comm:={}", n), marlin_pc::Commitment { comm: c.comm, shifted_comm: Some(kzg10::Commitment(g)) }));
        }
        out.push(("shifted_comm:=comm".into(), marlin_pc::Commitment { comm: c.comm, shifted_comm: Some(c.comm) }));
    }
    out
}

impl RefOps for SMar {
    fn ref_check(vk: &VK<Self>, comms: &[&LCm<Self>], point: &Fr381, values: &[Fr381], proof: &Pf<Self>, sponge: &mut Sponge<Fr381>) -> bool {
        ref_mar_check::<E381, _>(vk, comms, *point, values, proof, sponge)
    }
    fn comm_mutations(c: &Cm<Self>, other: &Cm<Self>, seed: u64) -> Vec<(String, Cm<Self>)> {
        marlin_comm_muts::<E381>(c, other, seed)
    }
    fn vk_mutations(vk: &VK<Self>, seed: u64) -> Vec<(String, VK<Self>)> {
        let mut out = Vec::new();
        for (n, g) in g_alpha::<G1<E381>>(&vk.vk.g, Some(&vk.vk.gamma_g), seed) {
            let mut k = vk.clone();
            k.vk.g = g;
            out.push((format!("vk.g:={}", n), k));
        }
        for (n, g) in g_alpha::<G1<E381>>(&vk.vk.gamma_g, Some(&vk.vk.g), seed) {
            let mut k = vk.clone();
            k.vk.gamma_g = g;
            out.push((format!("vk.gamma_g:={}", n), k));
        }
        for (n, g) in g_alpha::<G2<E381>>(&vk.vk.h, Some(&vk.vk.beta_h), seed) {
            let mut k = vk.clone();
            k.vk.h = g;
            k.vk.prepared_h = g.into();
            out.push((format!("vk.h:={}", n), k));
        }
        for (n, g) in g_alpha::<G2<E381>>(&vk.vk.beta_h, Some(&vk.vk.h), seed) {
            let mut k = vk.clone();
            k.vk.beta_h = g;
            k.vk.prepared_beta_h = g.into();
            out.push((format!("vk.beta_h:={}", n), k));
        }
        if let Some(l) = &vk.degree_bounds_and_shift_powers {
            for i in 0..l.len() {
                for (n, g) in g_alpha::<G1<E381>>(&l[i].1, l.get((i + 1) % l.len()).map(|x| &x.1), seed) {
                    let mut k = vk.clone();
                    k.degree_bounds_and_shift_powers.as_mut().unwrap()[i].1 = g;
                    out.push((format!("vk.shift_power[{}]:={}", i, n), k));
                }
            }
        }
        out
    }
    fn point_mutations(p: &Fr381, seed: u64) -> Vec<(String, Fr381)> {
        uni_point_muts(p, seed)
    }
}

impl RefOps for SSon {
    fn ref_check(vk: &VK<Self>, comms: &[&LCm<Self>], point: &Fr381, values: &[Fr381], proof: &Pf<Self>, sponge: &mut Sponge<Fr381>) -> bool {
        ref_son_check::<E381, _>(vk, comms, *point, values, proof, sponge)
    }
    fn comm_mutations(c: &Cm<Self>, other: &Cm<Self>, seed: u64) -> Vec<(String, Cm<Self>)> {
        g_alpha::<G1<E381>>(&c.0, Some(&other.0), seed).into_iter().map(|(n, g)| (format!("comm:={}", n), kzg10::Commitment(g))).collect()
    }
    fn vk_mutations(vk: &VK<Self>, seed: u64) -> Vec<(String, VK<Self>)> {
        let mut out = Vec::new();
        for (n, g) in g_alpha::<G1<E381>>(&vk.g, Some(&vk.gamma_g), seed) {
            let mut k = vk.clone();
            k.g = g;
            out.push((format!("vk.g:={}", n), k));
        }
        for (n, g) in g_alpha::<G1<E381>>(&vk.gamma_g, Some(&vk.g), seed) {
            let mut k = vk.clone();
            k.gamma_g = g;
            out.push((format!("vk.gamma_g:={}", n), k));
        }
        for (n, g) in g_alpha::<G2<E381>>(&vk.h, Some(&vk.beta_h), seed) {
            let mut k = vk.clone();
            k.h = g;
            k.prepared_h = g.into();
            out.push((format!("vk.h:={}", n), k));
        }
        for (n, g) in g_alpha::<G2<E381>>(&vk.beta_h, Some(&vk.h), seed) {
            let mut k = vk.clone();
            k.beta_h = g;
            k.prepared_beta_h = g.into();
            out.push((format!("vk.beta_h:={}", n), k));
        }
        if let Some(l) = &vk.degree_bounds_and_neg_powers_of_h {
            for i in 0..l.len() {
                for (n, g) in g_alpha::<G2<E381>>(&l[i].1, l.get((i + 1) % l.len()).map(|x| &x.1), seed) {
                    let mut k = vk.clone();
                    k.degree_bounds_and_neg_powers_of_h.as_mut().unwrap()[i].1 = g;
                    out.push((format!("vk.neg_power_of_h[{}]:={}", i, n), k));
                }
            }
        }
        out
    }
    fn point_mutations(p: &Fr381, seed: u64) -> Vec<(String, Fr381)> {
        uni_point_muts(p, seed)
    }
}

impl RefOps for SPst {
    fn ref_check(vk: &VK<Self>, comms: &[&LCm<Self>], point: &Vec<Fr381>, values: &[Fr381], proof: &Pf<Self>, sponge: &mut Sponge<Fr381>) -> bool {
        ref_pst_check::<E381, _>(vk, comms, point, values, proof, sponge)
    }
    fn comm_mutations(c: &Cm<Self>, other: &Cm<Self>, seed: u64) -> Vec<(String, Cm<Self>)> {
        marlin_comm_muts::<E381>(c, other, seed)
    }
    fn vk_mutations(vk: &VK<Self>, seed: u64) -> Vec<(String, VK<Self>)> {
        let mut out = Vec::new();
        for (n, g) in g_alpha::<G1<E381>>(&vk.g, Some(&vk.gamma_g), seed) {
            let mut k = vk.clone();
            k.g = g;
            out.push((format!("vk.g:={}", n), k));
        }
        for (n, g) in g_alpha::<G1<E381>>(&vk.gamma_g, Some(&vk.g), seed) {
            let mut k = vk.clone();
            k.gamma_g = g;
            out.push((format!("vk.gamma_g:={}", n), k));
        }
        for (n, g) in g_alpha::<G2<E381>>(&vk.h, Some(&vk.beta_h[0]), seed) {
            let mut k = vk.clone();
            k.h = g;
            k.prepared_h = g.into();
            out.push((format!("vk.h:={}", n), k));
        }
        for j in 0..vk.beta_h.len() {
            for (n, g) in g_alpha::<G2<E381>>(&vk.beta_h[j], Some(&vk.beta_h[(j + 1) % vk.beta_h.len()]), seed) {
                let mut k = vk.clone();
                k.beta_h[j] = g;
                k.prepared_beta_h[j] = g.into();
                out.push((format!("vk.beta_h[{}]:={}", j, n), k));
            }
        }
        out
    }
    fn point_mutations(p: &Vec<Fr381>, seed: u64) -> Vec<(String, Vec<Fr381>)> {
        vec_point_muts(p, seed)
    }
}

impl RefOps for SIpa {
    fn ref_check(vk: &VK<Self>, comms: &[&LCm<Self>], point: &FrJ, values: &[FrJ], proof: &Pf<Self>, sponge: &mut Sponge<FrJ>) -> bool {
        ref_ipa_check(vk, comms, *point, values, proof, sponge)
    }
    fn comm_mutations(c: &Cm<Self>, other: &Cm<Self>, seed: u64) -> Vec<(String, Cm<Self>)> {
        let mut out = Vec::new();
        for (n, g) in g_alpha::<GJ>(&c.comm, Some(&other.comm), seed) {
            out.push((format!("comm:={}", n), ipa_pc::Commitment { comm: g, shifted_comm: c.shifted_comm }));
        }
        if let Some(s) = c.shifted_comm {
            for (n, g) in g_alpha::<GJ>(&s, other.shifted_comm.as_ref(), seed) {
                out.push((format!("shifted_comm:={}", n), ipa_pc::Commitment { comm: c.comm, shifted_comm: Some(g) }));
            }
            out.push(("shifted_comm:=comm".into(), ipa_pc::Commitment { comm: c.comm, shifted_comm: Some(c.comm) }));
        }
        out
    }
    fn vk_mutations(vk: &VK<Self>, seed: u64) -> Vec<(String, VK<Self>)> {
        let mut out = Vec::new();
        for i in 0..vk.comm_key.len() {
            for (n, g) in g_alpha::<GJ>(&vk.comm_key[i], Some(&vk.comm_key[(i + 1) % vk.comm_key.len()]), seed).into_iter().take(3) {
                let mut k = vk.clone();
                k.comm_key[i] = g;
                out.push((format!("vk.comm_key[{}]:={}", i, n), k));
            }
        }
        for (n, g) in g_alpha::<GJ>(&vk.h, Some(&vk.s), seed) {
            let mut k = vk.clone();
            k.h = g;
            out.push((format!("vk.h:={}", n), k));
        }
        for (n, g) in g_alpha::<GJ>(&vk.s, Some(&vk.h), seed) {
            let mut k = vk.clone();
            k.s = g;
            out.push((format!("vk.s:={}", n), k));
        }
        out
    }
    fn point_mutations(p: &FrJ, seed: u64) -> Vec<(String, FrJ)> {
        uni_point_muts(p, seed)
    }
}

impl RefOps for SHyr {
    fn ref_check(vk: &VK<Self>, comms: &[&LCm<Self>], point: &Vec<FrJ>, values: &[FrJ], proof: &Pf<Self>, sponge: &mut Sponge<FrJ>) -> bool {
        ref_hyrax_check(vk, comms, point, values, proof, sponge)
    }
    fn comm_mutations(c: &Cm<Self>, other: &Cm<Self>, seed: u64) -> Vec<(String, Cm<Self>)> {
        let mut out = Vec::new();
        for i in 0..c.row_coms.len() {
            for (n, g) in g_alpha::<GJ>(&c.row_coms[i], other.row_coms.get(i), seed) {
                let mut m = c.clone();
                m.row_coms[i] = g;
                out.push((format!("row_coms[{}]:={}", i, n), m));
            }
        }
        out
    }
    fn vk_mutations(vk: &VK<Self>, seed: u64) -> Vec<(String, VK<Self>)> {
        let mut out = Vec::new();
        for i in 0..vk.com_key.len() {
            for (n, g) in g_alpha::<GJ>(&vk.com_key[i], Some(&vk.h), seed).into_iter().take(3) {
                let mut k = vk.clone();
                k.com_key[i] = g;
                out.push((format!("vk.com_key[{}]:={}", i, n), k));
            }
        }
        for (n, g) in g_alpha::<GJ>(&vk.h, Some(&vk.com_key[0]), seed) {
            let mut k = vk.clone();
            k.h = g;
            out.push((format!("vk.h:={}", n), k));
        }
        out
    }
    fn point_mutations(p: &Vec<FrJ>, seed: u64) -> Vec<(String, Vec<FrJ>)> {
        vec_point_muts(p, seed)
    }
}

fn lincode_comm_muts(c: &MComm, other: &MComm) -> Vec<(String, MComm)> {
    let mut out = Vec::new();
    let mut m = c.clone();
    m.root[0] ^= 1;
    out.push(("root^1".into(), m));
    if other.root != c.root {
        let mut m = c.clone();
        m.root = other.root.clone();
        out.push(("root:=other".into(), m));
    }
    let md = &c.metadata;
    for (n, nr, nc, ne) in [
        ("n_rows*2", md.n_rows * 2, md.n_cols, md.n_ext_cols),
        ("n_rows/2", (md.n_rows / 2).max(1), md.n_cols, md.n_ext_cols),
        ("n_cols+1", md.n_rows, md.n_cols + 1, md.n_ext_cols),
        ("n_cols/2", md.n_rows, (md.n_cols / 2).max(1), md.n_ext_cols),
        ("n_ext/2", md.n_rows, md.n_cols, (md.n_ext_cols / 2).max(1)),
        ("n_ext*2", md.n_rows, md.n_cols, md.n_ext_cols * 2),
        ("rows<->cols", md.n_cols, md.n_rows, md.n_ext_cols),
    ] {
        if (nr, nc, ne) == (md.n_rows, md.n_cols, md.n_ext_cols) {
            continue;
        }
        let mut m = c.clone();
        m.metadata = MMeta { n_rows: nr, n_cols: nc, n_ext_cols: ne };
        out.push((format!("metadata.{}", n), m));
    }
    out
}

macro_rules! lincode_ref {
    ($S:ty, $Enc:ty, $uni:expr, $ligero:expr) => {
        impl RefOps for $S {
            fn ref_check(vk: &VK<Self>, comms: &[&LCm<Self>], point: &<Self as Sch>::Pt, values: &[Fr381], proof: &Pf<Self>, sponge: &mut Sponge<Fr381>) -> bool {
                let mc: Vec<MComm> = comms.iter().map(|c| convert::<_, MComm>(c.commitment())).collect();
                let mp: Vec<MProof<Fr381>> = convert(proof);
                let point_vec: Vec<Fr381> = <$Enc as LinearEncode<Fr381, MT, <Self as Sch>::P, ColH<Fr381>>>::point_to_vec(point.clone());
                let dist = vk.distance();
                let enc = |msg: &[Fr381]| -> Option<Vec<Fr381>> {
                    if $ligero {
                        // Reed-Solomon with rate 1/rho_inv, distance = (rho_inv-1)/rho_inv
                        reed_solomon_ref(msg, dist.1)
                    } else {
                        catch(|| <$Enc as LinearEncode<Fr381, MT, <Self as Sch>::P, ColH<Fr381>>>::encode(msg, vk)).ok().and_then(|r| r.ok())
                    }
                };
                let pv = point_vec.clone();
                let tensor = move |n_rows: usize, n_cols: usize| -> (Vec<Fr381>, Vec<Fr381>) {
                    if $uni {
                        let z = pv[0];
                        let mut a = Vec::new();
                        let mut p = Fr381::one();
                        for _ in 0..n_cols {
                            a.push(p);
                            p *= z;
                        }
                        let step = p;
                        let mut b = Vec::new();
                        let mut p = Fr381::one();
                        for _ in 0..n_rows {
                            b.push(p);
                            p *= step;
                        }
                        (a, b)
                    } else {
                        let split = (usize::BITS - 1 - n_cols.max(1).leading_zeros()) as usize + if n_cols.is_power_of_two() { 0 } else { 1 };
                        let split = split.min(pv.len());
                        (tensor_lsb(&pv[..split]), tensor_lsb(&pv[split..]))
                    }
                };
                let info = LcInfo { sec_param: vk.sec_param(), distance: dist, check_wf: vk.check_well_formedness(), encode: &enc, tensor: &tensor, point_vec };
                ref_lincode_check(&info, &mc, values, &mp, sponge)
            }
            fn comm_mutations(c: &Cm<Self>, other: &Cm<Self>, _seed: u64) -> Vec<(String, Cm<Self>)> {
                let m: MComm = convert(c);
                let o: MComm = convert(other);
                lincode_comm_muts(&m, &o).into_iter().map(|(n, x)| (n, convert::<_, Cm<Self>>(&x))).collect()
            }
            fn vk_mutations(_vk: &VK<Self>, _seed: u64) -> Vec<(String, VK<Self>)> {
                Vec::new()
            }
            fn point_mutations(p: &<Self as Sch>::Pt, seed: u64) -> Vec<(String, <Self as Sch>::Pt)> {
                point_muts_for::<Self>(p, seed)
            }
        }
    };
}

pub trait PointMut: Sch {
    fn pm(p: &Self::Pt, seed: u64) -> Vec<(String, Self::Pt)>;
}
impl PointMut for SLig {
    fn pm(p: &Fr381, seed: u64) -> Vec<(String, Fr381)> {
        uni_point_muts(p, seed)
    }
}
impl PointMut for SMll {
    fn pm(p: &Vec<Fr381>, seed: u64) -> Vec<(String, Vec<Fr381>)> {
        vec_point_muts(p, seed)
    }
}
impl PointMut for SBrk {
    fn pm(p: &Vec<Fr381>, seed: u64) -> Vec<(String, Vec<Fr381>)> {
        vec_point_muts(p, seed)
    }
}
fn point_muts_for<S: PointMut>(p: &S::Pt, seed: u64) -> Vec<(String, S::Pt)> {
    S::pm(p, seed)
}

lincode_ref!(SLig, LigEnc<Fr381>, true, true);
lincode_ref!(SMll, MllEnc<Fr381>, false, true);
lincode_ref!(SBrk, BrkEnc<Fr381>, false, false);

fn compare<S: RefOps>(rec: &mut Rec, id: &str, op: &str, vk: &VK<S>, comms: &[&LCm<S>], point: &S::Pt, values: &[S::F], proof: &Pf<S>) {
    let mut sp = sponge_pre::<S::F>(0);
    let want = match catch(|| S::ref_check(vk, comms, point, values, proof, &mut sp)) {
        Ok(b) => b,
        Err(e) => {
            rec.note(format!("reference relation panicked at {} {}: {}", id, op, trunc(&e, 80)));
            false
        }
    };
    let mut sp = sponge_pre::<S::F>(0);
    let mut rng = seed_rng(rec.seed, 40);
    let got = do_check::<S>(vk, comms, point, values, proof, &mut sp, Some(&mut rng as &mut dyn ark_std::rand::RngCore));
    rec.count_points(1);
    rec.op(2);
    let opc: String = op.chars().filter(|c| !c.is_ascii_digit()).collect();
    rec.class(if want { "relation-holds" } else { "relation-fails" });
    rec.class(&format!("lib-{}", got.class()));
    rec.obs(&format!("{}|{}|{}|{}", S::NAME, opc, want, got.class()));
    if got.accepted() != want {
        let dir = if got.accepted() { "lib-accepts" } else { "lib-rejects" };
        rec.violation(&format!("C10/{}/check/{}/{}", S::NAME, opc, dir), id, format!("{}: library -> {}, reference relation -> {}", op, got.short(), want));
    }
    // schemes with a batch verifier of their own: the same transcript as a one-point batch must be
    // decided by the same relation (the batch code paths end in checks the single path does not share)
    if !S::DEFAULT_BATCH {
        let mut qs: QuerySet<S::Pt> = QuerySet::new();
        let mut ev: Evaluations<S::Pt, S::F> = Evaluations::new();
        for (c, v) in comms.iter().zip(values.iter()) {
            qs.insert((c.label().clone(), ("q".to_string(), point.clone())));
            ev.insert((c.label().clone(), point.clone()), *v);
        }
        // the batch verifier takes the polynomials of a point in label order: only transcripts opened in
        // that order state the same claim as a one-point batch
        let sorted = comms.windows(2).all(|w| w[0].label() < w[1].label());
        if sorted && qs.len() == comms.len() && values.len() == comms.len() {
            let bp: BPf<S> = vec![proof.clone()].into();
            let mut sp = sponge_pre::<S::F>(0);
            let mut rng = seed_rng(rec.seed, 40);
            let gotb = do_batch_check::<S>(vk, comms, &qs, &ev, &bp, &mut sp, &mut rng);
            rec.count_points(1);
            rec.op(1);
            rec.class(&format!("lib-batch-{}", gotb.class()));
            if gotb.accepted() != want {
                let dir = if gotb.accepted() { "lib-accepts" } else { "lib-rejects" };
                rec.violation(&format!("C10/{}/batch_check/{}/{}", S::NAME, opc, dir), id, format!("{} (as a one-point batch): library -> {}, reference relation -> {}", op, gotb.short(), want));
            }
        }
    }
}

pub fn scheme<S: RefOps>(rec: &mut Rec, w: Width) {
    let mut prev: Option<(Pf<S>, Cm<S>)> = None;
    for_single::<S>(rec, w, |rec, t| {
        let comms = t.comms();
        rec.dim("scheme", S::NAME);
        // honest transcript: both must accept
        compare::<S>(rec, &t.id, "honest", &t.keys.vk, &comms, &t.s.point, &t.s.values, &t.s.proof);
        let (oproof, ocomm) = prev.clone().unwrap_or_else(|| (t.s.proof.clone(), comms[0].commitment().clone()));
        let mut n_ops = 0usize;
        // values
        for i in 0..t.s.values.len() {
            for (n, f) in f_alpha(&t.s.values[i], None, rec.seed) {
                let mut v = t.s.values.clone();
                v[i] = f;
                compare::<S>(rec, &t.id, &format!("value[{}]:={}", i, n), &t.keys.vk, &comms, &t.s.point, &v, &t.s.proof);
                n_ops += 1;
            }
        }
        // point
        for (n, z) in S::point_mutations(&t.s.point, rec.seed) {
            compare::<S>(rec, &t.id, &n, &t.keys.vk, &comms, &z, &t.s.values, &t.s.proof);
            n_ops += 1;
        }
        // commitments and degree-bound labels
        for i in 0..comms.len() {
            for (n, cm) in S::comm_mutations(comms[i].commitment(), &ocomm, rec.seed) {
                let lc = LabeledCommitment::new(comms[i].label().clone(), cm, comms[i].degree_bound());
                let mut cs = comms.clone();
                cs[i] = &lc;
                compare::<S>(rec, &t.id, &format!("commitment[{}].{}", i, n), &t.keys.vk, &cs, &t.s.point, &t.s.values, &t.s.proof);
                n_ops += 1;
            }
            if S::BOUNDS {
                // every bound from 0 to one past the key's range: trimmed bounds, bounds in the gaps between
                // them (never enforced by these keys) and bounds beyond the supported / maximum degree
                let mut labels: Vec<Option<usize>> = vec![None];
                let top = if S::NAME == "IPA" { (t.keys.cfg.sup + 1).next_power_of_two() } else { t.keys.cfg.max + 1 };
                labels.extend((0..=top).map(Some));
                for l in labels {
                    if l == comms[i].degree_bound() {
                        continue;
                    }
                    let lc = LabeledCommitment::new(comms[i].label().clone(), comms[i].commitment().clone(), l);
                    let mut cs = comms.clone();
                    cs[i] = &lc;
                    compare::<S>(rec, &t.id, &format!("commitment[{}].degree_bound:={:?}", i, l), &t.keys.vk, &cs, &t.s.point, &t.s.values, &t.s.proof);
                    n_ops += 1;
                }
            }
        }
        // proof components (not the shape mutations: C10 is about transcripts of the right shape)
        for (n, m) in S::proof_mutations(&t.s.proof, &oproof, rec.seed) {
            if n.starts_with("shape:") {
                continue;
            }
            compare::<S>(rec, &t.id, &format!("proof.{}", n), &t.keys.vk, &comms, &t.s.point, &t.s.values, &m);
            n_ops += 1;
        }
        // verifier-key elements
        for (n, k) in S::vk_mutations(&t.keys.vk, rec.seed) {
            compare::<S>(rec, &t.id, &n, &k, &comms, &t.s.point, &t.s.values, &t.s.proof);
            n_ops += 1;
        }
        rec.sample(&format!("{}-c10", S::NAME), format!("{}: honest + {} single-component replacements, library decision vs reference relation", t.id, n_ops));
        prev = Some((t.s.proof.clone(), comms[0].commitment().clone()));
    });
}

/// Multi-point batches: the library's `batch_check` against the conjunction of the reference relation
/// over the point groups (in point-label order, polynomials in label order, one sponge threaded
/// through), on the honest batch, on every claimed value replaced, and on every component of every
/// proof in the list replaced.
pub fn batch_scheme<S: RefOps>(rec: &mut Rec, max_size: usize) {
    use std::collections::{BTreeMap, BTreeSet};
    for_batch::<S>(rec, max_size, None, |rec, t| {
        rec.dim("scheme", S::NAME);
        let mut groups: BTreeMap<String, (S::Pt, BTreeSet<String>)> = BTreeMap::new();
        for (pl, (ll, z)) in t.b.qs.iter() {
            groups.entry(ll.clone()).or_insert_with(|| (z.clone(), BTreeSet::new())).1.insert(pl.clone());
        }
        if groups.len() < 2 {
            return;
        }
        let list: Vec<Pf<S>> = t.b.proof.clone().into();
        if list.len() != groups.len() {
            return;
        }
        let comms: Vec<&LCm<S>> = t.c.comms.iter().collect();
        let reference = |ev: &Evaluations<S::Pt, S::F>, proofs: &[Pf<S>]| -> bool {
            let mut sp = sponge_pre::<S::F>(0);
            let mut all = true;
            for ((_, (z, labels)), pf) in groups.iter().zip(proofs.iter()) {
                let cs: Vec<&LCm<S>> = labels.iter().map(|l| &t.c.comms[t.c.idx(l)]).collect();
                let vs: Vec<S::F> = labels.iter().map(|l| ev[&(l.clone(), z.clone())]).collect();
                let ok = catch(|| S::ref_check(&t.keys.vk, &cs, z, &vs, pf, &mut sp)).unwrap_or(false);
                all &= ok;
            }
            all
        };
        let mut go = |rec: &mut Rec, op: &str, ev: &Evaluations<S::Pt, S::F>, proofs: &[Pf<S>]| {
            let want = reference(ev, proofs);
            let bp: BPf<S> = proofs.to_vec().into();
            let got = check_batch::<S>(t.keys, &comms, &t.b.qs, ev, &bp, 0, rec.seed, 0);
            rec.count_points(1);
            rec.op(2);
            let opc: String = op.chars().filter(|c| !c.is_ascii_digit()).collect();
            rec.class(if want { "relation-holds" } else { "relation-fails" });
            rec.class(&format!("lib-batch-{}", got.class()));
            rec.obs(&format!("{}|batch|{}|{}|{}", S::NAME, opc, want, got.class()));
            if got.accepted() != want {
                let dir = if got.accepted() { "lib-accepts" } else { "lib-rejects" };
                rec.violation(&format!("C10/{}/batch_check/{}/{}", S::NAME, opc, dir), &t.id, format!("{} ({} point groups): library -> {}, conjunction of the reference relation -> {}", op, groups.len(), got.short(), want));
            }
        };
        go(rec, "honest", &t.b.evals, &list);
        let keys_e: Vec<_> = t.b.evals.keys().cloned().collect();
        for (i, k) in keys_e.iter().enumerate() {
            for (n, f) in f_alpha(&t.b.evals[k], None, rec.seed) {
                let mut ev = t.b.evals.clone();
                ev.insert(k.clone(), f);
                go(rec, &format!("value[{}]:={}", i, n), &ev, &list);
            }
        }
        for i in 0..list.len() {
            let other = &list[(i + 1) % list.len()];
            for (n, m) in S::proof_mutations(&list[i], other, rec.seed) {
                if n.starts_with("shape:") {
                    continue;
                }
                let mut l2 = list.clone();
                l2[i] = m;
                go(rec, &format!("proof[{}].{}", i, n), &t.b.evals, &l2);
            }
        }
    });
}


/// Combination openings: the library's `check_combinations` against the reference relation applied to the
/// homomorphically combined commitments (naive linear combination of the commitments, claimed value minus the
/// constant term, point groups in point-label order, combinations in label order, one sponge threaded through):
/// honest, every claimed value replaced, every verifier-side coefficient and constant changed, every proof
/// component replaced.  Combinations with a constant term, with a repeated label, of one bounded polynomial; one
/// combination under two labels of one point and at a second point.
pub fn comb_scheme<S: RefOps + crate::checks::c08::LinMap>(rec: &mut Rec) {
    use ark_poly::Polynomial;
    use ark_poly_commit::{BatchLCProof, LCTerm, LabeledCommitment, LinearCombination};
    use ark_std::rand::RngCore;
    use std::collections::{BTreeMap, BTreeSet};
    let cfg = crate::scope::slice_b::<S>();
    let id0 = format!("{}/LC/{}", S::NAME, cfg.id());
    if !rec.take(&id0) {
        return;
    }
    rec.dim("scheme", S::NAME);
    let keys = match build_keys::<S>(&cfg, rec.seed) {
        Ok(k) => k,
        Err(_) => return,
    };
    let c = match commit_set::<S>(&keys, crate::checks::c01::slice_b_polys::<S>(&cfg, rec.seed), rec.seed, 0) {
        Ok(c) => c,
        Err(_) => return,
    };
    let labels = crate::checks::c01::slice_b_labels::<S>(&cfg, rec.seed);
    let (two, three, r2) = (S::F::from(2u64), S::F::from(3u64), rho::<S::F>(rec.seed, 2));
    // (label, terms (coefficient, Some(poly index) | None = constant))
    let specs: Vec<(&str, Vec<(S::F, Option<usize>)>)> = vec![
        ("L0", vec![(two, Some(0)), (three, None)]),
        ("L1", vec![(S::F::one(), Some(1))]),
        ("L2", vec![(r2, Some(0)), (-S::F::one(), Some(0)), (S::F::one(), None)]),
    ];
    let build = |specs: &Vec<(&str, Vec<(S::F, Option<usize>)>)>| -> Vec<LinearCombination<S::F>> {
        specs
            .iter()
            .map(|(l, ts)| {
                let mut lc = LinearCombination::<S::F>::empty(*l);
                for (cf, t) in ts {
                    match t {
                        Some(j) => lc.push((*cf, LCTerm::PolyLabel(format!("p{}", j)))),
                        None => lc.push((*cf, LCTerm::One)),
                    };
                }
                lc
            })
            .collect()
    };
    let mut qs = QuerySet::<S::Pt>::new();
    for (l, pl) in [("L0", 0usize), ("L0", 1), ("L0", 2), ("L1", 2), ("L2", 0)] {
        qs.insert((l.to_string(), (labels[pl].0.clone(), labels[pl].1.clone())));
    }
    let value_of = |ts: &Vec<(S::F, Option<usize>)>, z: &S::Pt| -> S::F {
        let mut v = S::F::zero();
        for (cf, t) in ts {
            v += match t {
                Some(j) => *cf * c.polys[*j].polynomial().evaluate(z),
                None => *cf,
            };
        }
        v
    };
    let mut evals = Evaluations::<S::Pt, S::F>::new();
    for (l, (_, z)) in qs.iter() {
        let ts = &specs.iter().find(|(n, _)| n == l).unwrap().1;
        evals.insert((l.clone(), z.clone()), value_of(ts, z));
    }
    let lcs = build(&specs);
    let (polys, comms, states) = c.refs();
    let mut sponge = sponge_pre::<S::F>(0);
    let mut rng = seed_rng(rec.seed, 20);
    let lcp = match do_open_comb::<S>(&keys.ck, &lcs, &polys, &comms, &qs, &mut sponge, &states, Some(&mut rng as &mut dyn RngCore)) {
        Ok(p) => p,
        Err(o) => {
            rec.violation(&format!("C10/{}/open_combinations/in-domain", S::NAME), &id0, format!("open_combinations failed: {}", o.short()));
            return;
        }
    };
    let list: Vec<Pf<S>> = lcp.proof.clone().into();
    let mut groups: BTreeMap<String, (S::Pt, BTreeSet<String>)> = BTreeMap::new();
    for (l, (pl, z)) in qs.iter() {
        groups.entry(pl.clone()).or_insert_with(|| (z.clone(), BTreeSet::new())).1.insert(l.clone());
    }
    // the reference: combined commitments by naive arithmetic, then the single-point relation per group
    let reference = |specs: &Vec<(&str, Vec<(S::F, Option<usize>)>)>, ev: &Evaluations<S::Pt, S::F>, proofs: &[Pf<S>]| -> bool {
        if proofs.len() != groups.len() {
            return false;
        }
        let mut combined: BTreeMap<String, (LCm<S>, S::F)> = BTreeMap::new();
        for (l, ts) in specs.iter() {
            let poly_terms: Vec<(S::F, usize)> = ts.iter().filter_map(|(cf, t)| t.map(|j| (*cf, j))).collect();
            let konst: S::F = ts.iter().filter(|(_, t)| t.is_none()).map(|(cf, _)| *cf).sum();
            let first = c.comms[poly_terms[0].1].commitment();
            let single_bounded = poly_terms.len() == 1 && poly_terms[0].0.is_one() && c.comms[poly_terms[0].1].degree_bound().is_some();
            let (cm, bound) = if single_bounded {
                (first.clone(), c.comms[poly_terms[0].1].degree_bound())
            } else {
                let mut acc = S::comb(S::F::zero(), first, S::F::zero(), first);
                for (cf, j) in poly_terms.iter() {
                    acc = S::comb(S::F::one(), &acc, *cf, c.comms[*j].commitment());
                }
                (acc, None)
            };
            combined.insert(l.to_string(), (LabeledCommitment::new(l.to_string(), cm, bound), konst));
        }
        let mut sp = sponge_pre::<S::F>(0);
        let mut all = true;
        for ((_, (z, ls)), pf) in groups.iter().zip(proofs.iter()) {
            let cs: Vec<&LCm<S>> = ls.iter().map(|l| &combined[l].0).collect();
            let vs: Vec<S::F> = ls.iter().map(|l| ev[&(l.clone(), z.clone())] - combined[l].1).collect();
            all &= catch(|| S::ref_check(&keys.vk, &cs, z, &vs, pf, &mut sp)).unwrap_or(false);
        }
        all
    };
    let mut go = |rec: &mut Rec, op: &str, specs: &Vec<(&str, Vec<(S::F, Option<usize>)>)>, ev: &Evaluations<S::Pt, S::F>, proofs: &[Pf<S>]| {
        let want = reference(specs, ev, proofs);
        let bp: BPf<S> = proofs.to_vec().into();
        let pf = BatchLCProof::<S::F, BPf<S>> { proof: bp, evals: lcp.evals.clone() };
        let mut sponge = sponge_pre::<S::F>(0);
        let mut rng = seed_rng(rec.seed, 40);
        let got = do_check_comb::<S>(&keys.vk, &build(specs), &comms, &qs, ev, &pf, &mut sponge, &mut rng);
        rec.count_points(1);
        rec.op(2);
        let opc: String = op.chars().filter(|c| !c.is_ascii_digit()).collect();
        rec.class(if want { "relation-holds" } else { "relation-fails" });
        rec.class(&format!("lib-comb-{}", got.class()));
        rec.obs(&format!("{}|comb|{}|{}|{}", S::NAME, opc, want, got.class()));
        if got.accepted() != want {
            let dir = if got.accepted() { "lib-accepts" } else { "lib-rejects" };
            rec.violation(&format!("C10/{}/check_combinations/{}/{}", S::NAME, opc, dir), &id0, format!("{}: library -> {}, reference relation on the combined commitments -> {}", op, got.short(), want));
        }
    };
    go(rec, "honest", &specs, &evals, &list);
    let keys_e: Vec<_> = evals.keys().cloned().collect();
    for (i, k) in keys_e.iter().enumerate() {
        for (n, f) in f_alpha(&evals[k], None, rec.seed) {
            let mut ev = evals.clone();
            ev.insert(k.clone(), f);
            go(rec, &format!("value[{}:{}]:={}", i, k.0, n), &specs, &ev, &list);
        }
    }
    for li in 0..specs.len() {
        for ti in 0..specs[li].1.len() {
            for (n, f) in f_alpha(&specs[li].1[ti].0, None, rec.seed) {
                let mut sp2 = specs.clone();
                sp2[li].1[ti].0 = f;
                // a changed coefficient 1 on a lone bounded polynomial turns it into a scaled bounded term, which the
                // schemes refuse; the reference mirrors that by dropping the bound (the relation then fails)
                go(rec, &format!("{}.term[{}]:={}", specs[li].0, ti, n), &sp2, &evals, &list);
            }
        }
    }
    for i in 0..list.len() {
        let other = &list[(i + 1) % list.len()];
        for (n, m) in S::proof_mutations(&list[i], other, rec.seed) {
            if n.starts_with("shape:") {
                continue;
            }
            let mut l2 = list.clone();
            l2[i] = m;
            go(rec, &format!("proof[{}].{}", i, n), &specs, &evals, &l2);
        }
    }
    rec.sample(&format!("{}-c10-comb", S::NAME), format!("{}: 3 combinations, 5 queries over 3 point labels", id0));
}

pub fn run(rec: &mut Rec) {
    let w = if rec.thorough() { Width::Medium } else { Width::Narrow };
    scheme::<SMar>(rec, w);
    scheme::<SSon>(rec, w);
    scheme::<SIpa>(rec, w);
    scheme::<SPst>(rec, w);
    scheme::<SHyr>(rec, w);
    scheme::<SLig>(rec, w);
    scheme::<SMll>(rec, w);
    scheme::<SBrk>(rec, w);
    let bs = if rec.thorough() { 3 } else { 2 };
    batch_scheme::<SMar>(rec, bs);
    batch_scheme::<SSon>(rec, bs);
    batch_scheme::<SIpa>(rec, bs);
    batch_scheme::<SPst>(rec, bs);
    comb_scheme::<SMar>(rec);
    comb_scheme::<SSon>(rec);
    comb_scheme::<SIpa>(rec);
    comb_scheme::<SPst>(rec);
    crate::special::c10_special(rec);
}
