//! C09 — setup and trim produce well-formed, mutually consistent keys.
use crate::alpha::*;
use crate::rec::Rec;
use crate::refm::*;
use crate::sch::*;
use crate::schemes::*;
use crate::scope::*;
use crate::special::*;
use crate::tr::*;
use crate::util::*;
use ark_ec::pairing::Pairing;
use ark_ec::{AffineRepr, CurveGroup};
use ark_ff::{Field, One, PrimeField, Zero};
use ark_poly::{DenseUVPolynomial, Polynomial};
use ark_poly_commit::streaming_kzg as skzg;
use ark_poly_commit::{kzg10, marlin_pc, sonic_pc, PCCommitterKey, PCPreparedCommitment, PCPreparedVerifierKey, PCUniversalParams, PCVerifierKey, PolynomialCommitment};
use ark_std::rand::RngCore;
use blake2::Blake2s256;
use digest::Digest;

type G1 = <E381 as Pairing>::G1Affine;
type G2 = <E381 as Pairing>::G2Affine;

fn viol(rec: &mut Rec, sch: &str, what: &str, id: &str, detail: String) {
    rec.violation(&format!("C09/{}/{}", sch, what), id, detail);
}

fn pair_eq(a: G1, b: G2, c: G1, d: G2) -> bool {
    E381::pairing(a, b) == E381::pairing(c, d)
}

/// KZG-family SRS: every published power is the stated power of one trapdoor.
pub fn srs(rec: &mut Rec, dmax: usize) {
    for d in 1..=dmax {
        for g2 in [false, true] {
            let id = format!("KZG/srs/D={}/g2powers={}", d, g2);
            if !rec.take(&id) {
                continue;
            }
            rec.dim("scheme", if g2 { "SON" } else { "MAR" });
            let pp = kzg_setup(d, g2, rec.seed, 0);
            let mut ok = true;
            let mut bad = String::new();
            if pp.powers_of_g.len() != d + 1 {
                ok = false;
                bad = format!("{} powers of g for max_degree {}", pp.powers_of_g.len(), d);
            }
            if pp.powers_of_gamma_g.len() != d + 2 || (0..d + 2).any(|i| !pp.powers_of_gamma_g.contains_key(&i)) {
                ok = false;
                bad = format!("gamma powers {:?} for max_degree {}", pp.powers_of_gamma_g.keys().collect::<Vec<_>>(), d);
            }
            if ok {
                for i in 0..d {
                    rec.op(2);
                    if !pair_eq(pp.powers_of_g[i + 1], pp.h, pp.powers_of_g[i], pp.beta_h) {
                        ok = false;
                        bad = format!("powers_of_g[{}] is not beta * powers_of_g[{}]", i + 1, i);
                    }
                }
                for i in 0..d + 1 {
                    rec.op(2);
                    if !pair_eq(pp.powers_of_gamma_g[&(i + 1)], pp.h, pp.powers_of_gamma_g[&i], pp.beta_h) {
                        ok = false;
                        bad = format!("powers_of_gamma_g[{}] is not beta * powers_of_gamma_g[{}]", i + 1, i);
                    }
                }
                if pp.powers_of_g[0].is_zero() || pp.powers_of_gamma_g[&0].is_zero() || pp.h.is_zero() || pp.powers_of_g[0] == pp.powers_of_gamma_g[&0] {
                    ok = false;
                    bad = "degenerate generators".into();
                }
                if g2 {
                    if pp.neg_powers_of_h.len() != d + 1 {
                        ok = false;
                        bad = format!("{} negative powers of h for max_degree {}", pp.neg_powers_of_h.len(), d);
                    } else {
                        for i in 0..=d {
                            rec.op(2);
                            if !pair_eq(pp.powers_of_g[i], pp.neg_powers_of_h[&i], pp.powers_of_g[0], pp.h) {
                                ok = false;
                                bad = format!("neg_powers_of_h[{}] is not beta^-{} * h", i, i);
                            }
                        }
                    }
                } else if !pp.neg_powers_of_h.is_empty() {
                    ok = false;
                    bad = "negative powers of h published although not requested".into();
                }
                let ph: <E381 as Pairing>::G2Prepared = pp.h.into();
                let pbh: <E381 as Pairing>::G2Prepared = pp.beta_h.into();
                if pp.prepared_h != ph || pp.prepared_beta_h != pbh {
                    ok = false;
                    bad = "prepared_h / prepared_beta_h are not the prepared forms of h / beta_h".into();
                }
                if pp.max_degree() != d {
                    ok = false;
                    bad = format!("max_degree() = {} for setup({})", pp.max_degree(), d);
                }
            }
            // another route to the same object: a larger setup with the same seed agrees on the prefix
            let pp2 = kzg_setup(d + 3, g2, rec.seed, 0);
            if pp2.powers_of_g[..=d] != pp.powers_of_g[..] || (0..d + 2).any(|i| pp2.powers_of_gamma_g[&i] != pp.powers_of_gamma_g[&i]) || pp2.h != pp.h || pp2.beta_h != pp.beta_h {
                ok = false;
                bad = "setup(D) and setup(D+3) with the same seed disagree on the common prefix".into();
            }
            // and another seed gives other parameters
            let pp3 = kzg_setup(d, g2, rec.seed, 1);
            if pp3.powers_of_g[0] == pp.powers_of_g[0] || pp3.beta_h == pp.beta_h {
                ok = false;
                bad = "setup does not depend on the RNG seed".into();
            }
            rec.class(if ok { "srs-consistent" } else { "srs-inconsistent" });
            rec.obs(&format!("srs|{}|{}", g2, ok));
            if !ok {
                viol(rec, "KZG", "setup/srs", &id, bad);
            }
            rec.sample("srs", id.clone());
        }
    }
}

/// Independent derivation of the transparent generators: digest(NAME || i [|| j]) -> point -> cofactor clearing.
pub fn derive_generators(name: &[u8], n: usize) -> Vec<GJ> {
    let mut out = Vec::new();
    for i in 0..n as u64 {
        let mut bytes = name.to_vec();
        bytes.extend_from_slice(&i.to_le_bytes());
        let mut g = GJ::from_random_bytes(&Blake2s256::digest(&bytes));
        let mut j = 0u64;
        while g.is_none() {
            let mut b = name.to_vec();
            b.extend_from_slice(&i.to_le_bytes());
            b.extend_from_slice(&j.to_le_bytes());
            g = GJ::from_random_bytes(&Blake2s256::digest(&b));
            j += 1;
        }
        out.push(g.unwrap().mul_by_cofactor_to_group().into_affine());
    }
    out
}

fn generators_ok(gs: &[GJ]) -> Result<(), String> {
    for (i, g) in gs.iter().enumerate() {
        if g.is_zero() {
            return Err(format!("generator {} is the identity", i));
        }
        if !g.is_on_curve() || !g.is_in_correct_subgroup_assuming_on_curve() {
            return Err(format!("generator {} is not a valid prime-order point", i));
        }
        for (j, h) in gs.iter().enumerate().skip(i + 1) {
            if g == h {
                return Err(format!("generators {} and {} coincide", i, j));
            }
        }
    }
    Ok(())
}

pub fn transparent(rec: &mut Rec, dmax: usize) {
    for d in 0..=dmax {
        let id = format!("IPA/setup/D={}", d);
        if !rec.take(&id) {
            continue;
        }
        rec.dim("scheme", "IPA");
        rec.op(2);
        let cfg = KeyCfg::uni(d, d, 1, None);
        let r = (SIpa::setup(&cfg, rec.seed), {
            let mut c2 = cfg.clone();
            c2.srng = 1;
            SIpa::setup(&c2, rec.seed)
        });
        let (pp, pp2) = match r {
            (Ok(a), Ok(b)) => (a, b),
            (Err(o), _) | (_, Err(o)) => {
                if d >= 1 {
                    viol(rec, "IPA", "setup/in-domain", &id, format!("setup failed: {}", o.short()));
                }
                continue;
            }
        };
        let n = (d + 1).next_power_of_two();
        let want = derive_generators(b"PC-DL-2020", n + 2);
        let mut all = pp.comm_key.clone();
        all.push(pp.s);
        all.push(pp.h);
        let mut ok = true;
        let mut bad = String::new();
        if pp.comm_key.len() != n {
            ok = false;
            bad = format!("{} commitment generators for max_degree {}", pp.comm_key.len(), d);
        } else if all != want {
            ok = false;
            bad = "generators differ from the derivation digest(PROTOCOL_NAME || i [|| j]) -> cofactor clearing".into();
        }
        if let Err(e) = generators_ok(&all) {
            ok = false;
            bad = e;
        }
        if ser(&pp) != ser(&pp2) {
            ok = false;
            bad = "transparent setup depends on the RNG".into();
        }
        if pp.max_degree() != n - 1 {
            ok = false;
            bad = format!("max_degree() = {} but {} generators", pp.max_degree(), n);
        }
        // trim: prefix-stable, truthful degrees, refuses beyond the parameters
        for s in 0..=(n + 1) {
            rec.count_points(1);
            let t = flat(catch(|| Ipa::trim(&pp, s, 0, None)));
            let sn = (s + 1).next_power_of_two() - 1;
            match t {
                Ok((ck, vk)) => {
                    if sn > n - 1 {
                        ok = false;
                        bad = format!("trim({}) succeeded beyond max_degree {}", s, n - 1);
                    } else if ck.comm_key[..] != pp.comm_key[..=sn] || vk.comm_key != ck.comm_key || ck.h != pp.h || ck.s != pp.s || vk.h != pp.h || vk.s != pp.s || PCCommitterKey::supported_degree(&ck) != sn || PCCommitterKey::max_degree(&ck) != n - 1 || PCVerifierKey::supported_degree(&vk) != sn || PCVerifierKey::max_degree(&vk) != n - 1 {
                        ok = false;
                        bad = format!("trim({}) is not the prefix sub-key with truthful degree reports", s);
                    }
                }
                Err(_) => {
                    if sn <= n - 1 {
                        ok = false;
                        bad = format!("trim({}) refused within max_degree {}", s, n - 1);
                    }
                }
            }
        }
        rec.class(if ok { "generators-ok" } else { "generators-bad" });
        rec.obs(&format!("IPA|{}|{}", n, ok));
        if !ok {
            viol(rec, "IPA", "setup/generators", &id, bad);
        }
        rec.sample("IPA-setup", id.clone());
    }
    for nv in [0usize, 2, 4, 6, 8] {
        let id = format!("HYR/setup/nv={}", nv);
        if !rec.take(&id) {
            continue;
        }
        rec.dim("scheme", "HYR");
        rec.op(2);
        let cfg = KeyCfg::ml(nv);
        let mut c2 = cfg.clone();
        c2.srng = 1;
        match (SHyr::setup(&cfg, rec.seed), SHyr::setup(&c2, rec.seed)) {
            (Ok(pp), Ok(pp2)) => {
                let dim = 1usize << (nv / 2);
                let want = derive_generators(b"Hyrax protocol", dim + 1);
                let mut all = pp.com_key.clone();
                all.push(pp.h);
                let mut ok = all == want && pp.com_key.len() == dim && ser(&pp) == ser(&pp2);
                let mut bad = "generators differ from the derivation from the protocol seed, or depend on the RNG".to_string();
                if let Err(e) = generators_ok(&all) {
                    ok = false;
                    bad = e;
                }
                if let Ok((ck, vk)) = flat(catch(|| Hyr::trim(&pp, 1, 1, None))) {
                    if ser(&ck) != ser(&pp) || ser(&vk) != ser(&pp) {
                        ok = false;
                        bad = "trim does not return the parameters".into();
                    }
                } else {
                    ok = false;
                    bad = "trim failed".into();
                }
                rec.class(if ok { "generators-ok" } else { "generators-bad" });
                if !ok {
                    viol(rec, "HYR", "setup/generators", &id, bad);
                }
            }
            (Err(o), _) | (_, Err(o)) => viol(rec, "HYR", "setup/in-domain", &id, format!("setup failed: {}", o.short())),
        }
    }
    // odd numbers of variables and None are refused
    for nv in [Some(1usize), Some(3), None] {
        let id = format!("HYR/setup/nv={:?}", nv);
        if !rec.take(&id) {
            continue;
        }
        let mut rng = seed_rng(rec.seed, 10);
        let r = flat(catch(|| Hyr::setup(1, nv, &mut rng)));
        rec.class(if r.is_err() { "refused" } else { "wrongly-served" });
        if r.is_ok() {
            viol(rec, "HYR", "setup/odd-or-missing-num-vars", &id, "setup succeeded".into());
        }
    }
}

fn trim_bound_lists(top: usize) -> Vec<Option<Vec<usize>>> {
    let mut v = bound_lists(0, top, true);
    if top >= 2 {
        v.push(Some(vec![top, 0, top - 1]));
        v.push(Some(vec![1, top, 1]));
    }
    v
}

fn norm(b: &Option<Vec<usize>>) -> Option<Vec<usize>> {
    b.as_ref().map(|x| {
        let mut y = x.clone();
        y.sort();
        y.dedup();
        y
    })
}

/// Marlin trim fidelity on the full grid.
pub fn trim_mar(rec: &mut Rec, dmax: usize) {
    for d in 1..=dmax {
        let pp = kzg_setup(d, false, rec.seed, 0);
        for s in 1..=(d + 1) {
            for hid in 0..=(d + 2) {
                for b in trim_bound_lists(d + 1) {
                    let id = format!("MAR/trim/D={}/s={}/hs={}/B={:?}", d, s, hid, b).replace(' ', "");
                    if !rec.take(&id) {
                        continue;
                    }
                    rec.dim("scheme", "MAR");
                    rec.op(1);
                    let nb = norm(&b);
                    let in_range = s <= d && hid <= d && nb.as_ref().map(|x| x.iter().all(|v| *v <= d)).unwrap_or(true);
                    let r = flat(catch(|| Mar::trim(&pp, s, hid, b.as_deref())));
                    rec.obs(&format!("MAR|trim|{}|{}", in_range, r.is_ok()));
                    match r {
                        Err(_) => {
                            rec.class("trim-refused");
                            if in_range {
                                viol(rec, "MAR", "trim/refuses-in-range", &id, "trim refused a request within the parameters".into());
                            }
                        }
                        Ok((ck, vk)) => {
                            rec.class("trim-served");
                            if !in_range {
                                viol(rec, "MAR", "trim/serves-out-of-range", &id, "trim answered a request beyond the parameters".into());
                                continue;
                            }
                            let mut bad: Option<String> = None;
                            if ck.powers != pp.powers_of_g[..=s] {
                                bad = Some("ck.powers is not powers_of_g[0..=supported]".into());
                            }
                            if ck.powers_of_gamma_g != (0..=hid + 1).map(|i| pp.powers_of_gamma_g[&i]).collect::<Vec<_>>() {
                                bad = Some("ck.powers_of_gamma_g is not the first hiding+2 gamma powers".into());
                            }
                            if ck.supported_degree() != s || ck.max_degree() != d || vk.supported_degree() != s || vk.max_degree() != d {
                                bad = Some("supported/max degree reports are not truthful".into());
                            }
                            if vk.vk.g != pp.powers_of_g[0] || vk.vk.gamma_g != pp.powers_of_gamma_g[&0] || vk.vk.h != pp.h || vk.vk.beta_h != pp.beta_h || vk.vk.prepared_h != pp.prepared_h || vk.vk.prepared_beta_h != pp.prepared_beta_h {
                                bad = Some("verifier key generators differ from the parameters".into());
                            }
                            match nb.as_ref().filter(|x| !x.is_empty()) {
                                None => {
                                    if ck.shifted_powers.is_some() || vk.degree_bounds_and_shift_powers.is_some() {
                                        bad = Some("shift elements published without enforced bounds".into());
                                    }
                                }
                                Some(bs) => {
                                    let top = *bs.last().unwrap();
                                    if ck.shifted_powers.as_deref() != Some(&pp.powers_of_g[d - top..]) {
                                        bad = Some("ck.shifted_powers is not powers_of_g[D - max bound ..]".into());
                                    }
                                    if ck.enforced_degree_bounds.as_ref() != Some(bs) {
                                        bad = Some("ck.enforced_degree_bounds is not the sorted distinct request".into());
                                    }
                                    let want: Vec<(usize, G1)> = bs.iter().map(|x| (*x, pp.powers_of_g[d - *x])).collect();
                                    if vk.degree_bounds_and_shift_powers.as_ref() != Some(&want) {
                                        bad = Some("vk shift elements are not (bound, powers_of_g[D - bound]) per distinct bound, sorted".into());
                                    }
                                    for x in bs {
                                        if vk.get_shift_power(*x) != Some(pp.powers_of_g[d - *x]) {
                                            bad = Some(format!("get_shift_power({}) wrong", x));
                                        }
                                    }
                                }
                            }
                            rec.class(if bad.is_none() { "trim-faithful" } else { "trim-unfaithful" });
                            if let Some(e) = bad {
                                viol(rec, "MAR", "trim/unfaithful", &id, e);
                                continue;
                            }
                            // truthful: degree == supported commits, supported + 1 errs
                            let r = rho_stream::<Fr381>(rec.seed, 1, s + 2);
                            let p_ok = lp::<SMar>("p", UP::<Fr381>::from_coefficients_slice(&r[..=s]), None, None);
                            let p_big = lp::<SMar>("p", UP::<Fr381>::from_coefficients_slice(&r[..=s + 1]), None, None);
                            if do_commit::<SMar>(&ck, &[p_ok], None).is_err() {
                                viol(rec, "MAR", "trim/supported-degree-not-served", &id, "a polynomial of degree supported_degree() does not commit".into());
                            }
                            if do_commit::<SMar>(&ck, &[p_big], None).is_ok() {
                                viol(rec, "MAR", "trim/beyond-supported-degree-served", &id, "a polynomial of degree supported_degree()+1 commits".into());
                            }
                            rec.op(2);
                        }
                    }
                }
            }
        }
    }
}

/// Sonic trim fidelity on the full grid.
pub fn trim_son(rec: &mut Rec, dmax: usize) {
    for d in 1..=dmax {
        let pp = kzg_setup(d, true, rec.seed, 0);
        for s in 1..=(d + 1) {
            for hid in 0..=(d + 2) {
                for b in trim_bound_lists(d + 1) {
                    let id = format!("SON/trim/D={}/s={}/hs={}/B={:?}", d, s, hid, b).replace(' ', "");
                    if !rec.take(&id) {
                        continue;
                    }
                    rec.dim("scheme", "SON");
                    rec.op(1);
                    let nb = norm(&b);
                    let in_range = s <= d && hid <= d && nb.as_ref().map(|x| x.iter().all(|v| *v <= s)).unwrap_or(true);
                    let r = flat(catch(|| Son::trim(&pp, s, hid, b.as_deref())));
                    rec.obs(&format!("SON|trim|{}|{}", in_range, r.is_ok()));
                    match r {
                        Err(_) => {
                            rec.class("trim-refused");
                            if in_range {
                                viol(rec, "SON", "trim/refuses-in-range", &id, "trim refused a request within the parameters".into());
                            }
                        }
                        Ok((ck, vk)) => {
                            rec.class("trim-served");
                            if !in_range {
                                viol(rec, "SON", "trim/serves-out-of-range", &id, "trim answered a request beyond the parameters".into());
                                continue;
                            }
                            let mut bad: Option<String> = None;
                            if ck.powers_of_g != pp.powers_of_g[..=s] {
                                bad = Some("ck.powers_of_g is not powers_of_g[0..=supported]".into());
                            }
                            if ck.powers_of_gamma_g != (0..=hid + 1).map(|i| pp.powers_of_gamma_g[&i]).collect::<Vec<_>>() {
                                bad = Some("ck.powers_of_gamma_g is not the first hiding+2 gamma powers".into());
                            }
                            if ck.supported_degree() != s || ck.max_degree() != d || vk.supported_degree() != s || vk.max_degree() != d {
                                bad = Some("supported/max degree reports are not truthful".into());
                            }
                            if vk.g != pp.powers_of_g[0] || vk.gamma_g != pp.powers_of_gamma_g[&0] || vk.h != pp.h || vk.beta_h != pp.beta_h || vk.prepared_h != pp.prepared_h || vk.prepared_beta_h != pp.prepared_beta_h {
                                bad = Some("verifier key generators differ from the parameters".into());
                            }
                            match nb.as_ref().filter(|x| !x.is_empty()) {
                                None => {
                                    if ck.shifted_powers_of_g.is_some() || ck.shifted_powers_of_gamma_g.is_some() || vk.degree_bounds_and_neg_powers_of_h.is_some() {
                                        bad = Some("shift elements published without enforced bounds".into());
                                    }
                                }
                                Some(bs) => {
                                    let top = *bs.last().unwrap();
                                    if ck.shifted_powers_of_g.as_deref() != Some(&pp.powers_of_g[d - top..]) {
                                        bad = Some("ck.shifted_powers_of_g is not powers_of_g[D - max bound ..]".into());
                                    }
                                    if ck.enforced_degree_bounds.as_ref() != Some(bs) {
                                        bad = Some("ck.enforced_degree_bounds is not the sorted distinct request".into());
                                    }
                                    let want: Vec<(usize, G2)> = bs.iter().map(|x| (*x, pp.neg_powers_of_h[&(d - *x)])).collect();
                                    if vk.degree_bounds_and_neg_powers_of_h.as_ref() != Some(&want) {
                                        bad = Some("vk shift elements are not (bound, beta^-(D-bound) h) per distinct bound, sorted".into());
                                    }
                                    match &ck.shifted_powers_of_gamma_g {
                                        None => bad = Some("shifted gamma powers missing".into()),
                                        Some(m) => {
                                            if m.keys().cloned().collect::<Vec<_>>() != *bs {
                                                bad = Some("shifted gamma powers are not keyed by the distinct bounds".into());
                                            }
                                            for x in bs {
                                                let want: Vec<G1> = (0..=hid + 1).filter(|i| d - *x + i < d + 2).map(|i| pp.powers_of_gamma_g[&(d - *x + i)]).collect();
                                                if m.get(x) != Some(&want) {
                                                    bad = Some(format!("shifted gamma powers for bound {} are not gamma[D-bound ..]", x));
                                                }
                                            }
                                        }
                                    }
                                }
                            }
                            rec.class(if bad.is_none() { "trim-faithful" } else { "trim-unfaithful" });
                            if let Some(e) = bad {
                                viol(rec, "SON", "trim/unfaithful", &id, e);
                                continue;
                            }
                            let r = rho_stream::<Fr381>(rec.seed, 1, s + 2);
                            let p_ok = lp::<SSon>("p", UP::<Fr381>::from_coefficients_slice(&r[..=s]), None, None);
                            let p_big = lp::<SSon>("p", UP::<Fr381>::from_coefficients_slice(&r[..=s + 1]), None, None);
                            if do_commit::<SSon>(&ck, &[p_ok], None).is_err() {
                                viol(rec, "SON", "trim/supported-degree-not-served", &id, "a polynomial of degree supported_degree() does not commit".into());
                            }
                            if do_commit::<SSon>(&ck, &[p_big], None).is_ok() {
                                viol(rec, "SON", "trim/beyond-supported-degree-served", &id, "a polynomial of degree supported_degree()+1 commits".into());
                            }
                            rec.op(2);
                        }
                    }
                }
            }
        }
    }
}

/// Keys from different trims of the same parameters interoperate.
pub fn interop<S: Sch>(rec: &mut Rec) {
    let base = if S::NAME == "IPA" { KeyCfg::uni(7, 7, 1, None) } else { KeyCfg::uni(6, 5, 2, Some(vec![3, 4])) };
    let others: Vec<KeyCfg> = if S::NAME == "IPA" {
        vec![KeyCfg::uni(7, 3, 1, None), KeyCfg::uni(7, 7, 1, None)]
    } else {
        vec![KeyCfg::uni(6, 4, 1, Some(vec![4, 3, 2])), KeyCfg::uni(6, 6, 3, Some(vec![3])), KeyCfg::uni(6, 5, 2, None)]
    };
    let pp = match S::setup(&base, rec.seed) {
        Ok(p) => p,
        Err(_) => return,
    };
    let (ck1, _vk1) = match S::trim(&pp, &base) {
        Ok(k) => k,
        Err(_) => return,
    };
    let shapes = S::shapes(&KeyCfg::uni(base.max, 3, 1, None), rec.seed);
    for o in others {
        let (_ck2, vk2) = match S::trim(&pp, &o) {
            Ok(k) => k,
            Err(_) => continue,
        };
        for (sname, p) in shapes.iter() {
            for (b, h) in [(None, None), (Some(3usize), None), (Some(3), Some(1usize)), (None, Some(1))] {
                if S::degree(p) > 3 {
                    continue;
                }
                // IPA keys of different size use different shifts and round counts: only equal sizes interoperate
                if S::NAME == "IPA" && o.sup != base.sup {
                    continue;
                }
                if b.is_some() && S::NAME != "IPA" && !o.bounds.as_ref().map(|x| x.contains(&3)).unwrap_or(false) {
                    continue;
                }
                let id = format!("{}/interop/ck={}/vk={}/{}/b={:?}/h={:?}", S::NAME, base.id(), o.id(), sname, b, h);
                if !rec.take(&id) {
                    continue;
                }
                rec.dim("scheme", S::NAME);
                rec.op(3);
                let keys = Keys::<S> { cfg: base.clone(), pp: pp.clone(), ck: ck1.clone(), vk: vk2.clone() };
                let c = match commit_set::<S>(&keys, vec![lp::<S>("p", p.clone(), b, h)], rec.seed, 0) {
                    Ok(c) => c,
                    Err(_) => continue,
                };
                let z = S::points(&base, rec.seed)[0].1.clone();
                if let Ok(s) = open_single::<S>(&keys, &c, &[0], &z, 0, rec.seed, 0) {
                    let comms: Vec<&LCm<S>> = c.comms.iter().collect();
                    let d = check_single::<S>(&keys, &comms, &s.point, &s.values, &s.proof, 0, rec.seed, 0);
                    rec.class(if d.accepted() { "interop-accept" } else { "interop-reject" });
                    rec.obs(&format!("{}|interop|{}", S::NAME, d.class()));
                    if !d.accepted() {
                        viol(rec, S::NAME, "trim/keys-do-not-interoperate", &id, format!("proof made with one trim's committer key not accepted under another trim's verifier key: {}", d.short()));
                    }
                }
            }
        }
    }
}

/// Prepared keys and commitments are tables of successive doublings.
pub fn prepared(rec: &mut Rec) {
    for cfg in [KeyCfg::uni(5, 4, 1, Some(vec![2, 4])), KeyCfg::uni(5, 4, 1, None), KeyCfg::uni(3, 3, 1, Some(vec![0, 3])), KeyCfg::uni(6, 2, 1, Some(vec![2])), KeyCfg::uni(4, 3, 2, Some(vec![]))] {
        prepared_for(rec, cfg);
    }
}

fn prepared_for(rec: &mut Rec, cfg: KeyCfg) {
    let id = format!("KZG/prepared/{}", cfg.id());
    if !rec.take(&id) {
        return;
    }
    rec.dim("scheme", "MAR");
    let keys = match build_keys::<SMar>(&cfg, rec.seed) {
        Ok(k) => k,
        Err(_) => return,
    };
    let bits = <Fr381 as PrimeField>::MODULUS_BIT_SIZE as usize;
    let doubling = |t: &[G1], start: G1, len: usize| -> bool {
        if t.len() != len || t.is_empty() || t[0] != start {
            return false;
        }
        (1..t.len()).all(|i| t[i] == (t[i - 1].into_group() + t[i - 1].into_group()).into_affine())
    };
    let pvk = kzg10::PreparedVerifierKey::<E381>::prepare(&keys.vk.vk);
    let mut ok = doubling(&pvk.prepared_g, keys.vk.vk.g, bits) && pvk.prepared_h == keys.vk.vk.prepared_h && pvk.prepared_beta_h == keys.vk.vk.prepared_beta_h;
    let mpvk = <marlin_pc::PreparedVerifierKey<E381> as PCPreparedVerifierKey<_>>::prepare(&keys.vk);
    ok &= doubling(&mpvk.prepared_vk.prepared_g, keys.vk.vk.g, bits) && mpvk.max_degree == keys.vk.max_degree && mpvk.supported_degree == keys.vk.supported_degree;
    match (&mpvk.prepared_degree_bounds_and_shift_powers, &keys.vk.degree_bounds_and_shift_powers) {
        (Some(a), Some(b)) => {
            ok &= a.len() == b.len();
            for ((d1, t), (d2, g)) in a.iter().zip(b.iter()) {
                ok &= d1 == d2 && doubling(t, *g, bits);
            }
        }
        (None, None) => {}
        _ => ok = false,
    }
    let r = rho_stream::<Fr381>(rec.seed, 1, 4);
    let b = cfg.bounds.as_ref().and_then(|b| b.iter().copied().filter(|d| *d >= 2).min());
    let p = lp::<SMar>("p", UP::<Fr381>::from_coefficients_slice(&r[..3]), b, None);
    if let Ok((c, _)) = do_commit::<SMar>(&keys.ck, &[p], None) {
        let cm = c[0].commitment();
        let pc = kzg10::PreparedCommitment::<E381>::prepare(&cm.comm);
        ok &= doubling(&pc.0, cm.comm.0, bits);
        let spc = <sonic_pc::PreparedCommitment<E381> as PCPreparedCommitment<sonic_pc::Commitment<E381>>>::prepare(&cm.comm);
        ok &= doubling(&spc.0, cm.comm.0, 128);
    }
    rec.op(6);
    rec.class(if ok { "prepared-ok" } else { "prepared-bad" });
    if !ok {
        viol(rec, "KZG", "prepare/tables", &id, "a prepared key or commitment is not the table of successive doublings of its source element".into());
    }
}

/// PST13 parameters and trimmed keys: table sizes, the chain of every variable's hiding powers, and
/// trim for every supported degree (the monomial key set itself is C15's subject).
pub fn pst_srs(rec: &mut Rec, nvmax: usize, dmax: usize) {
    for nv in 1..=nvmax {
        for d in 1..=dmax {
            let id = format!("PST/setup/nv={}/D={}", nv, d);
            if !rec.take(&id) {
                continue;
            }
            rec.dim("scheme", "PST");
            let cfg = KeyCfg::mv(nv, d, d);
            let pp = match SPst::setup(&cfg, rec.seed) {
                Ok(pp) => pp,
                Err(o) => {
                    viol(rec, "PST", "setup/in-range-refused", &id, format!("setup({}, {}) failed: {}", d, nv, o.short()));
                    continue;
                }
            };
            let mut bad = String::new();
            if pp.num_vars != nv || pp.max_degree != d || pp.beta_h.len() != nv || pp.powers_of_gamma_g.len() != nv {
                bad = format!("num_vars {}, max_degree {}, {} beta_h, {} gamma tables for setup({}, {})", pp.num_vars, pp.max_degree, pp.beta_h.len(), pp.powers_of_gamma_g.len(), d, nv);
            } else {
                for i in 0..nv {
                    let t = &pp.powers_of_gamma_g[i];
                    if t.len() != d + 1 {
                        bad = format!("variable {}: {} hiding powers instead of max_degree + 1 = {}", i, t.len(), d + 1);
                        break;
                    }
                    rec.count_points(t.len() as u64);
                    if !pair_eq(t[0], pp.h, pp.gamma_g, pp.beta_h[i]) || (0..d).any(|j| !pair_eq(t[j + 1], pp.h, t[j], pp.beta_h[i])) {
                        bad = format!("variable {}: the hiding powers are not gamma*beta_{}^k G", i, i);
                        break;
                    }
                }
            }
            rec.class(if bad.is_empty() { "srs-consistent" } else { "srs-inconsistent" });
            if !bad.is_empty() {
                viol(rec, "PST", "setup/srs", &id, bad);
                continue;
            }
            for s in 1..=d {
                let mut c2 = cfg.clone();
                c2.sup = s;
                c2.hid = s;
                rec.count_points(1);
                match SPst::trim(&pp, &c2) {
                    Err(o) => {
                        rec.class("trim-refused");
                        viol(rec, "PST", "trim/refuses-in-range", &id, format!("trim({}) refused within max_degree {}: {}", s, d, o.short()));
                    }
                    Ok((ck, vk)) => {
                        rec.class("trim-served");
                        let ok = ck.supported_degree == s && ck.max_degree == d && ck.num_vars == nv && ck.powers_of_gamma_g.len() == nv && (0..nv).all(|i| ck.powers_of_gamma_g[i][..] == pp.powers_of_gamma_g[i][..=s]) && vk.beta_h == pp.beta_h && vk.h == pp.h && vk.g == pp.powers_of_g[&<ark_poly::multivariate::SparseTerm as ark_poly::multivariate::Term>::new(vec![])] && vk.gamma_g == pp.gamma_g;
                        if !ok {
                            viol(rec, "PST", "trim/unfaithful", &id, format!("trim({}) does not copy the parameters' elements (degrees, hiding powers 0..={} per variable, verifier elements)", s, s));
                        }
                    }
                }
            }
        }
    }
}

/// MultilinearPC and streaming parameters.
pub fn other_srs(rec: &mut Rec, nvmax: usize) {
    for nv in 1..=nvmax {
        let id = format!("MLP/setup/nv={}", nv);
        if !rec.take(&id) {
            continue;
        }
        rec.dim("scheme", "MLP");
        let mut rng = seed_rng(rec.seed, 10);
        let pp = match catch(|| Mlp::setup(nv, &mut rng)) {
            Ok(p) => p,
            Err(e) => {
                viol(rec, "MLP", "setup/in-domain", &id, format!("setup panicked: {}", e));
                continue;
            }
        };
        let mut ok = pp.num_vars == nv && pp.powers_of_g.len() == nv && pp.powers_of_h.len() == nv && pp.g_mask.len() == nv;
        let mut bad = "table shapes".to_string();
        if ok {
            for i in 0..nv {
                let size = 1usize << (nv - i);
                if pp.powers_of_g[i].len() != size || pp.powers_of_h[i].len() != size {
                    ok = false;
                    bad = format!("level {} has {} entries instead of {}", i, pp.powers_of_g[i].len(), size);
                    break;
                }
                for x in 0..size {
                    rec.op(2);
                    if !pair_eq(pp.powers_of_g[i][x], pp.h, pp.g, pp.powers_of_h[i][x]) {
                        ok = false;
                        bad = format!("G1 and G2 tables disagree at level {} index {}", i, x);
                    }
                }
                if i + 1 < nv {
                    for y in 0..size / 2 {
                        rec.op(2);
                        let sum = (pp.powers_of_g[i][2 * y].into_group() + pp.powers_of_g[i][2 * y + 1]).into_affine();
                        if sum != pp.powers_of_g[i + 1][y] {
                            ok = false;
                            bad = format!("level {}: entries {} and {} do not add up to the next level", i, 2 * y, 2 * y + 1);
                        }
                        if !pair_eq(pp.powers_of_g[i][2 * y + 1], pp.h, pp.g_mask[i], pp.powers_of_h[i + 1][y]) {
                            ok = false;
                            bad = format!("level {}: entry {} is not t_{} times the next level's entry", i, 2 * y + 1, i);
                        }
                    }
                } else {
                    if (pp.powers_of_g[i][0].into_group() + pp.powers_of_g[i][1]).into_affine() != pp.g || pp.powers_of_g[i][1] != pp.g_mask[i] {
                        ok = false;
                        bad = "last level is not ((1-t) g, t g)".into();
                    }
                }
            }
        }
        for t in 1..=nv {
            match catch(|| Mlp::trim(&pp, t)) {
                Ok((ck, vk)) => {
                    let r = nv - t;
                    if ck.nv != t || vk.nv != t || ck.powers_of_g[..] != pp.powers_of_g[r..] || ck.powers_of_h[..] != pp.powers_of_h[r..] || vk.g_mask_random[..] != pp.g_mask[r..] || ck.g != pp.g || vk.g != pp.g || ck.h != pp.h || vk.h != pp.h {
                        ok = false;
                        bad = format!("trim({}) is not the sub-key of the last {} variables", t, t);
                    }
                }
                Err(e) => {
                    ok = false;
                    bad = format!("trim({}) panicked: {}", t, e);
                }
            }
        }
        if catch(|| Mlp::trim(&pp, nv + 1)).is_ok() {
            ok = false;
            bad = "trim beyond the parameters succeeded".into();
        }
        rec.class(if ok { "srs-consistent" } else { "srs-inconsistent" });
        rec.obs(&format!("MLP|{}|{}", nv, ok));
        if !ok {
            viol(rec, "MLP", "setup/srs", &id, bad);
        }
    }
    let id0 = "MLP/setup/nv=0".to_string();
    if rec.take(&id0) {
        let mut rng = seed_rng(rec.seed, 10);
        let r = catch(|| Mlp::setup(0, &mut rng));
        rec.class(if r.is_err() { "refused" } else { "wrongly-served" });
        if r.is_ok() {
            viol(rec, "MLP", "setup/zero-variables", &id0, "setup(0) succeeded".into());
        }
    }
    for (d, k) in [(1usize, 1usize), (4, 2), (16, 3), (33, 5), (64, 8)] {
        let id = format!("STR/setup/D={}/points={}", d, k);
        if !rec.take(&id) {
            continue;
        }
        rec.dim("scheme", "STR");
        let ck = str_key(d, k, rec.seed);
        let st = skzg::CommitterKeyStream::from(&ck);
        let g: &[G1] = st.powers_of_g.0;
        let h: &[G2] = &st.powers_of_g2;
        let mut ok = g.len() == d + 1 && h.len() == (k + 1).min(d + 1) && h.len() >= 2;
        let mut bad = format!("{} G1 powers and {} G2 powers for (max_degree {}, {} points)", g.len(), h.len(), d, k);
        if ok {
            for i in 0..d {
                rec.op(2);
                if !pair_eq(g[i + 1], h[0], g[i], h[1]) {
                    ok = false;
                    bad = format!("powers_of_g[{}] is not tau * powers_of_g[{}]", i + 1, i);
                }
            }
            for i in 0..h.len() - 1 {
                rec.op(2);
                if !pair_eq(g[0], h[i + 1], g[1], h[i]) {
                    ok = false;
                    bad = format!("powers_of_g2[{}] is not tau * powers_of_g2[{}]", i + 1, i);
                }
            }
        }
        rec.class(if ok { "srs-consistent" } else { "srs-inconsistent" });
        rec.obs(&format!("STR|{}|{}", d, ok));
        if !ok {
            viol(rec, "STR", "setup/srs", &id, bad);
        }
    }
}

pub fn run(rec: &mut Rec) {
    let t = rec.thorough();
    srs(rec, 64);
    transparent(rec, 64);
    trim_mar(rec, if t { 7 } else { 5 });
    trim_son(rec, if t { 7 } else { 5 });
    interop::<SMar>(rec);
    interop::<SSon>(rec);
    interop::<SIpa>(rec);
    prepared(rec);
    other_srs(rec, if t { 8 } else { 6 });
    pst_srs(rec, if t { 5 } else { 3 }, if t { 6 } else { 4 });
}
