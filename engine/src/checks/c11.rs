//! C11 — prover/verifier transcripts stay in lock-step over operation histories (E2 explorer).
use crate::alpha::*;
use crate::checks::c01::{slice_b_labels, slice_b_polys};
use crate::rec::Rec;
use crate::sch::*;
use crate::schemes::*;
use crate::scope::*;
use crate::tr::*;
use crate::util::*;
use ark_crypto_primitives::sponge::CryptographicSponge;
use ark_ff::One;
use ark_poly::Polynomial;
use ark_poly_commit::{BatchLCProof, Evaluations, LinearCombination, QuerySet};
use ark_std::rand::RngCore;

#[derive(Clone, Copy, PartialEq, Eq, Debug)]
enum Op {
    Open1,
    Open2,
    Batch,
    Comb,
    /// open([constant polynomial with a degree bound where the scheme has bounds, p0]) at z1
    OpenConst,
}
const OPS: [Op; 5] = [Op::Open1, Op::Open2, Op::Batch, Op::Comb, Op::OpenConst];

enum AnyProof<S: Sch> {
    Single(Pf<S>),
    Batch(BPf<S>),
    Comb(BatchLCProof<S::F, BPf<S>>),
}

struct Ctx<S: Sch> {
    keys: Keys<S>,
    c: Committed<S>,
    z1: S::Pt,
    z2: S::Pt,
    qs: QuerySet<S::Pt>,
    evals: Evaluations<S::Pt, S::F>,
    lcs: Vec<LinearCombination<S::F>>,
    lc_qs: QuerySet<S::Pt>,
    lc_evals: Evaluations<S::Pt, S::F>,
}

fn prove<S: Sch>(ctx: &Ctx<S>, op: Op, sponge: &mut Sponge<S::F>, seed: u64) -> Result<AnyProof<S>, Out> {
    let mut rng = seed_rng(seed, 20);
    let rng: Option<&mut dyn RngCore> = Some(&mut rng);
    let (polys, comms, states) = ctx.c.refs();
    match op {
        Op::Open1 => do_open::<S>(&ctx.keys.ck, &polys[..1], &comms[..1], &ctx.z1, sponge, &states[..1], rng).map(AnyProof::Single),
        Op::Open2 => do_open::<S>(&ctx.keys.ck, &polys[..2], &comms[..2], &ctx.z2, sponge, &states[..2], rng).map(AnyProof::Single),
        Op::Batch => do_batch_open::<S>(&ctx.keys.ck, &polys[..2], &comms[..2], &ctx.qs, sponge, &states[..2], rng).map(AnyProof::Batch),
        Op::Comb => do_open_comb::<S>(&ctx.keys.ck, &ctx.lcs, &polys[..2], &comms[..2], &ctx.lc_qs, sponge, &states[..2], rng).map(AnyProof::Comb),
        Op::OpenConst => do_open::<S>(&ctx.keys.ck, &[polys[2], polys[0]], &[comms[2], comms[0]], &ctx.z1, sponge, &[states[2], states[0]], rng).map(AnyProof::Single),
    }
}

fn verify<S: Sch>(ctx: &Ctx<S>, op: Op, proof: &AnyProof<S>, sponge: &mut Sponge<S::F>, seed: u64) -> Dec {
    let mut rng = seed_rng(seed, 40);
    let comms: Vec<&LCm<S>> = ctx.c.comms.iter().collect();
    match (op, proof) {
        (Op::Open1, AnyProof::Single(p)) => {
            let v = vec![ctx.c.polys[0].polynomial().evaluate(&ctx.z1)];
            do_check::<S>(&ctx.keys.vk, &comms[..1], &ctx.z1, &v, p, sponge, Some(&mut rng as &mut dyn RngCore))
        }
        (Op::Open2, AnyProof::Single(p)) => {
            let v: Vec<S::F> = ctx.c.polys[..2].iter().map(|q| q.polynomial().evaluate(&ctx.z2)).collect();
            do_check::<S>(&ctx.keys.vk, &comms[..2], &ctx.z2, &v, p, sponge, Some(&mut rng as &mut dyn RngCore))
        }
        // the verifier's commitment list comes in another order than the prover's (and with the unused third
        // commitment in front): lock-step must not depend on the order of that list
        (Op::Batch, AnyProof::Batch(p)) => do_batch_check::<S>(&ctx.keys.vk, &[comms[2], comms[1], comms[0]], &ctx.qs, &ctx.evals, p, sponge, &mut rng),
        (Op::Comb, AnyProof::Comb(p)) => do_check_comb::<S>(&ctx.keys.vk, &ctx.lcs, &[comms[1], comms[0]], &ctx.lc_qs, &ctx.lc_evals, p, sponge, &mut rng),
        (Op::OpenConst, AnyProof::Single(p)) => {
            let v = vec![ctx.c.polys[2].polynomial().evaluate(&ctx.z1), ctx.c.polys[0].polynomial().evaluate(&ctx.z1)];
            do_check::<S>(&ctx.keys.vk, &[comms[2], comms[0]], &ctx.z1, &v, p, sponge, Some(&mut rng as &mut dyn RngCore))
        }
        _ => Dec::Err("proof kind mismatch".into()),
    }
}

fn fingerprint<F: ark_ff::PrimeField>(s: &Sponge<F>) -> (Vec<F>, Vec<u8>) {
    let mut a = s.clone();
    let f = a.squeeze_field_elements::<F>(2);
    let mut b = s.clone();
    let by = b.squeeze_bytes(32);
    (f, by)
}

fn build_ctx<S: Sch>(rec: &mut Rec, cfg: &KeyCfg) -> Option<Ctx<S>> {
    let cfg = cfg.clone();
    let keys = build_keys::<S>(&cfg, rec.seed).ok()?;
    // non-constant polynomials only (the property's own restriction for the binding half)
    let mut polys: Vec<LP<S>> = slice_b_polys::<S>(&cfg, rec.seed).into_iter().take(2).collect();
    // a constant polynomial (degree-bounded where the scheme has bounds, not hiding): it takes part in the
    // lock-step half only, always together with the non-constant p0 (the binding half excludes constants)
    let bound = polys[1].degree_bound();
    let konst = S::shapes(&cfg, rec.seed).into_iter().find(|(n, _)| n == "const").map(|x| x.1);
    if let Some(k) = konst {
        polys.push(lp::<S>("pc", k, bound, None));
    } else {
        let p0 = polys[0].polynomial().clone();
        polys.push(lp::<S>("pc", p0, None, None));
    }
    let c = commit_set::<S>(&keys, polys, rec.seed, 0).ok()?;
    let labels = slice_b_labels::<S>(&cfg, rec.seed);
    let (z1, z2) = (labels[0].1.clone(), labels[2].1.clone());
    let mut qs = QuerySet::<S::Pt>::new();
    qs.insert(("p0".into(), ("a".into(), z1.clone())));
    qs.insert(("p1".into(), ("a".into(), z1.clone())));
    qs.insert(("p0".into(), ("c".into(), z2.clone())));
    // a second label for the same point and the same set of polynomials: its group must be verified
    // (and move the verifier's sponge) like any other
    qs.insert(("p0".into(), ("b".into(), z1.clone())));
    qs.insert(("p1".into(), ("b".into(), z1.clone())));
    let evals = true_evals::<S>(&c, &qs);
    // lc0 = 2*p0 + 3 (unbounded terms only), lc1 = 1*p1 (a lone, possibly degree-bounded polynomial)
    let two = S::F::from(2u64);
    let three = S::F::from(3u64);
    let mut lc0 = LinearCombination::<S::F>::new("lc0", vec![(two, "p0".to_string())]);
    lc0 += three;
    let lc1 = LinearCombination::<S::F>::new("lc1", vec![(S::F::one(), "p1".to_string())]);
    let mut lc_qs = QuerySet::<S::Pt>::new();
    lc_qs.insert(("lc0".into(), ("a".into(), z1.clone())));
    lc_qs.insert(("lc1".into(), ("c".into(), z2.clone())));
    lc_qs.insert(("lc0".into(), ("b".into(), z1.clone())));
    let mut lc_evals = Evaluations::new();
    lc_evals.insert(("lc0".to_string(), z1.clone()), two * c.polys[0].polynomial().evaluate(&z1) + three);
    lc_evals.insert(("lc1".to_string(), z2.clone()), c.polys[1].polynomial().evaluate(&z2));
    Some(Ctx { keys, c, z1, z2, qs, evals, lcs: vec![lc0, lc1], lc_qs, lc_evals })
}

struct Hist<S: Sch> {
    ops: Vec<Op>,
    proofs: Vec<AnyProof<S>>,
    /// verifier sponge before each position
    vpre: Vec<Sponge<S::F>>,
}

fn dfs<S: Sch>(rec: &mut Rec, ctx: &Ctx<S>, unit: &str, pre: usize, h: &mut Hist<S>, ps: &Sponge<S::F>, vs: &Sponge<S::F>, depth_left: usize, first_counted: usize) {
    let depth = h.ops.len();
    if depth >= first_counted && depth > 0 {
        // node invariants were evaluated when the node was created
    }
    if depth_left == 0 {
        return;
    }
    for (oi, op) in OPS.iter().enumerate() {
        let mut p2 = ps.clone();
        let mut v2 = vs.clone();
        let node = format!("{}+{:?}", h.ops.iter().map(|o| format!("{:?}", o)).collect::<Vec<_>>().join(">"), op);
        let id = unit.to_string();
        rec.count_points(1);
        rec.op(2);
        let proof = match prove::<S>(ctx, *op, &mut p2, rec.seed) {
            Ok(p) => p,
            Err(o) => {
                rec.class("prove-failed");
                rec.violation(&format!("C11/{}/{:?}/prover-failed", S::NAME, op), &id, format!("history {}: in-domain operation failed at depth {}: {}", node, depth + 1, o.short()));
                continue;
            }
        };
        let vpre = v2.clone();
        let d = verify::<S>(ctx, *op, &proof, &mut v2, rec.seed);
        rec.class(&format!("node-{}", d.class()));
        rec.obs(&format!("{}|{:?}|d{}|{}", S::NAME, op, depth + 1, d.class()));
        if !d.accepted() {
            rec.violation(&format!("C11/{}/{:?}/not-accepted", S::NAME, op), &id, format!("history {}: honest proof at position {} not accepted: {}", node, depth + 1, d.short()));
        }
        if fingerprint(&p2) != fingerprint(&v2) {
            rec.class("lockstep-broken");
            rec.violation(&format!("C11/{}/{:?}/sponges-diverge", S::NAME, op), &id, format!("history {}: prover and verifier sponges differ after position {}", node, depth + 1));
        } else {
            rec.class("lockstep-ok");
        }
        // binding: an earlier proof of the same kind moved to this position, and this proof moved back
        for j in 0..depth {
            if h.ops[j] != *op {
                continue;
            }
            rec.count_points(2);
            rec.op(2);
            let mut s = vpre.clone();
            let dj = verify::<S>(ctx, *op, &h.proofs[j], &mut s, rec.seed);
            rec.class(&format!("moved-{}", dj.class()));
            if dj.accepted() {
                rec.violation(&format!("C11/{}/{:?}/moved-proof-accepted", S::NAME, op), &id, format!("history {}: proof of position {} accepted at position {}", node, j + 1, depth + 1));
            }
            let mut s = h.vpre[j].clone();
            let di = verify::<S>(ctx, *op, &proof, &mut s, rec.seed);
            rec.class(&format!("moved-{}", di.class()));
            if di.accepted() {
                rec.violation(&format!("C11/{}/{:?}/moved-proof-accepted", S::NAME, op), &id, format!("history {}: proof of position {} accepted at position {}", node, depth + 1, j + 1));
            }
        }
        // binding: the same proof against a verifier sponge with another pre-state (first position only;
        // later positions inherit the difference)
        if depth == 0 {
            for pre2 in 0..3usize {
                if pre2 == pre {
                    continue;
                }
                rec.count_points(1);
                rec.op(1);
                let mut s = sponge_pre::<S::F>(pre2);
                let dd = verify::<S>(ctx, *op, &proof, &mut s, rec.seed);
                rec.class(&format!("prestate-{}", dd.class()));
                rec.obs(&format!("{}|{:?}|prestate|{}", S::NAME, op, dd.class()));
                if dd.accepted() {
                    rec.violation(&format!("C11/{}/{:?}/other-prestate-accepted", S::NAME, op), &id, format!("history {}: proof made on pre-state {} accepted on pre-state {}", node, pre, pre2));
                }
            }
        }
        let _ = oi;
        h.ops.push(*op);
        h.proofs.push(proof);
        h.vpre.push(vpre);
        dfs::<S>(rec, ctx, unit, pre, h, &p2, &v2, depth_left - 1, first_counted);
        h.ops.pop();
        h.proofs.pop();
        h.vpre.pop();
    }
}

pub fn scheme<S: Sch>(rec: &mut Rec, depth: usize) {
    scheme_with::<S>(rec, depth, &slice_b::<S>(), "");
    // the linear codes once more with a key built without the well-formedness check: the proof then
    // contains no squeezed combination vector, only the column positions bind it to the transcript
    if S::NAME == "LIG" || S::NAME == "MLL" || S::NAME == "BRK" {
        let mut cfg = slice_b::<S>();
        cfg.lc = Some((128, if S::NAME == "BRK" { 2 } else { 4 }, false));
        scheme_with::<S>(rec, depth.min(3).max(2) - if rec.thorough() { 0 } else { 1 }, &cfg, "/nowf");
    }
}

pub fn scheme_with<S: Sch>(rec: &mut Rec, depth: usize, cfg: &KeyCfg, tag: &str) {
    // shard units: (pre-state, first operation)
    let mut ctx: Option<Ctx<S>> = None;
    for pre in 0..3usize {
        for (oi, op) in OPS.iter().enumerate() {
            let id = format!("{}{}/H/depth<={}/pre={}/first={:?}", S::NAME, tag, depth, pre, op);
            let unit = id.clone();
            if !rec.take(&id) {
                continue;
            }
            if ctx.is_none() {
                ctx = build_ctx::<S>(rec, cfg);
            }
            let ctx = match &ctx {
                Some(c) => c,
                None => {
                    rec.class("source-failed");
                    return;
                }
            };
            rec.dim("scheme", S::NAME);
            rec.sample(&format!("{}-hist", S::NAME), format!("{}: all histories over {{Open1,Open2,Batch,Comb,OpenConst}} of length <= {} starting with {:?}; accept + sponge equality at every node; moved proofs and foreign pre-states rejected", id, depth, op));
            // restrict the first level to `op` by running a one-op DFS manually
            let ps = sponge_pre::<S::F>(pre);
            let vs = sponge_pre::<S::F>(pre);
            let mut h = Hist::<S> { ops: vec![], proofs: vec![], vpre: vec![] };
            dfs_first::<S>(rec, ctx, &unit, pre, &mut h, &ps, &vs, depth, oi);
        }
    }
}

fn dfs_first<S: Sch>(rec: &mut Rec, ctx: &Ctx<S>, unit: &str, pre: usize, h: &mut Hist<S>, ps: &Sponge<S::F>, vs: &Sponge<S::F>, depth: usize, only: usize) {
    // same as dfs but the first level is restricted to operation index `only`
    struct Filter;
    let _ = Filter;
    let saved: Vec<Op> = OPS.to_vec();
    let op = saved[only];
    // run the body of dfs for just this op by temporarily exploring with a single-op alphabet
    dfs_single::<S>(rec, ctx, unit, pre, h, ps, vs, depth, op);
}

fn dfs_single<S: Sch>(rec: &mut Rec, ctx: &Ctx<S>, unit: &str, pre: usize, h: &mut Hist<S>, ps: &Sponge<S::F>, vs: &Sponge<S::F>, depth: usize, op: Op) {
    let mut p2 = ps.clone();
    let mut v2 = vs.clone();
    let node = format!("+{:?}", op);
    let id = unit.to_string();
    rec.op(2);
    let proof = match prove::<S>(ctx, op, &mut p2, rec.seed) {
        Ok(p) => p,
        Err(o) => {
            rec.class("prove-failed");
            rec.violation(&format!("C11/{}/{:?}/prover-failed", S::NAME, op), &id, format!("history {}: in-domain operation failed at depth 1: {}", node, o.short()));
            return;
        }
    };
    let vpre = v2.clone();
    let d = verify::<S>(ctx, op, &proof, &mut v2, rec.seed);
    rec.class(&format!("node-{}", d.class()));
    rec.obs(&format!("{}|{:?}|d1|{}", S::NAME, op, d.class()));
    if !d.accepted() {
        rec.violation(&format!("C11/{}/{:?}/not-accepted", S::NAME, op), &id, format!("history {}: honest proof at position 1 not accepted: {}", node, d.short()));
    }
    if fingerprint(&p2) != fingerprint(&v2) {
        rec.class("lockstep-broken");
        rec.violation(&format!("C11/{}/{:?}/sponges-diverge", S::NAME, op), &id, format!("history {}: prover and verifier sponges differ after position 1", node));
    } else {
        rec.class("lockstep-ok");
    }
    for pre2 in 0..3usize {
        if pre2 == pre {
            continue;
        }
        rec.count_points(1);
        rec.op(1);
        let mut s = sponge_pre::<S::F>(pre2);
        let dd = verify::<S>(ctx, op, &proof, &mut s, rec.seed);
        rec.class(&format!("prestate-{}", dd.class()));
        rec.obs(&format!("{}|{:?}|prestate|{}", S::NAME, op, dd.class()));
        if dd.accepted() {
            rec.violation(&format!("C11/{}/{:?}/other-prestate-accepted", S::NAME, op), &id, format!("history {}: proof made on pre-state {} accepted on pre-state {}", node, pre, pre2));
        }
    }
    h.ops.push(op);
    h.proofs.push(proof);
    h.vpre.push(vpre);
    dfs::<S>(rec, ctx, unit, pre, h, &p2, &v2, depth - 1, 0);
    h.ops.pop();
    h.proofs.pop();
    h.vpre.pop();
}

/// Histories with WIDE operations: `open(2 polynomials)`, then one operation over N polynomials at one point
/// (`open`, a batch with all N under one point label plus a second label, or N single-term combinations at one point),
/// then `open(3)` - all on one sponge pair.  N runs over a ladder that crosses 8, 16 and 32 (code that switches to
/// another accumulation path from some group size on).  Every step is accepted and leaves prover and verifier sponge
/// equal; the last proof is rejected under the sponge it would have met without the wide step.
pub fn wide_histories<S: Sch>(rec: &mut Rec) {
    let cfg = slice_b::<S>();
    let ladder: Vec<usize> = if rec.thorough() { vec![7, 9, 15, 16, 17, 31, 33, 65] } else { vec![9, 17, 33] };
    let mut keys: Option<Keys<S>> = None;
    for n in ladder {
        for kind in ["open", "batch", "comb"] {
            let id = format!("{}/H/wide/n={}/{}", S::NAME, n, kind);
            if !rec.take(&id) {
                continue;
            }
            if keys.is_none() {
                keys = build_keys::<S>(&cfg, rec.seed).ok();
            }
            let keys = match &keys {
                Some(k) => k,
                None => return,
            };
            rec.dim("scheme", S::NAME);
            let base = slice_b_polys::<S>(&cfg, rec.seed);
            // members cycle through the slice-B polynomials (plain; bounded + hiding; zero with a bound)
            let polys: Vec<LP<S>> = (0..n).map(|k| lp::<S>(&format!("w{:02}", k), base[k % 3].polynomial().clone(), base[k % 3].degree_bound(), base[k % 3].hiding_bound())).collect();
            let c = match commit_set::<S>(keys, polys, rec.seed, 0) {
                Ok(c) => c,
                Err(_) => continue,
            };
            let labels = slice_b_labels::<S>(&cfg, rec.seed);
            let (z1, z2) = (labels[0].1.clone(), labels[2].1.clone());
            let (pr, cr, sr) = c.refs();
            let mut ps = sponge_pre::<S::F>(1);
            let mut vs = sponge_pre::<S::F>(1);
            let mut ok = true;
            let mut step = |rec: &mut Rec, name: &str, d: Dec, ps: &Sponge<S::F>, vs: &Sponge<S::F>| -> bool {
                rec.count_points(1);
                rec.op(2);
                rec.obs(&format!("{}|wide|{}|{}", S::NAME, name, d.class()));
                if !d.accepted() {
                    rec.violation(&format!("C11/{}/wide/{}/not-accepted", S::NAME, name), &id, format!("honest step `{}` of the history open(2), {}({}), open(3) is not accepted: {}", name, kind, n, d.short()));
                    return false;
                }
                if fingerprint(ps) != fingerprint(vs) {
                    rec.violation(&format!("C11/{}/wide/{}/sponge-mismatch", S::NAME, name), &id, format!("prover and verifier sponge differ after step `{}` of the history open(2), {}({}), open(3)", name, kind, n));
                    return false;
                }
                true
            };
            let values = |idx: &[usize], z: &S::Pt| -> Vec<S::F> { idx.iter().map(|i| c.polys[*i].polynomial().evaluate(z)).collect() };
            // step 1: open(2) at z2
            let mut rng = seed_rng(rec.seed, 20);
            let mut vr = seed_rng(rec.seed, 40);
            match do_open::<S>(&keys.ck, &pr[..2], &cr[..2], &z2, &mut ps, &sr[..2], Some(&mut rng as &mut dyn RngCore)) {
                Ok(pf) => {
                    let d = do_check::<S>(&keys.vk, &cr[..2], &z2, &values(&[0, 1], &z2), &pf, &mut vs, Some(&mut vr as &mut dyn RngCore));
                    ok &= step(rec, "open(2)", d, &ps, &vs);
                }
                Err(_) => ok = false,
            }
            if !ok {
                continue;
            }
            let before_wide = vs.clone();
            // step 2: the wide operation
            let all: Vec<usize> = (0..n).collect();
            let d = match kind {
                "open" => match do_open::<S>(&keys.ck, &pr, &cr, &z1, &mut ps, &sr, Some(&mut rng as &mut dyn RngCore)) {
                    Ok(pf) => do_check::<S>(&keys.vk, &cr, &z1, &values(&all, &z1), &pf, &mut vs, Some(&mut vr as &mut dyn RngCore)),
                    Err(o) => Dec::Err(format!("open: {}", o.short())),
                },
                "batch" => {
                    let mut qs = QuerySet::<S::Pt>::new();
                    for k in 0..n {
                        qs.insert((format!("w{:02}", k), ("a".to_string(), z1.clone())));
                    }
                    qs.insert(("w00".to_string(), ("c".to_string(), z2.clone())));
                    let ev = true_evals::<S>(&c, &qs);
                    match do_batch_open::<S>(&keys.ck, &pr, &cr, &qs, &mut ps, &sr, Some(&mut rng as &mut dyn RngCore)) {
                        Ok(pf) => do_batch_check::<S>(&keys.vk, &cr, &qs, &ev, &pf, &mut vs, &mut vr),
                        Err(o) => Dec::Err(format!("batch_open: {}", o.short())),
                    }
                }
                _ => {
                    let mut lcs = Vec::new();
                    let mut qs = QuerySet::<S::Pt>::new();
                    let mut ev = Evaluations::new();
                    for k in 0..n {
                        let name = format!("lc{:02}", k);
                        lcs.push(LinearCombination::<S::F>::new(name.clone(), vec![(S::F::one(), format!("w{:02}", k))]));
                        qs.insert((name.clone(), ("a".to_string(), z1.clone())));
                    }
                    // evaluations are keyed by (label, point): one entry per combination
                    for k in 0..n {
                        ev.insert((format!("lc{:02}", k), z1.clone()), c.polys[k].polynomial().evaluate(&z1));
                    }
                    match do_open_comb::<S>(&keys.ck, &lcs, &pr, &cr, &qs, &mut ps, &sr, Some(&mut rng as &mut dyn RngCore)) {
                        Ok(pf) => do_check_comb::<S>(&keys.vk, &lcs, &cr, &qs, &ev, &pf, &mut vs, &mut vr),
                        Err(o) => Dec::Err(format!("open_combinations: {}", o.short())),
                    }
                }
            };
            if !step(rec, &format!("{}(n)", kind), d, &ps, &vs) {
                continue;
            }
            // step 3: open(3) at z2; it must be bound to the transcript including the wide step
            match do_open::<S>(&keys.ck, &pr[..3], &cr[..3], &z2, &mut ps, &sr[..3], Some(&mut rng as &mut dyn RngCore)) {
                Ok(pf) => {
                    let v3 = values(&[0, 1, 2], &z2);
                    let d = do_check::<S>(&keys.vk, &cr[..3], &z2, &v3, &pf, &mut vs, Some(&mut vr as &mut dyn RngCore));
                    if step(rec, "open(3)", d, &ps, &vs) {
                        let mut other = before_wide.clone();
                        let d = do_check::<S>(&keys.vk, &cr[..3], &z2, &v3, &pf, &mut other, Some(&mut vr as &mut dyn RngCore));
                        rec.count_points(1);
                        rec.class(&format!("skipped-step-{}", d.class()));
                        if d.accepted() {
                            rec.violation(&format!("C11/{}/wide/skipped-step-accepted", S::NAME), &id, format!("the proof made after {}({}) is accepted by a verifier whose sponge has not seen that step", kind, n));
                        }
                    }
                }
                Err(_) => {}
            }
            rec.sample(&format!("{}-wide", S::NAME), id.clone());
        }
    }
}

pub fn run(rec: &mut Rec) {
    let t = rec.thorough();
    scheme::<SMar>(rec, if t { 5 } else { 3 });
    scheme::<SSon>(rec, if t { 5 } else { 3 });
    scheme::<SIpa>(rec, if t { 5 } else { 3 });
    scheme::<SPst>(rec, if t { 5 } else { 3 });
    scheme::<SHyr>(rec, if t { 4 } else { 3 });
    scheme::<SLig>(rec, if t { 4 } else { 3 });
    scheme::<SMll>(rec, if t { 4 } else { 3 });
    scheme::<SBrk>(rec, if t { 4 } else { 3 });
    crate::for_each_scheme!(S, {
        wide_histories::<S>(rec);
    });
}
