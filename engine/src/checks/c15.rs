//! C15 — PST13 parameters cover every monomial; any multivariate polynomial opens.
use crate::alpha::*;
use crate::rec::Rec;
use crate::sch::*;
use crate::schemes::*;
use crate::tr::*;
use crate::util::*;
use ark_ec::pairing::Pairing;
use ark_ec::AffineRepr;
use ark_ff::{One, Zero};
use ark_poly::multivariate::{SparseTerm, Term};
use ark_poly::{DenseMVPolynomial, Polynomial};
use ark_poly_commit::{PCCommitterKey, PCUniversalParams, PCVerifierKey, PolynomialCommitment};
use std::collections::BTreeSet;

type G1 = <E381 as Pairing>::G1Affine;

fn viol(rec: &mut Rec, what: &str, id: &str, detail: String) {
    rec.violation(&format!("C15/PST/{}", what), id, detail);
}

fn exps_of(t: &SparseTerm, nv: usize) -> Vec<usize> {
    let mut e = vec![0usize; nv];
    for (v, p) in t.iter() {
        if *v < nv {
            e[*v] += *p;
        }
    }
    e
}

pub fn params(rec: &mut Rec, nmax: usize, dmax: usize) {
    for nv in 1..=nmax {
        for d in 1..=dmax {
            let id = format!("PST/params/nv={}/D={}", nv, d);
            if !rec.take(&id) {
                continue;
            }
            rec.dim("grid", &format!("{}x{}", nv, d));
            let cfg = KeyCfg::mv(nv, d, d);
            let pp = match SPst::setup(&cfg, rec.seed) {
                Ok(p) => p,
                Err(o) => {
                    viol(rec, "setup/in-domain", &id, format!("setup failed: {}", o.short()));
                    continue;
                }
            };
            rec.op(1);
            let want: BTreeSet<Vec<usize>> = exponent_vectors(nv, d).into_iter().collect();
            let mut have: BTreeSet<Vec<usize>> = BTreeSet::new();
            let mut ok = true;
            let mut bad = String::new();
            for (t, _) in pp.powers_of_g.iter() {
                if !have.insert(exps_of(t, nv)) {
                    ok = false;
                    bad = format!("monomial {:?} published twice", exps_of(t, nv));
                }
            }
            if have != want {
                ok = false;
                let missing: Vec<_> = want.difference(&have).take(3).collect();
                let extra: Vec<_> = have.difference(&want).take(3).collect();
                bad = format!("key set has {} monomials, expected C(n+d,d) = {}; missing e.g. {:?}, surplus e.g. {:?}", have.len(), want.len(), missing, extra);
            }
            rec.class(if ok { "keyset-complete" } else { "keyset-wrong" });
            if !ok {
                viol(rec, "setup/key-set", &id, bad.clone());
            }
            // one common trapdoor: e(G[m*x_i], H) == e(G[m], beta_i H)
            let get = |e: &Vec<usize>| -> Option<G1> { pp.powers_of_g.get(&sparse_term(e)).cloned() };
            let mut pairs_ok = true;
            let mut npairs = 0u64;
            if pp.beta_h.len() != nv || pp.powers_of_gamma_g.len() != nv {
                pairs_ok = false;
                bad = "beta_h / gamma tables do not have one entry per variable".into();
            } else {
                for m in want.iter() {
                    if m.iter().sum::<usize>() >= d {
                        continue;
                    }
                    for i in 0..nv {
                        let mut mx = m.clone();
                        mx[i] += 1;
                        if let (Some(a), Some(b)) = (get(&mx), get(m)) {
                            npairs += 1;
                            if E381::pairing(a, pp.h) != E381::pairing(b, pp.beta_h[i]) {
                                pairs_ok = false;
                                bad = format!("G[{:?}] is not beta_{} * G[{:?}]", mx, i, m);
                            }
                        }
                    }
                }
                for i in 0..nv {
                    let tbl = &pp.powers_of_gamma_g[i];
                    if tbl.len() != d + 1 {
                        pairs_ok = false;
                        bad = format!("gamma table of variable {} has {} entries instead of {}", i, tbl.len(), d + 1);
                        continue;
                    }
                    npairs += 1;
                    if E381::pairing(tbl[0], pp.h) != E381::pairing(pp.gamma_g, pp.beta_h[i]) {
                        pairs_ok = false;
                        bad = format!("gamma table of variable {} does not start at beta_{} * gamma G", i, i);
                    }
                    for j in 0..d {
                        npairs += 1;
                        if E381::pairing(tbl[j + 1], pp.h) != E381::pairing(tbl[j], pp.beta_h[i]) {
                            pairs_ok = false;
                            bad = format!("gamma table of variable {}: entry {} is not beta times entry {}", i, j + 1, j);
                        }
                    }
                }
                // independent trapdoors: no two variables share beta_i, no two monomials share a key
                // element, h / gamma_g / g are not the identity
                for i in 0..nv {
                    for j in (i + 1)..nv {
                        if pp.beta_h[i] == pp.beta_h[j] {
                            pairs_ok = false;
                            bad = format!("variables {} and {} share one trapdoor (beta_h equal)", i, j);
                        }
                    }
                }
                let elems: Vec<(&Vec<usize>, G1)> = want.iter().filter_map(|m| get(m).map(|g| (m, g))).collect();
                for a in 0..elems.len() {
                    for b in (a + 1)..elems.len() {
                        if elems[a].1 == elems[b].1 {
                            pairs_ok = false;
                            bad = format!("monomials {:?} and {:?} have the same key element", elems[a].0, elems[b].0);
                        }
                    }
                }
                let ph: <E381 as Pairing>::G2Prepared = pp.h.into();
                if pp.prepared_h != ph || pp.prepared_beta_h.len() != nv || (0..nv).any(|i| pp.prepared_beta_h[i] != <E381 as Pairing>::G2Prepared::from(pp.beta_h[i])) {
                    pairs_ok = false;
                    bad = "prepared elements are not the prepared forms of h / beta_h".into();
                }
            }
            rec.op(npairs * 2);
            rec.class(if pairs_ok { "trapdoor-consistent" } else { "trapdoor-inconsistent" });
            rec.obs(&format!("params|{}|{}|{}|{}", nv, d, ok, pairs_ok));
            if !pairs_ok {
                viol(rec, "setup/trapdoor-identities", &id, bad.clone());
            }
            if pp.max_degree() != d {
                viol(rec, "setup/max-degree-report", &id, format!("max_degree() = {}", pp.max_degree()));
            }
            // trim keeps exactly the monomials up to the supported degree
            for s in 1..=(d + 1) {
                rec.count_points(1);
                rec.op(1);
                match flat(catch(|| Pst::trim(&pp, s, s, None))) {
                    Ok((ck, vk)) => {
                        if s > d {
                            viol(rec, "trim/serves-out-of-range", &id, format!("trim({}) beyond max_degree {} succeeded", s, d));
                            continue;
                        }
                        let keep: BTreeSet<Vec<usize>> = exponent_vectors(nv, s).into_iter().collect();
                        let got: BTreeSet<Vec<usize>> = ck.powers_of_g.keys().map(|t| exps_of(t, nv)).collect();
                        let mut tok = got == keep && ck.powers_of_g.len() == keep.len();
                        for (t, g) in ck.powers_of_g.iter() {
                            tok &= pp.powers_of_g.get(t) == Some(g);
                        }
                        tok &= ck.gamma_g == pp.gamma_g && ck.num_vars == nv && ck.supported_degree() == s && ck.max_degree() == d;
                        tok &= (0..nv).all(|i| ck.powers_of_gamma_g[i][..] == pp.powers_of_gamma_g[i][..=s]);
                        tok &= vk.g == *pp.powers_of_g.get(&SparseTerm::new(vec![])).unwrap() && vk.gamma_g == pp.gamma_g && vk.h == pp.h && vk.beta_h == pp.beta_h && vk.num_vars == nv && vk.supported_degree() == s && vk.max_degree() == d;
                        rec.class(if tok { "trim-faithful" } else { "trim-unfaithful" });
                        if !tok {
                            viol(rec, "trim/unfaithful", &id, format!("trim({}) is not exactly the monomials of degree <= {} with the parameters' elements", s, s));
                        }
                    }
                    Err(_) => {
                        rec.class("trim-refused");
                        if s <= d {
                            viol(rec, "trim/refuses-in-range", &id, format!("trim({}) refused within max_degree {}", s, d));
                        }
                    }
                }
            }
            rec.sample("params", id.clone());
        }
    }
    // refusals at setup
    for (nv, d) in [(Some(0usize), 2usize), (Some(2), 0), (None, 2)] {
        let id = format!("PST/params/nv={:?}/D={}", nv, d);
        if !rec.take(&id) {
            continue;
        }
        let mut rng = seed_rng(rec.seed, 10);
        let r = flat(catch(|| Pst::setup(d, nv, &mut rng)));
        rec.class(if r.is_err() { "setup-refused" } else { "setup-wrongly-served" });
        if r.is_ok() {
            viol(rec, "setup/degenerate-request", &id, "setup succeeded".into());
        }
    }
}

/// Every monomial support: commit, open, check (true value accepted, value+1 rejected).
pub fn supports(rec: &mut Rec, nmax: usize) {
    for nv in 1..=nmax {
        for d in 1..=nmax {
            let cfg = KeyCfg::mv(nv, d, d);
            let mons = exponent_vectors(nv, d);
            let nm = mons.len();
            let supports: Vec<Vec<usize>> = if nm <= 10 {
                (1u32..(1 << nm)).map(|mask| (0..nm).filter(|i| mask >> i & 1 == 1).collect()).collect()
            } else {
                let mut v: Vec<Vec<usize>> = Vec::new();
                for a in 0..nm {
                    v.push(vec![a]);
                    for b in (a + 1)..nm {
                        v.push(vec![a, b]);
                        if rec.thorough() {
                            for c in (b + 1)..nm {
                                v.push(vec![a, b, c]);
                            }
                        }
                    }
                }
                v.push((0..nm).collect());
                v
            };
            rec.scope(format!("PST supports: nv={}, D={}: {} monomials, {} supports x hiding x 2 points", nv, d, nm, supports.len()));
            let pts = SPst::points(&cfg, rec.seed);
            let r = rho_stream::<Fr381>(rec.seed, 4, nm + 1);
            let mut todo = Vec::new();
            for sup in supports.iter() {
                for h in [None, Some(1usize)] {
                    for (zn, z) in [&pts[0], pts.iter().find(|(n, _)| n == "mixed").unwrap_or(&pts[0])] {
                        let id = format!("PST/support/nv={}/D={}/{:?}/h={:?}/z={}", nv, d, sup, h, zn).replace(' ', "");
                        if rec.take(&id) {
                            todo.push((id, sup.clone(), h, z.clone()));
                        }
                    }
                }
            }
            if todo.is_empty() {
                continue;
            }
            let keys = match build_keys::<SPst>(&cfg, rec.seed) {
                Ok(k) => k,
                Err(_) => continue,
            };
            for (id, sup, h, z) in todo {
                rec.dim("grid", &format!("{}x{}", nv, d));
                rec.op(4);
                let support: Vec<Vec<usize>> = sup.iter().map(|i| mons[*i].clone()).collect();
                let coeffs: Vec<Fr381> = sup.iter().map(|i| r[*i]).collect();
                let p = mv_from_support(nv, &support, &coeffs);
                let mixed = support.iter().any(|m| m.iter().filter(|e| **e > 0).count() >= 2);
                let c = match commit_set::<SPst>(&keys, vec![lp::<SPst>("p", p.clone(), None, h)], rec.seed, 0) {
                    Ok(c) => c,
                    Err(o) => {
                        viol(rec, "commit/in-domain", &id, format!("commit failed: {}", o.short()));
                        continue;
                    }
                };
                let s = match open_single::<SPst>(&keys, &c, &[0], &z, 0, rec.seed, 0) {
                    Ok(s) => s,
                    Err(o) => {
                        viol(rec, "open/in-domain", &id, format!("open failed: {}", o.short()));
                        continue;
                    }
                };
                let comms: Vec<&LCm<SPst>> = c.comms.iter().collect();
                let dt = check_single::<SPst>(&keys, &comms, &z, &s.values, &s.proof, 0, rec.seed, 0);
                let mut v2 = s.values.clone();
                v2[0] += Fr381::one();
                let df = check_single::<SPst>(&keys, &comms, &z, &v2, &s.proof, 0, rec.seed, 0);
                rec.class(if dt.accepted() { "true-accepted" } else { "true-rejected" });
                rec.class(if df.accepted() { "false-accepted" } else { "false-rejected" });
                rec.obs(&format!("sup|{}|{}|mixed={}|h={}|{}|{}", nv, d, mixed, h.is_some(), dt.class(), df.class()));
                if !dt.accepted() {
                    viol(rec, if mixed { "check/mixed-monomials-rejected" } else { "check/honest-rejected" }, &id, format!("honest opening not accepted: {}", dt.short()));
                }
                if df.accepted() {
                    viol(rec, "check/false-value-accepted", &id, "value+1 accepted".into());
                }
                if mixed {
                    rec.sample("mixed", id.clone());
                }
            }
        }
    }
}


/// Two polynomials in ONE commit call: every ordered pair (A, B) of three-monomial supports that differ in exactly one
/// monomial (equal size, usually equal lowest and highest term, different interior), on the grids (2,3), (3,2) and (1,4);
/// both members are opened and checked (true value accepted, value + 1 not).  A committer that carries anything from the
/// previous member of the call into the next one is only visible with two different supports in one call.
pub fn pairs_in_one_call(rec: &mut Rec) {
    for (nv, d) in [(2usize, 3usize), (3, 2), (1, 4)] {
        let cfg = KeyCfg::mv(nv, d, d);
        let mons = exponent_vectors(nv, d);
        let nm = mons.len();
        let mut sups: Vec<Vec<usize>> = Vec::new();
        for a in 0..nm {
            for b in (a + 1)..nm {
                for c in (b + 1)..nm {
                    sups.push(vec![a, b, c]);
                }
            }
        }
        rec.scope(format!("PST pairs in one commit call: nv={}, D={}: {} three-monomial supports, ordered pairs differing in one monomial", nv, d, sups.len()));
        let r = rho_stream::<Fr381>(rec.seed, 4, nm + 1);
        let r2 = rho_stream::<Fr381>(rec.seed, 5, nm + 1);
        let z = SPst::points(&cfg, rec.seed)[0].1.clone();
        let mut keys: Option<Keys<SPst>> = None;
        for (i, a) in sups.iter().enumerate() {
            let id = format!("PST/pair-in-one-call/nv={}/D={}/first={:?}", nv, d, a).replace(' ', "");
            if !rec.take(&id) {
                continue;
            }
            rec.dim("grid", &format!("{}x{}", nv, d));
            if keys.is_none() {
                keys = build_keys::<SPst>(&cfg, rec.seed).ok();
            }
            let keys = match keys.as_ref() {
                Some(k) => k,
                None => return,
            };
            let mk = |sup: &Vec<usize>, rr: &Vec<Fr381>| mv_from_support(nv, &sup.iter().map(|i| mons[*i].clone()).collect::<Vec<_>>(), &sup.iter().map(|i| rr[*i]).collect::<Vec<_>>());
            let mut bad: Option<String> = None;
            for (j, b) in sups.iter().enumerate() {
                if i == j || a.iter().filter(|x| b.contains(x)).count() != 2 {
                    continue;
                }
                rec.count_points(1);
                rec.op(5);
                let c = match commit_set::<SPst>(keys, vec![lp::<SPst>("a", mk(a, &r), None, None), lp::<SPst>("b", mk(b, &r2), None, None)], rec.seed, 0) {
                    Ok(c) => c,
                    Err(o) => {
                        bad.get_or_insert(format!("commit of {:?} then {:?} failed: {}", a, b, o.short()));
                        continue;
                    }
                };
                for k in [0usize, 1] {
                    match open_single::<SPst>(keys, &c, &[k], &z, 0, rec.seed, 0) {
                        Ok(s) => {
                            let comms: Vec<&LCm<SPst>> = vec![&c.comms[k]];
                            let dt = check_single::<SPst>(keys, &comms, &z, &s.values, &s.proof, 0, rec.seed, 0);
                            let df = check_single::<SPst>(keys, &comms, &z, &[s.values[0] + Fr381::one()], &s.proof, 0, rec.seed, 0);
                            if !dt.accepted() || df.accepted() {
                                bad.get_or_insert(format!("supports {:?} then {:?} in one commit call: member {} -> true value {}, value+1 {}", a, b, k, dt.short(), df.short()));
                            }
                        }
                        Err(o) => {
                            bad.get_or_insert(format!("open of member {} failed: {}", k, o.short()));
                        }
                    }
                }
            }
            rec.class(if bad.is_none() { "true-accepted" } else { "true-rejected" });
            if let Some(b) = bad {
                viol(rec, "check/mixed-monomials-rejected", &id, b);
            }
        }
    }
}

pub fn run(rec: &mut Rec) {
    let t = rec.thorough();
    params(rec, 6, 6);
    supports(rec, if t { 4 } else { 3 });
    pairs_in_one_call(rec);
}
