//! C17 — out-of-domain requests are refused, never answered with a wrong result.
use crate::alpha::*;
use crate::checks::c01::{slice_b_labels, slice_b_polys};
use crate::rec::Rec;
use crate::sch::*;
use crate::schemes::*;
use crate::scope::*;
use crate::special::*;
use crate::tr::*;
use crate::util::*;
use ark_ff::{One, Zero};
use ark_poly::{DenseUVPolynomial, Polynomial};
use ark_poly_commit::{Evaluations, LabeledCommitment, LinearCombination, PolynomialCommitment, QuerySet};
use ark_std::rand::RngCore;

fn refused(rec: &mut Rec, sch: &str, entry: &str, kind: &str, id: &str, ok: bool, detail: String) {
    rec.count_points(1);
    rec.op(1);
    rec.class(if ok { "answered" } else { "refused" });
    rec.obs(&format!("{}|{}|{}|{}", sch, entry, kind, ok));
    if ok {
        rec.violation(&format!("C17/{}/{}/{}", sch, entry, kind), id, detail);
    }
}

/// Requests every trait scheme must refuse: unknown polynomial, missing commitment, missing evaluation.
pub fn lookups<S: Sch>(rec: &mut Rec) {
    let id = format!("{}/lookups", S::NAME);
    if !rec.take(&id) {
        return;
    }
    rec.dim("scheme", S::NAME);
    let cfg = slice_b::<S>();
    let keys = match build_keys::<S>(&cfg, rec.seed) {
        Ok(k) => k,
        Err(_) => return,
    };
    let c = match commit_set::<S>(&keys, slice_b_polys::<S>(&cfg, rec.seed), rec.seed, 0) {
        Ok(c) => c,
        Err(_) => return,
    };
    let labels = slice_b_labels::<S>(&cfg, rec.seed);
    let (z, zl) = (labels[0].1.clone(), labels[0].0.clone());
    let mut qs = QuerySet::<S::Pt>::new();
    qs.insert(("p0".into(), (zl.clone(), z.clone())));
    qs.insert(("p1".into(), (zl.clone(), z.clone())));
    let (polys, comms, states) = c.refs();
    // in-domain baseline
    let b = match open_batch::<S>(&keys, &c, &[0, 1, 2], &qs, 0, rec.seed, 0) {
        Ok(b) => b,
        Err(_) => return,
    };
    let base = check_batch::<S>(&keys, &comms, &qs, &b.evals, &b.proof, 0, rec.seed, 0);
    rec.class(if base.accepted() { "baseline-accepted" } else { "baseline-rejected" });
    // (a) query for an unknown polynomial
    let mut q2 = qs.clone();
    q2.insert(("nope".into(), (zl.clone(), z.clone())));
    let mut sponge = sponge_pre::<S::F>(0);
    let mut rng = seed_rng(rec.seed, 20);
    let r = do_batch_open::<S>(&keys.ck, &polys, &comms, &q2, &mut sponge, &states, Some(&mut rng as &mut dyn RngCore));
    refused(rec, S::NAME, "batch_open", "unknown-polynomial", &id, r.is_ok(), "batch_open answered a query for a polynomial that was not supplied".into());
    // (a') the unknown label takes the PLACE of a supplied polynomial (as many labels at the point as objects supplied),
    // prover and verifier; the verifier is handed the honest proof for {p0,p1,p2} and the value of p2 for the unknown label
    {
        let mut q3 = qs.clone();
        q3.insert(("p2".into(), (zl.clone(), z.clone())));
        if let Ok(b3) = open_batch::<S>(&keys, &c, &[0, 1, 2], &q3, 0, rec.seed, 0) {
            for (ghost, gone) in [("nope", "p2"), ("a-first", "p0"), ("p1x", "p1")] {
                let mut qg = QuerySet::<S::Pt>::new();
                let mut evg: Evaluations<S::Pt, S::F> = Evaluations::new();
                for l in ["p0", "p1", "p2"] {
                    let name = if l == gone { ghost } else { l };
                    qg.insert((name.to_string(), (zl.clone(), z.clone())));
                    if let Some(v) = b3.evals.get(&(l.to_string(), z.clone())) {
                        evg.insert((name.to_string(), z.clone()), *v);
                    }
                }
                let mut sponge = sponge_pre::<S::F>(0);
                let mut rng = seed_rng(rec.seed, 20);
                let r = do_batch_open::<S>(&keys.ck, &polys, &comms, &qg, &mut sponge, &states, Some(&mut rng as &mut dyn RngCore));
                refused(rec, S::NAME, "batch_open", "unknown-polynomial", &id, r.is_ok(), format!("batch_open answered a query set in which the unknown label `{}` stands in place of `{}`", ghost, gone));
                let d = check_batch::<S>(&keys, &comms, &qg, &evg, &b3.proof, 0, rec.seed, 0);
                refused(rec, S::NAME, "batch_check", "unknown-polynomial", &id, d.accepted(), format!("batch_check accepted a claim about the unknown label `{}` (value and proof of `{}`): {}", ghost, gone, d.short()));
                if let Ok(pf) = r {
                    let d = check_batch::<S>(&keys, &comms, &qg, &evg, &pf, 0, rec.seed, 0);
                    refused(rec, S::NAME, "batch_check", "unknown-polynomial", &id, d.accepted(), format!("batch_check accepted the prover's answer for the unknown label `{}`: {}", ghost, d.short()));
                }
            }
        }
    }
    // (b) verifier: commitment missing for a queried label
    let d = check_batch::<S>(&keys, &comms[..1], &qs, &b.evals, &b.proof, 0, rec.seed, 0);
    refused(rec, S::NAME, "batch_check", "missing-commitment", &id, d.accepted(), format!("batch_check accepted although the commitment of p1 was not supplied: {}", d.short()));
    // (c) verifier: evaluation missing
    let mut ev2 = b.evals.clone();
    let k = ev2.keys().next().unwrap().clone();
    ev2.remove(&k);
    let d = check_batch::<S>(&keys, &comms, &qs, &ev2, &b.proof, 0, rec.seed, 0);
    refused(rec, S::NAME, "batch_check", "missing-evaluation", &id, d.accepted(), format!("batch_check accepted although an evaluation is missing: {}", d.short()));
    // (d) combinations: unknown polynomial in a combination, missing combination value
    let lcs = vec![LinearCombination::<S::F>::new("L", vec![(S::F::one(), "p0".to_string()), (S::F::one(), "ghost".to_string())])];
    let mut lqs = QuerySet::<S::Pt>::new();
    lqs.insert(("L".into(), (zl.clone(), z.clone())));
    let mut sponge = sponge_pre::<S::F>(0);
    let mut rng = seed_rng(rec.seed, 20);
    let r = catch(|| do_open_comb::<S>(&keys.ck, &lcs, &polys, &comms, &lqs, &mut sponge, &states, Some(&mut rng as &mut dyn RngCore)));
    refused(rec, S::NAME, "open_combinations", "unknown-polynomial", &id, matches!(r, Ok(Ok(_))), "open_combinations answered a combination over a polynomial that was not supplied".into());
    let lcs = vec![LinearCombination::<S::F>::new("L", vec![(S::F::one(), "p0".to_string())])];
    let mut sponge = sponge_pre::<S::F>(0);
    let mut rng = seed_rng(rec.seed, 20);
    if let Ok(lcp) = do_open_comb::<S>(&keys.ck, &lcs, &polys, &comms, &lqs, &mut sponge, &states, Some(&mut rng as &mut dyn RngCore)) {
        let empty: Evaluations<S::Pt, S::F> = Evaluations::new();
        let mut sponge = sponge_pre::<S::F>(0);
        let mut rng = seed_rng(rec.seed, 40);
        let d = do_check_comb::<S>(&keys.vk, &lcs, &comms, &lqs, &empty, &lcp, &mut sponge, &mut rng);
        refused(rec, S::NAME, "check_combinations", "missing-evaluation", &id, d.accepted(), format!("check_combinations accepted without the combination's claimed value: {}", d.short()));
    }
    // (d') the same with combinations that carry a constant term: `p0 - p0(z)` (vanishes at z, so a verifier that
    // supplies a default of zero for the missing claim would ACCEPT) and `p0 + 1`; with an empty evaluation table and
    // with a table that lacks only the entry of one of two queried combinations
    {
        use ark_poly::Polynomial;
        use ark_poly_commit::LCTerm;
        let v0 = c.polys[0].polynomial().evaluate(&z);
        let mut l_van = LinearCombination::<S::F>::empty("V");
        l_van.push((S::F::one(), LCTerm::PolyLabel("p0".into())));
        l_van.push((-v0, LCTerm::One));
        let mut l_one = LinearCombination::<S::F>::empty("W");
        l_one.push((S::F::one(), LCTerm::PolyLabel("p0".into())));
        l_one.push((S::F::one(), LCTerm::One));
        let lcs2 = vec![l_van, l_one];
        let mut q2 = QuerySet::<S::Pt>::new();
        q2.insert(("V".into(), (zl.clone(), z.clone())));
        q2.insert(("W".into(), (zl.clone(), z.clone())));
        let mut sponge = sponge_pre::<S::F>(0);
        let mut rng = seed_rng(rec.seed, 20);
        if let Ok(lcp) = do_open_comb::<S>(&keys.ck, &lcs2, &polys, &comms, &q2, &mut sponge, &states, Some(&mut rng as &mut dyn RngCore)) {
            let mut full: Evaluations<S::Pt, S::F> = Evaluations::new();
            full.insert(("V".to_string(), z.clone()), S::F::zero());
            full.insert(("W".to_string(), z.clone()), v0 + S::F::one());
            let seed0 = rec.seed;
            let run = |ev: &Evaluations<S::Pt, S::F>| {
                let mut sponge = sponge_pre::<S::F>(0);
                let mut rng = seed_rng(seed0, 40);
                do_check_comb::<S>(&keys.vk, &lcs2, &comms, &q2, ev, &lcp, &mut sponge, &mut rng)
            };
            let base2 = run(&full);
            rec.class(if base2.accepted() { "baseline-accepted" } else { "baseline-rejected" });
            for (what, ev) in [
                ("empty-table", Evaluations::<S::Pt, S::F>::new()),
                ("vanishing-combination-missing", {
                    let mut e = full.clone();
                    e.remove(&("V".to_string(), z.clone()));
                    e
                }),
                ("other-combination-missing", {
                    let mut e = full.clone();
                    e.remove(&("W".to_string(), z.clone()));
                    e
                }),
            ] {
                let d = run(&ev);
                refused(rec, S::NAME, "check_combinations", "missing-evaluation", &id, d.accepted(), format!("check_combinations accepted although the claimed value of a combination with a constant term is missing ({}): {}", what, d.short()));
            }
        }
    }
    // (e) hiding requested without an RNG
    if S::HIDING || S::NEEDS_RNG {
        let p = lp::<S>("h", c.polys[0].polynomial().clone(), None, if S::HIDING { Some(1) } else { None });
        let r = do_commit::<S>(&keys.ck, &[p], None);
        refused(rec, S::NAME, "commit", "missing-rng", &id, r.is_ok(), "a blinded commitment was produced without an RNG".into());
    }
    rec.sample(&format!("{}-lookups", S::NAME), id.clone());
}


/// Coefficient vectors of degree `deg` for the "polynomial too large" requests: dense, the monomial X^deg alone,
/// X^(deg-s) * (dense of degree s) - an oversized polynomial whose non-zero tail would fit the key -, and dense
/// with a zero constant term.
pub fn oversize_vectors<F: ark_ff::PrimeField>(r: &[F], deg: usize, s: usize) -> Vec<(&'static str, Vec<F>)> {
    let dense = r[..=deg].to_vec();
    let mut top = vec![F::zero(); deg + 1];
    top[deg] = F::one();
    let mut shifted = dense.clone();
    for i in 0..deg.saturating_sub(s).min(deg) {
        shifted[i] = F::zero();
    }
    let mut low1 = dense.clone();
    low1[0] = F::zero();
    vec![("dense", dense), ("top-only", top), ("low-zeros", shifted), ("zero-constant", low1)]
}

/// Sizes around the limits for the degree-based schemes.
pub fn sizes_uni<S: Sch>(rec: &mut Rec)
where
    S: crate::checks::c04::UniSch,
{
    let cfgs: Vec<KeyCfg> = if S::NAME == "IPA" { vec![KeyCfg::uni(7, 3, 1, None), KeyCfg::uni(7, 7, 1, None)] } else { vec![KeyCfg::uni(6, 4, 2, Some(vec![3])), KeyCfg::uni(4, 4, 4, None)] };
    for cfg in cfgs {
        let id = format!("{}/sizes/{}", S::NAME, cfg.id());
        if !rec.take(&id) {
            continue;
        }
        rec.dim("scheme", S::NAME);
        let keys = match build_keys::<S>(&cfg, rec.seed) {
            Ok(k) => k,
            Err(_) => continue,
        };
        let s = if S::NAME == "IPA" { (cfg.sup + 1).next_power_of_two() - 1 } else { cfg.sup };
        let r = rho_stream::<S::F>(rec.seed, 1, cfg.max + 4);
        for deg in [s.saturating_sub(1), s, s + 1, cfg.max, cfg.max + 1] {
            let p = lp::<S>("p", S::poly(&r[..=deg]), None, None);
            let res = do_commit::<S>(&keys.ck, &[p], None);
            if deg > s {
                refused(rec, S::NAME, "commit", "polynomial-too-large", &id, res.is_ok(), format!("degree {} committed under supported degree {}", deg, s));
                for (vn, v) in oversize_vectors::<S::F>(&r, deg, s).into_iter().skip(1) {
                    for h in [None, Some(1usize)] {
                        if h.is_some() && !S::HIDING {
                            continue;
                        }
                        let mut rng = seed_rng(rec.seed, 0);
                        let res = do_commit::<S>(&keys.ck, &[lp::<S>("p", S::poly(&v), None, h)], Some(&mut rng as &mut dyn RngCore));
                        refused(rec, S::NAME, "commit", "polynomial-too-large", &id, res.is_ok(), format!("degree {} ({}, hiding {:?}) committed under supported degree {}", deg, vn, h, s));
                    }
                }
            } else {
                rec.count_points(1);
                rec.class(if res.is_ok() { "in-domain-served" } else { "in-domain-refused" });
                if let Err(o) = res {
                    rec.violation(&format!("C17/{}/commit/in-domain-refused", S::NAME), &id, format!("degree {} <= supported {} refused: {}", deg, s, o.short()));
                }
            }
        }
        // hiding bounds around the key limit
        if S::HIDING && S::NAME != "IPA" {
            for h in [0usize, cfg.hid.saturating_sub(1).max(1), cfg.hid, cfg.hid + 1, cfg.max + 1, cfg.max + 5] {
                let p = lp::<S>("p", S::poly(&r[..=2]), None, Some(h));
                let mut rng = seed_rng(rec.seed, 0);
                let res = do_commit::<S>(&keys.ck, &[p.clone()], Some(&mut rng as &mut dyn RngCore));
                if h > cfg.hid {
                    refused(rec, S::NAME, "commit", "hiding-beyond-key", &id, res.is_ok(), format!("hiding bound {} served by a key trimmed for {}", h, cfg.hid));
                } else if h == 0 {
                    // the domain is not spelled out for a hiding bound of zero: a refusal, or a correct blinded
                    // commitment that round-trips, are both acceptable; a wrong answer is not
                    rec.count_points(1);
                    match res {
                        Err(_) => rec.class("hiding0-refused"),
                        Ok((cm, st)) => {
                            rec.class("hiding0-served");
                            let z = S::point(rho::<S::F>(rec.seed, 1));
                            let cset = Committed::<S> { polys: vec![p], comms: cm, states: st };
                            let ok = match open_single::<S>(&keys, &cset, &[0], &z, 0, rec.seed, 0) {
                                Ok(s1) => {
                                    let cr: Vec<&LCm<S>> = cset.comms.iter().collect();
                                    let t = check_single::<S>(&keys, &cr, &z, &s1.values, &s1.proof, 0, rec.seed, 0).accepted();
                                    let mut v2 = s1.values.clone();
                                    v2[0] += S::F::one();
                                    let f = check_single::<S>(&keys, &cr, &z, &v2, &s1.proof, 0, rec.seed, 0).accepted();
                                    t && !f
                                }
                                Err(_) => true,
                            };
                            if !ok {
                                rec.violation(&format!("C17/{}/commit/hiding-zero-wrong-result", S::NAME), &id, "a hiding bound of zero was served with a result that does not round-trip".into());
                            }
                        }
                    }
                } else {
                    rec.count_points(1);
                    rec.class(if res.is_ok() { "in-domain-served" } else { "in-domain-refused" });
                    if let Err(o) = res {
                        rec.violation(&format!("C17/{}/commit/in-domain-refused", S::NAME), &id, format!("hiding bound {} within the key limit {} refused: {}", h, cfg.hid, o.short()));
                    }
                }
            }
        }
        rec.sample(&format!("{}-sizes", S::NAME), id.clone());
    }
}

/// Unsupported and inconsistent degree bounds at every entry point: every bound 0..=max+2 against keys
/// whose enforced list has gaps.  A bound the key does not serve (or one below the polynomial's degree)
/// must be refused by commit; a commitment made under a served bound and shown to the verifier under an
/// unserved one must never be accepted.
pub fn degree_bounds<S: Sch>(rec: &mut Rec)
where
    S: crate::checks::c04::UniSch,
{
    use crate::checks::c04::{admissible, eff};
    let cfgs: Vec<KeyCfg> = if S::NAME == "IPA" { vec![KeyCfg::uni(7, 3, 1, None), KeyCfg::uni(7, 7, 1, None)] } else { vec![KeyCfg::uni(7, 6, 1, Some(vec![2, 4, 6])), KeyCfg::uni(5, 4, 1, Some(vec![0, 3]))] };
    for cfg in cfgs {
        let (s, served) = eff::<S>(&cfg);
        let top = cfg.max + 2;
        let r = rho_stream::<S::F>(rec.seed, 1, s + 3);
        let z = S::point(rho::<S::F>(rec.seed, 5));
        let mut todo = Vec::new();
        for deg in 0..=2usize.min(s) {
            for b in 0..=top {
                let id = format!("{}/bounds/{}/deg={}/b={}", S::NAME, cfg.id(), deg, b);
                if rec.take(&id) {
                    todo.push((id, deg, b));
                }
            }
        }
        if todo.is_empty() {
            continue;
        }
        let keys = match build_keys::<S>(&cfg, rec.seed) {
            Ok(k) => k,
            Err(_) => continue,
        };
        rec.scope(format!("{}: key {} serving bounds {:?} up to degree {}; every bound 0..={} at commit, and as the label shown to check for commitments made under each served bound", S::NAME, cfg.id(), served, s, top));
        for (id, deg, b) in todo {
            rec.dim("scheme", S::NAME);
            let p = S::poly(&r[..=deg]);
            let adm = admissible::<S>(&cfg, deg, Some(b));
            let res = do_commit::<S>(&keys.ck, &[lp::<S>("p", p.clone(), Some(b), None)], None);
            if !adm {
                let why = if b < deg { "degree-bound-below-degree" } else { "unsupported-degree-bound" };
                refused(rec, S::NAME, "commit", why, &id, res.is_ok(), format!("degree {} committed under bound {} (key serves {:?}, supported {})", deg, b, served, s));
            } else {
                rec.count_points(1);
                rec.class(if res.is_ok() { "in-domain-served" } else { "in-domain-refused" });
                if let Err(o) = res {
                    rec.violation(&format!("C17/{}/commit/in-domain-refused", S::NAME), &id, format!("degree {} under served bound {} refused: {}", deg, b, o.short()));
                }
                continue;
            }
            // the verifier's side: an honest transcript under every served bound, shown under b
            let made: Vec<usize> = (0..=s).filter(|m| *m != b && admissible::<S>(&cfg, deg, Some(*m))).collect();
            for m in made {
                let c = match commit_set::<S>(&keys, vec![lp::<S>("p", p.clone(), Some(m), None)], rec.seed, 0) {
                    Ok(c) => c,
                    Err(_) => continue,
                };
                let s1 = match open_single::<S>(&keys, &c, &[0], &z, 0, rec.seed, 0) {
                    Ok(x) => x,
                    Err(_) => continue,
                };
                let shown = LabeledCommitment::new("p".to_string(), c.comms[0].commitment().clone(), Some(b));
                let d = check_single::<S>(&keys, &[&shown], &z, &s1.values, &s1.proof, 0, rec.seed, 0);
                rec.count_points(1);
                rec.op(1);
                rec.class(if d.accepted() {
                    "answered"
                } else if d == Dec::Rej {
                    "rejected-not-refused"
                } else {
                    "refused"
                });
                rec.obs(&format!("{}|check|bound|{}", S::NAME, d.short()));
                if d.accepted() {
                    rec.violation(&format!("C17/{}/check/unsupported-degree-bound", S::NAME), &id, format!("commitment made under bound {} verified under the unserved bound {} (key serves {:?}, supported {}): {}", m, b, served, s, d.short()));
                }
            }
        }
    }
}

/// `trim` requests whose enforced-bound list contains an unsupported bound at ANY position of the list
/// (every ordered list of length <= 2 over 0..=max+1): refused; lists within the limits: served.
pub fn trim_requests<S: Sch>(rec: &mut Rec) {
    let d = 3usize;
    for sup in 1..=d {
        let id = format!("{}/trim-requests/D={}/s={}", S::NAME, d, sup);
        if !rec.take(&id) {
            continue;
        }
        rec.dim("scheme", S::NAME);
        let limit = if S::NAME.starts_with("SON") { sup } else { d };
        let mut lists: Vec<Vec<usize>> = vec![vec![]];
        for a in 0..=(d + 1) {
            lists.push(vec![a]);
            for b in 0..=(d + 1) {
                lists.push(vec![a, b]);
            }
        }
        for l in lists {
            let cfg = KeyCfg::uni(d, sup, 1, Some(l.clone()));
            let r = build_keys::<S>(&cfg, rec.seed);
            let in_range = l.iter().all(|b| *b <= limit);
            if in_range {
                rec.count_points(1);
                rec.class(if r.is_ok() { "in-domain-served" } else { "in-domain-refused" });
                if let Err(o) = r {
                    rec.violation(&format!("C17/{}/trim/in-domain-refused", S::NAME), &id, format!("bounds {:?} (limit {}) refused: {}", l, limit, o.short()));
                }
            } else {
                refused(rec, S::NAME, "trim", "unsupported-degree-bound", &id, r.is_ok(), format!("trim served the enforced bounds {:?} although the largest servable bound is {}", l, limit));
            }
        }
    }
}

/// `open` handed a polynomial larger than the committer key supports (committed under a larger key cut
/// from the same parameters): no proof may come back, at any size between the two limits.
pub fn oversize_open<S: Sch>(rec: &mut Rec)
where
    S: crate::checks::c04::UniSch,
{
    let pairs: Vec<(KeyCfg, KeyCfg)> = if S::NAME == "IPA" {
        vec![(KeyCfg::uni(15, 15, 1, None), KeyCfg::uni(15, 7, 1, None)), (KeyCfg::uni(7, 7, 1, None), KeyCfg::uni(7, 3, 1, None)), (KeyCfg::uni(7, 7, 1, None), KeyCfg::uni(7, 1, 1, None))]
    } else {
        vec![(KeyCfg::uni(8, 8, 1, None), KeyCfg::uni(8, 5, 1, None)), (KeyCfg::uni(8, 8, 2, Some(vec![8])), KeyCfg::uni(8, 3, 2, Some(vec![3])))]
    };
    for (big_cfg, small_cfg) in pairs {
        let id = format!("{}/oversize-open/{}->{}", S::NAME, big_cfg.id(), small_cfg.id());
        if !rec.take(&id) {
            continue;
        }
        rec.dim("scheme", S::NAME);
        let (big, small) = match (build_keys::<S>(&big_cfg, rec.seed), build_keys::<S>(&small_cfg, rec.seed)) {
            (Ok(a), Ok(b)) => (a, b),
            _ => continue,
        };
        let (s_small, _) = crate::checks::c04::eff::<S>(&small_cfg);
        let (s_big, _) = crate::checks::c04::eff::<S>(&big_cfg);
        let r = rho_stream::<S::F>(rec.seed, 1, s_big + 2);
        let z = S::point(rho::<S::F>(rec.seed, 5));
        for deg in (s_small + 1)..=s_big {
            for h in [None, Some(1usize)] {
                let c = match commit_set::<S>(&big, vec![lp::<S>("p", S::poly(&r[..=deg]), None, h)], rec.seed, 0) {
                    Ok(c) => c,
                    Err(_) => continue,
                };
                let (polys, cmr, sts) = c.refs();
                let mut sponge = sponge_pre::<S::F>(0);
                let mut rng = seed_rng(rec.seed, 20);
                let res = do_open::<S>(&small.ck, &polys, &cmr, &z, &mut sponge, &sts, Some(&mut rng as &mut dyn RngCore));
                refused(rec, S::NAME, "open", "polynomial-too-large", &id, res.is_ok(), format!("a degree-{} polynomial (hiding {:?}) was opened under a committer key supporting degree {}", deg, h, s_small));
                // the commit side of the same request, for completeness of the boundary table
                let res = do_commit::<S>(&small.ck, &[lp::<S>("p", S::poly(&r[..=deg]), None, None)], None);
                refused(rec, S::NAME, "commit", "polynomial-too-large", &id, res.is_ok(), format!("degree {} committed under supported degree {}", deg, s_small));
                // the same for the sparse oversized shapes (monomial, low-order zeros): commit and open
                for (vn, v) in oversize_vectors::<S::F>(&r, deg, s_small).into_iter().skip(1) {
                    let res = do_commit::<S>(&small.ck, &[lp::<S>("p", S::poly(&v), None, None)], None);
                    refused(rec, S::NAME, "commit", "polynomial-too-large", &id, res.is_ok(), format!("degree {} ({}) committed under supported degree {}", deg, vn, s_small));
                    if let Ok(c) = commit_set::<S>(&big, vec![lp::<S>("p", S::poly(&v), None, h)], rec.seed, 0) {
                        let (polys, cmr, sts) = c.refs();
                        let mut sponge = sponge_pre::<S::F>(0);
                        let mut rng = seed_rng(rec.seed, 20);
                        let res = do_open::<S>(&small.ck, &polys, &cmr, &z, &mut sponge, &sts, Some(&mut rng as &mut dyn RngCore));
                        refused(rec, S::NAME, "open", "polynomial-too-large", &id, res.is_ok(), format!("a degree-{} polynomial ({}, hiding {:?}) was opened under a committer key supporting degree {}", deg, vn, h, s_small));
                    }
                }
            }
        }
    }
}

/// PST13: total degree and hiding bound around the key limits.
pub fn sizes_pst(rec: &mut Rec) {
    use ark_poly::DenseMVPolynomial;
    for cfg in [KeyCfg::mv(2, 3, 2), KeyCfg::mv(3, 2, 1), KeyCfg::mv(1, 4, 2), KeyCfg::mv(4, 2, 2)] {
        let id = format!("PST/sizes/{}", cfg.id());
        if !rec.take(&id) {
            continue;
        }
        rec.dim("scheme", "PST");
        let keys = match build_keys::<SPst>(&cfg, rec.seed) {
            Ok(k) => k,
            Err(_) => continue,
        };
        let nv = cfg.nv.unwrap();
        let r = rho_stream::<Fr381>(rec.seed, 1, 8);
        let mono = |d: usize, var: usize| -> MVP<Fr381> {
            use ark_poly::multivariate::{SparseTerm, Term};
            MVP::<Fr381>::from_coefficients_vec(nv, vec![(r[0], SparseTerm::new(vec![(var, d)])), (r[1], SparseTerm::new(vec![]))])
        };
        for d in [cfg.sup.saturating_sub(1).max(1), cfg.sup, cfg.sup + 1, cfg.max, cfg.max + 1] {
            for var in [0, nv - 1] {
                let res = do_commit::<SPst>(&keys.ck, &[lp::<SPst>("p", mono(d, var), None, None)], None);
                if d > cfg.sup {
                    refused(rec, "PST", "commit", "polynomial-too-large", &id, res.is_ok(), format!("total degree {} committed under supported degree {}", d, cfg.sup));
                } else {
                    rec.count_points(1);
                    rec.class(if res.is_ok() { "in-domain-served" } else { "in-domain-refused" });
                    if let Err(o) = res {
                        rec.violation("C17/PST/commit/in-domain-refused", &id, format!("total degree {} <= supported {} refused: {}", d, cfg.sup, o.short()));
                    }
                }
            }
        }
        for h in [1usize, cfg.sup.saturating_sub(1).max(1), cfg.sup, cfg.sup + 1, cfg.sup + 2, cfg.max + 1, cfg.max + nv + 2] {
            let mut rng = seed_rng(rec.seed, 0);
            let res = do_commit::<SPst>(&keys.ck, &[lp::<SPst>("p", mono(1, 0), None, Some(h))], Some(&mut rng as &mut dyn RngCore));
            if h > cfg.sup {
                refused(rec, "PST", "commit", "hiding-beyond-key", &id, res.is_ok(), format!("hiding bound {} served by a key supporting degree {}", h, cfg.sup));
            } else {
                rec.count_points(1);
                rec.class(if res.is_ok() { "in-domain-served" } else { "in-domain-refused" });
                if let Err(o) = res {
                    rec.violation("C17/PST/commit/in-domain-refused", &id, format!("hiding bound {} within the key limit {} refused: {}", h, cfg.sup, o.short()));
                }
            }
        }
    }
}

/// A verifier handed a point with the wrong number of coordinates (multilinear / multivariate schemes),
/// directly, with an honest proof for a well-formed point: never accepted.
pub fn check_wrong_point<S: Sch<Pt = Vec<<S as Sch>::F>>>(rec: &mut Rec) {
    let nv_key: usize = match S::NAME {
        "HYR" => 4,
        "PST" => 2,
        _ => 3,
    };
    let id = format!("{}/check-point-dimension/key-nv={}", S::NAME, nv_key);
    if !rec.take(&id) {
        return;
    }
    rec.dim("scheme", S::NAME);
    let mk = |nv: usize| if S::NAME == "PST" { KeyCfg::mv(nv, 2, 2) } else { KeyCfg::ml(nv) };
    let cfg = mk(nv_key);
    let keys = match build_keys::<S>(&cfg, rec.seed) {
        Ok(k) => k,
        Err(_) => return,
    };
    let p = S::shapes(&cfg, rec.seed).pop().unwrap().1;
    let c = match commit_set::<S>(&keys, vec![lp::<S>("p", p, None, None)], rec.seed, 0) {
        Ok(c) => c,
        Err(_) => return,
    };
    let z = S::points(&cfg, rec.seed)[0].1.clone();
    let s1 = match open_single::<S>(&keys, &c, &[0], &z, 0, rec.seed, 0) {
        Ok(s) => s,
        Err(_) => return,
    };
    let cr: Vec<&LCm<S>> = c.comms.iter().collect();
    let base = check_single::<S>(&keys, &cr, &z, &s1.values, &s1.proof, 0, rec.seed, 0);
    rec.count_points(1);
    rec.class(if base.accepted() { "baseline-accepted" } else { "baseline-rejected" });
    for onv in 0..=(nv_key + 2) {
        if onv == nv_key {
            continue;
        }
        if onv == 0 && S::NAME != "HYR" {
            continue;
        }
        for pi in 0..2usize {
            let zs = S::points(&mk(onv.max(1)), rec.seed);
            let mut zo = zs[pi.min(zs.len() - 1)].1.clone();
            if onv == 0 {
                zo = S::points(&KeyCfg::ml(0), rec.seed)[0].1.clone();
            }
            let d = check_single::<S>(&keys, &cr, &zo, &s1.values, &s1.proof, 0, rec.seed, 0);
            // a point that merely appends coordinates to the proved point states something true about the
            // polynomial read in more variables; ignoring the extra coordinates is not a wrong result.
            // Anything else that is accepted, and any false value, is.
            let extends = zo.len() > z.len() && zo[..z.len()] == z[..];
            if d.accepted() && extends {
                rec.count_points(1);
                rec.class("extra-coordinates-ignored");
            } else {
                refused(rec, S::NAME, "check", "point-of-wrong-length", &id, d.accepted(), format!("honest proof for a {}-coordinate point accepted at a point with {} coordinates that does not extend it", nv_key, onv));
            }
            let mut vf = s1.values.clone();
            vf[0] += S::F::one();
            let df = check_single::<S>(&keys, &cr, &zo, &vf, &s1.proof, 0, rec.seed, 0);
            refused(rec, S::NAME, "check", "point-of-wrong-length-false-value", &id, df.accepted(), format!("false value accepted at a point with {} coordinates (key: {} variables)", onv, nv_key));
            // and the prover's side for every length (even lengths included)
            let r = open_single::<S>(&keys, &c, &[0], &zo, 0, rec.seed, 0);
            if let Ok(s2) = r {
                if s2.undefined {
                    // the polynomial type itself cannot be evaluated at this point: there is no claim a proof could
                    // be about, the request is outside the domain of every scheme over this polynomial type
                    refused(rec, S::NAME, "open", "point-the-polynomial-cannot-be-evaluated-at", &id, true, format!("point with {} coordinates for a polynomial in {} variables (its own `evaluate` refuses the point): a proof was produced", onv, nv_key));
                    continue;
                }
                let mut v2 = s2.values.clone();
                v2[0] += S::F::one();
                let f = check_single::<S>(&keys, &cr, &zo, &v2, &s2.proof, 0, rec.seed, 0);
                refused(rec, S::NAME, "open", "point-of-wrong-length", &id, f.accepted(), format!("point with {} coordinates for {} variables: a proof was produced and a false value verifies", onv, nv_key));
            } else {
                refused(rec, S::NAME, "open", "point-of-wrong-length", &id, false, String::new());
            }
        }
    }
}

/// Linear codes: degrees beyond what the field's FFT domain supports, at setup, trim and commit.
pub fn linear_code_limits(rec: &mut Rec) {
    use ark_poly_commit::linear_codes::LigeroPCParams;
    let id = "LIG/field-limits".to_string();
    if !rec.take(&id) {
        return;
    }
    rec.dim("scheme", "LIG");
    let mut rng = seed_rng(rec.seed, 10);
    // BLS12-381 Fr has two-adicity 32: with rho_inv = 4 the largest supported degree is 2^56
    for d in [1usize << 57, usize::MAX] {
        let r = flat(catch(|| Lig::setup(d, None, &mut rng)));
        refused(rec, "LIG", "setup", "degree-beyond-field", &id, r.is_ok(), format!("setup({}) succeeded", d));
    }
    let r = flat(catch(|| Lig::setup(1 << 56, None, &mut rng)));
    rec.count_points(1);
    rec.class(if r.is_ok() { "in-domain-served" } else { "in-domain-refused" });
    if let Err(o) = r {
        rec.violation("C17/LIG/setup/in-domain-refused", &id, format!("setup(2^56) refused: {}", o.short()));
    }
    // rate so small that no FFT domain fits: trim must refuse, commit must not answer
    let pp: <Lig as PolynomialCommitment<Fr381, UP<Fr381>>>::UniversalParams = LigeroPCParams::new(128, 33, true, (), (), ());
    let r = flat(catch(|| Lig::trim(&pp, 1, 1, None)));
    refused(rec, "LIG", "trim", "rate-beyond-field", &id, r.is_ok(), "trim of parameters with rho_inv = 33 > two-adicity succeeded".into());
}

/// Wrong numbers of variables for the multilinear / multivariate schemes.
pub fn variables<S: Sch>(rec: &mut Rec) {
    let sets: Vec<(usize, Vec<usize>)> = match S::NAME {
        // Hyrax keys have 2^(nv/2) generators: polynomials with MORE variables than the key whose rows are still no
        // longer than the generator list of a larger key class are a case of their own (6 -> 8, 8 -> 10..16)
        "HYR" => vec![(4, vec![2, 6, 3]), (6, vec![8, 4, 10]), (8, vec![10, 12])],
        "PST" => vec![(2, vec![3])],
        _ => vec![(3, vec![2, 4, 5])],
    };
    for (nv_key, others) in sets {
        variables_for::<S>(rec, nv_key, others);
    }
}

fn variables_for<S: Sch>(rec: &mut Rec, nv_key: usize, others: Vec<usize>) {
    let id = format!("{}/variables/key-nv={}", S::NAME, nv_key);
    if !rec.take(&id) {
        return;
    }
    rec.dim("scheme", S::NAME);
    let cfg = if S::NAME == "PST" { KeyCfg::mv(nv_key, 2, 2) } else { KeyCfg::ml(nv_key) };
    let keys = match build_keys::<S>(&cfg, rec.seed) {
        Ok(k) => k,
        Err(_) => return,
    };
    for nv in others {
        let ocfg = if S::NAME == "PST" { KeyCfg::mv(nv, 2, 2) } else { KeyCfg::ml(nv) };
        let p = S::shapes(&ocfg, rec.seed).pop().unwrap().1;
        let z = S::points(&ocfg, rec.seed)[0].1.clone();
        let lpoly = lp::<S>("p", p.clone(), None, None);
        let mut rng = seed_rng(rec.seed, 0);
        match do_commit::<S>(&keys.ck, &[lpoly.clone()], Some(&mut rng as &mut dyn RngCore)) {
            Err(_) => refused(rec, S::NAME, "commit", "wrong-number-of-variables", &id, false, String::new()),
            Ok((cm, st)) => {
                // a commitment came back: the request must then be honoured end to end, a wrong result is the violation
                let cset = Committed::<S> { polys: vec![lpoly], comms: cm, states: st };
                let outcome = match open_single::<S>(&keys, &cset, &[0], &z, 0, rec.seed, 0) {
                    Err(_) => "refused-at-open",
                    Ok(s1) => {
                        let cr: Vec<&LCm<S>> = cset.comms.iter().collect();
                        let t = check_single::<S>(&keys, &cr, &z, &s1.values, &s1.proof, 0, rec.seed, 0);
                        let mut v2 = s1.values.clone();
                        v2[0] += S::F::one();
                        let f = check_single::<S>(&keys, &cr, &z, &v2, &s1.proof, 0, rec.seed, 0);
                        if f.accepted() {
                            "false-value-accepted"
                        } else if t.accepted() {
                            "served-correctly"
                        } else {
                            "served-but-unverifiable"
                        }
                    }
                };
                // a served request must still be binding: a polynomial that differs in its LAST evaluation only may not
                // get the same commitment (same RNG seed, so equal blinding)
                if S::FAM == Fam::Ml {
                    let last = format!("e{}", (1usize << nv) - 1);
                    if let Some((_, e_last)) = S::shapes(&ocfg, rec.seed).into_iter().find(|(n, _)| *n == last) {
                        let p2 = S::lincomb(S::F::one(), &p, S::F::one(), &e_last);
                        let mut rng = seed_rng(rec.seed, 0);
                        if let Ok((cm2, _)) = do_commit::<S>(&keys.ck, &[lp::<S>("p", p2, None, None)], Some(&mut rng as &mut dyn RngCore)) {
                            if ser(cm2[0].commitment()) == ser(cset.comms[0].commitment()) {
                                rec.violation(&format!("C17/{}/commit/wrong-number-of-variables", S::NAME), &id, format!("a {}-variable polynomial under a {}-variable key was committed, and a polynomial that differs in its last evaluation gets the same commitment (part of the polynomial is ignored)", nv, nv_key));
                            }
                        }
                    }
                }
                rec.count_points(1);
                rec.class(&format!("nv-mismatch-{}", outcome));
                rec.obs(&format!("{}|nv|{}|{}", S::NAME, nv, outcome));
                if outcome == "false-value-accepted" || outcome == "refused-at-open" && false {
                    rec.violation(&format!("C17/{}/commit/wrong-number-of-variables", S::NAME), &id, format!("a {}-variable polynomial under a {}-variable key was committed and a false value verifies", nv, nv_key));
                }
                if outcome == "served-but-unverifiable" || outcome == "refused-at-open" {
                    // a commitment to something that can never be opened is a wrong result for an out-of-domain request
                    rec.violation(&format!("C17/{}/commit/wrong-number-of-variables", S::NAME), &id, format!("a {}-variable polynomial under a {}-variable key was committed instead of refused ({})", nv, nv_key, outcome));
                }
            }
        }
    }
    // a point with the wrong number of coordinates
    let p = S::shapes(&cfg, rec.seed).pop().unwrap().1;
    if let Ok(c) = commit_set::<S>(&keys, vec![lp::<S>("p", p, None, None)], rec.seed, 0) {
        for onv in [nv_key - 1, nv_key + 1] {
            let ocfg = if S::NAME == "PST" { KeyCfg::mv(onv, 2, 2) } else { KeyCfg::ml(onv) };
            let z = S::points(&ocfg, rec.seed)[0].1.clone();
            let r = open_single::<S>(&keys, &c, &[0], &z, 0, rec.seed, 0);
            match r {
                Err(_) => refused(rec, S::NAME, "open", "point-of-wrong-length", &id, false, String::new()),
                Ok(s1) if s1.undefined => refused(rec, S::NAME, "open", "point-the-polynomial-cannot-be-evaluated-at", &id, true, format!("point with {} coordinates for a polynomial in {} variables (its own `evaluate` refuses the point): a proof was produced", onv, nv_key)),
                Ok(s1) => {
                    let cr: Vec<&LCm<S>> = c.comms.iter().collect();
                    let d = check_single::<S>(&keys, &cr, &z, &s1.values, &s1.proof, 0, rec.seed, 0);
                    // a proof for a malformed point must at least not verify a false value
                    let mut v2 = s1.values.clone();
                    v2[0] += S::F::one();
                    let f = check_single::<S>(&keys, &cr, &z, &v2, &s1.proof, 0, rec.seed, 0);
                    refused(rec, S::NAME, "open", "point-of-wrong-length", &id, f.accepted(), format!("point with {} coordinates for {} variables: proof produced, true value {}, false value {}", onv, nv_key, d.short(), f.short()));
                }
            }
        }
    }
    rec.sample(&format!("{}-vars", S::NAME), id.clone());
}

/// Mismatched labels between polynomials and commitments (schemes whose prover reads the commitments).
pub fn labels<S: Sch>(rec: &mut Rec) {
    let id = format!("{}/labels", S::NAME);
    if !rec.take(&id) {
        return;
    }
    rec.dim("scheme", S::NAME);
    let cfg = slice_b::<S>();
    let keys = match build_keys::<S>(&cfg, rec.seed) {
        Ok(k) => k,
        Err(_) => return,
    };
    let c = match commit_set::<S>(&keys, slice_b_polys::<S>(&cfg, rec.seed), rec.seed, 0) {
        Ok(c) => c,
        Err(_) => return,
    };
    let z = slice_b_labels::<S>(&cfg, rec.seed)[0].1.clone();
    let wrong = LabeledCommitment::new("other".to_string(), c.comms[0].commitment().clone(), c.comms[0].degree_bound());
    let mut sponge = sponge_pre::<S::F>(0);
    let mut rng = seed_rng(rec.seed, 20);
    let r = do_open::<S>(&keys.ck, &[&c.polys[0]], &[&wrong], &z, &mut sponge, &[&c.states[0]], Some(&mut rng as &mut dyn RngCore));
    refused(rec, S::NAME, "open", "mismatched-labels", &id, r.is_ok(), "open answered although the commitment's label differs from the polynomial's".into());
}

pub fn setups(rec: &mut Rec) {
    let id = "setup/degenerate".to_string();
    if !rec.take(&id) {
        return;
    }
    rec.dim("scheme", "setup");
    let mut rng = seed_rng(rec.seed, 10);
    let r = flat(catch(|| Kzg::setup(0, false, &mut rng)));
    refused(rec, "KZG", "setup", "zero-degree", &id, r.is_ok(), "KZG10::setup(0) succeeded".into());
    let r = flat(catch(|| Mar::setup(0, None, &mut rng)));
    refused(rec, "MAR", "setup", "zero-degree", &id, r.is_ok(), "setup(0) succeeded".into());
    let r = flat(catch(|| Son::setup(0, None, &mut rng)));
    refused(rec, "SON", "setup", "zero-degree", &id, r.is_ok(), "setup(0) succeeded".into());
    for (d, nv) in [(0usize, Some(2usize)), (2, Some(0)), (2, None)] {
        let r = flat(catch(|| Pst::setup(d, nv, &mut rng)));
        refused(rec, "PST", "setup", "zero-degree-or-variables", &id, r.is_ok(), format!("setup({}, {:?}) succeeded", d, nv));
    }
    let r = catch(|| Mlp::setup(0, &mut rng));
    refused(rec, "MLP", "setup", "zero-variables", &id, r.is_ok(), "setup(0) succeeded".into());
    let r = flat(catch(|| Hyr::setup(1, None, &mut rng)));
    refused(rec, "HYR", "setup", "missing-variables", &id, r.is_ok(), "setup(None) succeeded".into());
    let r = flat(catch(|| Hyr::setup(1, Some(3), &mut rng)));
    refused(rec, "HYR", "setup", "odd-variables", &id, r.is_ok(), "setup(3 variables) succeeded".into());
    let r = flat(catch(|| Brk::setup(1, None, &mut rng)));
    refused(rec, "BRK", "setup", "missing-variables", &id, r.is_ok(), "setup(None) succeeded".into());
    // IPA with max_degree 0: either refused or a correct zero-round scheme
    rec.count_points(1);
    match build_keys::<SIpa>(&KeyCfg::uni(0, 0, 1, None), rec.seed) {
        Err(_) => rec.class("ipa-degree0-refused"),
        Ok(keys) => {
            rec.class("ipa-degree0-served");
            let p = lp::<SIpa>("p", UP::<FrJ>::from_coefficients_slice(&[rho::<FrJ>(rec.seed, 1)]), None, None);
            if let Ok(c) = commit_set::<SIpa>(&keys, vec![p], rec.seed, 0) {
                let z = rho::<FrJ>(rec.seed, 2);
                if let Ok(s1) = open_single::<SIpa>(&keys, &c, &[0], &z, 0, rec.seed, 0) {
                    let cr: Vec<&LCm<SIpa>> = c.comms.iter().collect();
                    let t = check_single::<SIpa>(&keys, &cr, &z, &s1.values, &s1.proof, 0, rec.seed, 0).accepted();
                    let f = check_single::<SIpa>(&keys, &cr, &z, &[s1.values[0] + FrJ::one()], &s1.proof, 0, rec.seed, 0).accepted();
                    if !t || f {
                        rec.violation("C17/IPA/setup/zero-degree-wrong-result", &id, format!("max_degree 0 served with a scheme where true accepted = {}, false accepted = {}", t, f));
                    }
                }
            }
        }
    }
}

/// The non-trait APIs.
pub fn special(rec: &mut Rec) {
    let id = "special/sizes".to_string();
    if !rec.take(&id) {
        return;
    }
    rec.dim("scheme", "special");
    let r = rho_stream::<Fr381>(rec.seed, 1, 12);
    // KZG10 direct: polynomial larger than the powers; hiding beyond the gamma powers
    let pp = kzg_setup(6, false, rec.seed, 0);
    let powers = kzg_powers(&pp, 4, 3);
    for deg in [2usize, 3, 4, 5] {
        let p = UP::<Fr381>::from_coefficients_slice(&r[..=deg]);
        let res = flat(catch(|| Kzg::commit(&powers, &p, None, None)));
        if deg > 3 {
            refused(rec, "KZG", "commit", "polynomial-too-large", &id, res.is_ok(), format!("degree {} committed with 4 powers", deg));
            for (vn, v) in oversize_vectors::<Fr381>(&r, deg, 3).into_iter().skip(1) {
                for h in [None, Some(1usize)] {
                    let mut rng = seed_rng(rec.seed, 0);
                    let p = UP::<Fr381>::from_coefficients_slice(&v);
                    let res = flat(catch(|| Kzg::commit(&powers, &p, h, Some(&mut rng as &mut dyn RngCore))));
                    refused(rec, "KZG", "commit", "polynomial-too-large", &id, res.is_ok(), format!("degree {} ({}, hiding {:?}) committed with 4 powers", deg, vn, h));
                }
            }
        } else if res.is_err() {
            rec.violation("C17/KZG/commit/in-domain-refused", &id, format!("degree {} refused with 4 powers", deg));
        }
    }
    for h in [1usize, 2, 3, 6] {
        let p = UP::<Fr381>::from_coefficients_slice(&r[..3]);
        let mut rng = seed_rng(rec.seed, 0);
        let res = flat(catch(|| Kzg::commit(&powers, &p, Some(h), Some(&mut rng as &mut dyn RngCore))));
        if h + 2 > 3 {
            refused(rec, "KZG", "commit", "hiding-beyond-key", &id, res.is_ok(), format!("hiding bound {} served with 3 gamma powers", h));
        } else if res.is_err() {
            rec.violation("C17/KZG/commit/in-domain-refused", &id, format!("hiding bound {} refused with 3 gamma powers", h));
        }
    }
    // MultilinearPC: polynomial with another number of variables
    let mut rng = seed_rng(rec.seed, 10);
    let mpp = Mlp::setup(3, &mut rng);
    let (ck, vk) = Mlp::trim(&mpp, 3);
    for nv in [2usize, 4] {
        let p = crate::sch::ml_shapes::<Fr381>(nv, rec.seed).pop().unwrap().1;
        let z = crate::sch::ml_points::<Fr381>(nv, rec.seed)[0].1.clone();
        let res = catch(|| Mlp::commit(&ck, &p));
        match res {
            Err(_) => refused(rec, "MLP", "commit", "wrong-number-of-variables", &id, false, String::new()),
            Ok(c) => {
                let opened = catch(|| Mlp::open(&ck, &p, &z));
                let usable = match &opened {
                    Ok(pf) => mlp_check(&vk, &c, &z, p.evaluate(&z), pf).accepted(),
                    Err(_) => false,
                };
                refused(rec, "MLP", "commit", "wrong-number-of-variables", &id, !usable, format!("a {}-variable polynomial was committed under a 3-variable key (silently truncated or padded) although it can never be opened", nv));
            }
        }
    }
    // MultilinearPC: a point with the wrong number of coordinates (0..=nv+2, shorter and longer), for polynomials that do
    // and do not depend on the last variables: `open` must refuse; should a proof come back anyway, `check` may not return
    // true for it (neither for the proof as returned nor for an honest full proof cut to the point's length)
    {
        let nv = 4usize;
        let mut rng = seed_rng(rec.seed, 10);
        let mpp = Mlp::setup(nv, &mut rng);
        let (ck, vk) = Mlp::trim(&mpp, nv);
        let full_pts = crate::sch::ml_points::<Fr381>(nv, rec.seed);
        let shapes = crate::sch::ml_shapes::<Fr381>(nv, rec.seed);
        let mut polys: Vec<(String, MLE<Fr381>)> = shapes.iter().filter(|(n, _)| n == "const" || n == "dense" || n == "e1").cloned().collect();
        // a polynomial that ignores its last two variables (evaluation table = four copies of a quarter)
        let quarter = rho_stream::<Fr381>(rec.seed, 55, 4);
        let lifted: Vec<Fr381> = (0..16).map(|i| quarter[i % 4]).collect();
        polys.push(("ignores-last-two".into(), MLE::<Fr381>::from_evaluations_vec(nv, lifted)));
        for (pname, p) in polys.iter() {
            let c = match catch(|| Mlp::commit(&ck, p)) {
                Ok(c) => c,
                Err(_) => continue,
            };
            let honest = catch(|| Mlp::open(&ck, p, &full_pts[0].1)).ok();
            for len in [0usize, 1, 2, 3, 5, 6] {
                let mut z: Vec<Fr381> = full_pts[0].1.iter().cloned().take(len).collect();
                while z.len() < len {
                    z.push(rho::<Fr381>(rec.seed, 60 + z.len()));
                }
                // the value the shortened / lengthened request could at best mean: p at the full point
                let v = p.evaluate(&full_pts[0].1);
                if len > nv {
                    // coordinates appended to a full point: like PST13 (section 9, "not findings") the scheme reads the first nv
                    // coordinates and ignores the rest; the claim it accepts is true of the polynomial, so only a FALSE value
                    // accepted there is a violation
                    if let Ok(pf) = catch(|| Mlp::open(&ck, p, &z)) {
                        let dt = mlp_check(&vk, &c, &z, v, &pf);
                        let df = mlp_check(&vk, &c, &z, v + Fr381::one(), &pf);
                        rec.count_points(1);
                        rec.class(if dt.accepted() { "extra-coordinates-ignored" } else { "refused" });
                        if df.accepted() {
                            rec.violation("C17/MLP/open/point-of-wrong-length", &id, format!("polynomial '{}': a false value verifies at a point with {} coordinates", pname, len));
                        }
                    } else {
                        refused(rec, "MLP", "open", "point-of-wrong-length", &id, false, String::new());
                    }
                    continue;
                }
                match catch(|| Mlp::open(&ck, p, &z)) {
                    Err(_) => refused(rec, "MLP", "open", "point-of-wrong-length", &id, false, String::new()),
                    Ok(pf) => {
                        let d = mlp_check(&vk, &c, &z, v, &pf);
                        refused(rec, "MLP", "open", "point-of-wrong-length", &id, d.accepted(), format!("polynomial '{}' ({} variables) opened at a point with {} coordinates and the proof verifies: {}", pname, nv, len, d.short()));
                    }
                }
                if let Some(h) = &honest {
                    let mut cut = h.clone();
                    cut.proofs.truncate(len);
                    let d = mlp_check(&vk, &c, &z, v, &cut);
                    refused(rec, "MLP", "check", "point-of-wrong-length", &id, d.accepted(), format!("polynomial '{}': an honest proof cut to {} elements verifies at a point with {} coordinates: {}", pname, len, len, d.short()));
                }
            }
        }
    }
    // streaming KZG: polynomial longer than the key
    let sck = str_key(4, 2, rec.seed);
    let vk = SVk::from(&sck);
    for (len, variant) in [(5usize, 0usize), (6, 0), (9, 0), (6, 1), (9, 1), (6, 2), (9, 2)] {
        let mut coeffs = r[..len].to_vec();
        if variant == 1 {
            // low-order zeros: the non-zero tail alone would fit the key
            for i in 0..(len - 5) {
                coeffs[i] = Fr381::zero();
            }
        } else if variant == 2 {
            coeffs = vec![Fr381::zero(); len];
            coeffs[len - 1] = Fr381::one();
        }
        let res = catch(|| sck.commit(&coeffs));
        match res {
            Err(_) => refused(rec, "STR", "commit", "polynomial-too-large", &id, false, String::new()),
            Ok(c) => {
                let z = rho::<Fr381>(rec.seed, 2);
                let usable = match catch(|| sck.open(&coeffs, &z)) {
                    Ok((v, pf)) => v == crate::refm::horner(&coeffs, z) && str_verify(&vk, &c, &z, &v, &pf).accepted(),
                    Err(_) => false,
                };
                if len > 5 {
                    refused(rec, "STR", "commit", "polynomial-too-large", &id, !usable, format!("{} coefficients were committed with a key of 5 powers (the tail is silently dropped)", len));
                }
            }
        }
        let stream = skzg_stream(&sck);
        let rev: Vec<Fr381> = coeffs.iter().rev().cloned().collect();
        let res = catch(|| stream.commit(&rev.as_slice()));
        if len > 5 {
            refused(rec, "STR", "space-commit", "polynomial-too-large", &id, res.is_ok(), format!("{} coefficients were committed by the space-efficient committer with a key of 5 powers", len));
        }
    }
}

fn skzg_stream(ck: &SCk) -> ark_poly_commit::streaming_kzg::CommitterKeyStream<E381, ark_std::iterable::Reverse<&[<E381 as ark_ec::pairing::Pairing>::G1Affine]>> {
    ark_poly_commit::streaming_kzg::CommitterKeyStream::from(ck)
}

/// Combinations with an inconsistent degree bound: every ORDER of two or three distinct terms over an unbounded
/// polynomial `u`, two polynomials `a`, `b` committed under one bound and a polynomial `c` committed under another
/// bound (coefficients 1), and the scaled single terms `r*a`: the bound of the combination is undefined, prover and
/// verifier must refuse.  The prover side must not return a proof; the verifier side is driven with the proof of the
/// in-domain combination `1*u` under the same label and the true value of the mixed combination.
pub fn combination_bounds<S: Sch<Pt = <S as Sch>::F>>(rec: &mut Rec)
where
    S::P: DenseUVPolynomial<S::F>,
{
    let cfg = if S::NAME == "IPA" { KeyCfg::uni(7, 7, 1, None) } else { KeyCfg::uni(7, 6, 1, Some(vec![3, 5])) };
    let keys = match build_keys::<S>(&cfg, rec.seed) {
        Ok(k) => k,
        Err(_) => return,
    };
    let r = rho_stream::<S::F>(rec.seed, 71, 12);
    let mk = |i: usize| S::P::from_coefficients_slice(&r[3 * i..3 * i + 3]);
    let polys: Vec<LP<S>> = vec![lp::<S>("u", mk(0), None, None), lp::<S>("a", mk(1), Some(3), None), lp::<S>("b", mk(2), Some(3), None), lp::<S>("c", mk(3), Some(5), None)];
    let c = match commit_set::<S>(&keys, polys, rec.seed, 0) {
        Ok(c) => c,
        Err(_) => return,
    };
    let (pr, cr, sr) = c.refs();
    let z = rho::<S::F>(rec.seed, 3);
    let names = ["u", "a", "b", "c"];
    let mut lists: Vec<Vec<(S::F, usize)>> = Vec::new();
    for i in 0..4 {
        for j in 0..4 {
            if i != j {
                if i != 0 || j != 0 {
                    lists.push(vec![(S::F::one(), i), (S::F::one(), j)]);
                }
                for k in 0..4 {
                    if k != i && k != j {
                        lists.push(vec![(S::F::one(), i), (S::F::one(), j), (S::F::one(), k)]);
                    }
                }
            }
        }
    }
    for i in 1..4 {
        lists.push(vec![(r[11], i)]);
    }
    // the in-domain proof the verifier side is driven with
    let mut qs = QuerySet::new();
    qs.insert(("lc".to_string(), ("z".to_string(), z)));
    let mut plain = LinearCombination::<S::F>::empty("lc");
    plain.push((S::F::one(), "u".into()));
    let mut sponge = sponge_pre::<S::F>(0);
    let mut rng = seed_rng(rec.seed, 20);
    let plain_proof = do_open_comb::<S>(&keys.ck, &[plain], &pr, &cr, &qs, &mut sponge, &sr, Some(&mut rng as &mut dyn RngCore)).ok();
    for terms in lists {
        let desc: Vec<String> = terms.iter().map(|(cf, i)| format!("{}*{}", if cf.is_one() { "1" } else { "r" }, names[*i])).collect();
        let id = format!("{}/combination-bounds/{}", S::NAME, desc.join("+"));
        if !rec.take(&id) {
            continue;
        }
        rec.dim("scheme", S::NAME);
        let mut lc = LinearCombination::<S::F>::empty("lc");
        let mut value = S::F::zero();
        for (cf, i) in terms.iter() {
            lc.push((*cf, names[*i].into()));
            value += *cf * c.polys[*i].polynomial().evaluate(&z);
        }
        let mut sponge = sponge_pre::<S::F>(0);
        let mut rng = seed_rng(rec.seed, 20);
        let opened = do_open_comb::<S>(&keys.ck, &[lc.clone()], &pr, &cr, &qs, &mut sponge, &sr, Some(&mut rng as &mut dyn RngCore));
        refused(rec, S::NAME, "open_combinations", "inconsistent-bound", &id, opened.is_ok(), format!("combination {} of an unbounded polynomial, polynomials under bound 3 and a polynomial under bound 5 was opened", desc.join(" + ")));
        let mut ev: Evaluations<S::Pt, S::F> = Evaluations::new();
        ev.insert(("lc".to_string(), z), value);
        for (which, proof) in [("own", opened.ok()), ("of-plain-combination", plain_proof.clone())] {
            if let Some(pf) = proof {
                let mut sponge = sponge_pre::<S::F>(0);
                let mut rng = seed_rng(rec.seed, 40);
                let d = do_check_comb::<S>(&keys.vk, &[lc.clone()], &cr, &qs, &ev, &pf, &mut sponge, &mut rng);
                refused(rec, S::NAME, "check_combinations", "inconsistent-bound", &id, d.accepted(), format!("combination {} accepted by the verifier (proof: {})", desc.join(" + "), which));
            }
        }
    }
}

pub fn run(rec: &mut Rec) {
    crate::for_each_scheme!(S, {
        lookups::<S>(rec);
    });
    sizes_uni::<SMar>(rec);
    sizes_uni::<SSon>(rec);
    sizes_uni::<SIpa>(rec);
    degree_bounds::<SMar>(rec);
    degree_bounds::<SSon>(rec);
    degree_bounds::<SIpa>(rec);
    trim_requests::<SMar>(rec);
    trim_requests::<SSon>(rec);
    combination_bounds::<SMar>(rec);
    combination_bounds::<SSon>(rec);
    combination_bounds::<SIpa>(rec);
    oversize_open::<SMar>(rec);
    oversize_open::<SSon>(rec);
    oversize_open::<SIpa>(rec);
    sizes_pst(rec);
    check_wrong_point::<SPst>(rec);
    check_wrong_point::<SHyr>(rec);
    check_wrong_point::<SMll>(rec);
    check_wrong_point::<SBrk>(rec);
    linear_code_limits(rec);
    variables::<SPst>(rec);
    variables::<SHyr>(rec);
    variables::<SMll>(rec);
    variables::<SBrk>(rec);
    labels::<SIpa>(rec);
    labels::<SHyr>(rec);
    setups(rec);
    special(rec);
}
