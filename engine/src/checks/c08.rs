//! C08 — commitments are the key-defined linear map of the polynomial (homomorphic); hash-based
//! commitments equal an independent recomputation of the Merkle root.
use crate::alpha::*;
use crate::mirror::*;
use crate::rec::Rec;
use crate::refm::*;
use crate::sch::*;
use crate::schemes::*;
use crate::special::*;
use crate::tr::*;
use crate::util::*;
use ark_crypto_primitives::merkle_tree::MerkleTree;
use ark_ec::pairing::Pairing;
use ark_ec::{AffineRepr, CurveGroup};
use ark_ff::{Field, One, PrimeField, Zero};
use ark_poly::multivariate::{SparseTerm, Term};
use ark_poly::{DenseMVPolynomial, DenseUVPolynomial, MultilinearExtension, Polynomial};
use ark_poly_commit::linear_codes::{LinCodeParametersInfo, LinearEncode};
use ark_poly_commit::streaming_kzg as skzg;
use ark_poly_commit::{ipa_pc, kzg10, marlin_pc};
use ark_std::iterable::Reverse;
use ark_std::rand::RngCore;
use std::collections::BTreeMap;

/// {0,1,-1,r1}^len for len in 1..=max_len (index vectors; 0 = zero coefficient).
pub fn coeff_vectors<F: PrimeField>(seed: u64, max_len: usize) -> Vec<(String, Vec<F>)> {
    let alpha = [("0", F::zero()), ("1", F::one()), ("-1", -F::one()), ("r", rho::<F>(seed, 1))];
    let mut out = vec![("[]".to_string(), vec![])];
    for len in 1..=max_len {
        let total = 4usize.pow(len as u32);
        for code in 0..total {
            let mut v = Vec::new();
            let mut name = String::from("[");
            let mut c = code;
            for k in 0..len {
                let a = &alpha[c % 4];
                c /= 4;
                v.push(a.1);
                if k > 0 {
                    name.push(',');
                }
                name.push_str(a.0);
            }
            name.push(']');
            out.push((name, v));
        }
    }
    out
}

pub trait LinMap: Sch {
    /// Build the polynomial with the given coefficient (or evaluation) vector.
    fn poly_from(v: &[Self::F], cfg: &KeyCfg) -> Self::P;
    /// Expected non-hiding commitment from the published key elements (naive sums only).
    fn expected(keys: &Keys<Self>, p: &LP<Self>) -> Result<Cm<Self>, String>;
    /// a*ca + b*cb on commitments.
    fn comb(a: Self::F, ca: &Cm<Self>, b: Self::F, cb: &Cm<Self>) -> Cm<Self>;
    fn is_identity(c: &Cm<Self>) -> bool;
}

type G1A = <E381 as Pairing>::G1Affine;

fn lin2<G: AffineRepr>(a: G::ScalarField, x: &G, b: G::ScalarField, y: &G) -> G {
    (naive_mul(x, &a) + naive_mul(y, &b)).into_affine()
}

impl LinMap for SMar {
    fn poly_from(v: &[Fr381], _cfg: &KeyCfg) -> UP<Fr381> {
        UP::<Fr381>::from_coefficients_slice(v)
    }
    fn expected(keys: &Keys<Self>, p: &LP<Self>) -> Result<Cm<Self>, String> {
        let pp = &keys.pp;
        let d_max = pp.powers_of_g.len() - 1;
        let c = &p.polynomial().coeffs;
        let comm = naive_msm(&pp.powers_of_g[..c.len()], c).into_affine();
        let shifted = match p.degree_bound() {
            Some(d) => {
                let w: Vec<G1A> = (0..c.len()).map(|i| pp.powers_of_g[d_max - d + i]).collect();
                Some(kzg10::Commitment(naive_msm(&w, c).into_affine()))
            }
            None => None,
        };
        Ok(marlin_pc::Commitment { comm: kzg10::Commitment(comm), shifted_comm: shifted })
    }
    fn comb(a: Fr381, ca: &Cm<Self>, b: Fr381, cb: &Cm<Self>) -> Cm<Self> {
        marlin_pc::Commitment {
            comm: kzg10::Commitment(lin2(a, &ca.comm.0, b, &cb.comm.0)),
            shifted_comm: match (&ca.shifted_comm, &cb.shifted_comm) {
                (Some(x), Some(y)) => Some(kzg10::Commitment(lin2(a, &x.0, b, &y.0))),
                _ => None,
            },
        }
    }
    fn is_identity(c: &Cm<Self>) -> bool {
        c.comm.0.is_zero() && c.shifted_comm.map(|s| s.0.is_zero()).unwrap_or(true)
    }
}

impl LinMap for SSon {
    fn poly_from(v: &[Fr381], _cfg: &KeyCfg) -> UP<Fr381> {
        UP::<Fr381>::from_coefficients_slice(v)
    }
    fn expected(keys: &Keys<Self>, p: &LP<Self>) -> Result<Cm<Self>, String> {
        let pp = &keys.pp;
        let d_max = pp.powers_of_g.len() - 1;
        let c = &p.polynomial().coeffs;
        let off = p.degree_bound().map(|d| d_max - d).unwrap_or(0);
        let w: Vec<G1A> = (0..c.len()).map(|i| pp.powers_of_g[off + i]).collect();
        Ok(kzg10::Commitment(naive_msm(&w, c).into_affine()))
    }
    fn comb(a: Fr381, ca: &Cm<Self>, b: Fr381, cb: &Cm<Self>) -> Cm<Self> {
        kzg10::Commitment(lin2(a, &ca.0, b, &cb.0))
    }
    fn is_identity(c: &Cm<Self>) -> bool {
        c.0.is_zero()
    }
}

impl LinMap for SIpa {
    fn poly_from(v: &[FrJ], _cfg: &KeyCfg) -> UP<FrJ> {
        UP::<FrJ>::from_coefficients_slice(v)
    }
    fn expected(keys: &Keys<Self>, p: &LP<Self>) -> Result<Cm<Self>, String> {
        let ck = &keys.ck;
        let s = ck.comm_key.len() - 1;
        let c = &p.polynomial().coeffs;
        let comm = naive_msm(&ck.comm_key[..c.len()], c).into_affine();
        let shifted = p.degree_bound().map(|d| naive_msm(&ck.comm_key[(s - d)..(s - d + c.len())], c).into_affine());
        Ok(ipa_pc::Commitment { comm, shifted_comm: shifted })
    }
    fn comb(a: FrJ, ca: &Cm<Self>, b: FrJ, cb: &Cm<Self>) -> Cm<Self> {
        ipa_pc::Commitment {
            comm: lin2(a, &ca.comm, b, &cb.comm),
            shifted_comm: match (&ca.shifted_comm, &cb.shifted_comm) {
                (Some(x), Some(y)) => Some(lin2(a, x, b, y)),
                _ => None,
            },
        }
    }
    fn is_identity(c: &Cm<Self>) -> bool {
        c.comm.is_zero() && c.shifted_comm.map(|s| s.is_zero()).unwrap_or(true)
    }
}

/// PST: the vector assigns coefficients to the monomials of (nv, sup) in stars-and-bars order.
impl LinMap for SPst {
    fn poly_from(v: &[Fr381], cfg: &KeyCfg) -> MVP<Fr381> {
        let nv = cfg.nv.unwrap();
        let mons = exponent_vectors(nv, cfg.sup);
        // spread the short vector over monomials of different shapes: constant, x0, x0*x1 (mixed), x_last^sup
        let pick: Vec<Vec<usize>> = {
            let mut p = vec![vec![0; nv]];
            let mut e = vec![0; nv];
            e[0] = 1;
            p.push(e);
            let mut e = vec![0; nv];
            e[0] = 1;
            e[nv - 1] += 1;
            p.push(e);
            let mut e = vec![0; nv];
            e[nv - 1] = cfg.sup;
            p.push(e);
            p.into_iter().filter(|m| mons.contains(m)).collect()
        };
        let terms: Vec<(Fr381, SparseTerm)> = v.iter().zip(pick.iter()).map(|(c, m)| (*c, sparse_term(m))).collect();
        MVP::<Fr381>::from_coefficients_vec(nv, terms)
    }
    fn expected(keys: &Keys<Self>, p: &LP<Self>) -> Result<Cm<Self>, String> {
        let mut acc = <E381 as Pairing>::G1::zero();
        for (c, t) in p.polynomial().terms() {
            match keys.ck.powers_of_g.get(t) {
                Some(g) => acc += naive_mul(g, c),
                None => return Err("term missing from the key".into()),
            }
        }
        Ok(marlin_pc::Commitment { comm: kzg10::Commitment(acc.into_affine()), shifted_comm: None })
    }
    fn comb(a: Fr381, ca: &Cm<Self>, b: Fr381, cb: &Cm<Self>) -> Cm<Self> {
        marlin_pc::Commitment { comm: kzg10::Commitment(lin2(a, &ca.comm.0, b, &cb.comm.0)), shifted_comm: None }
    }
    fn is_identity(c: &Cm<Self>) -> bool {
        c.comm.0.is_zero()
    }
}

fn viol(rec: &mut Rec, sch: &str, what: &str, id: &str, detail: String) {
    rec.violation(&format!("C08/{}/{}", sch, what), id, detail);
}

pub fn group_scheme<S: LinMap>(rec: &mut Rec, max_len: usize) {
    let cfg = match S::NAME {
        "IPA" => KeyCfg::uni(7, 7, 1, None),
        "PST" => KeyCfg::mv(2, 3, 3),
        _ => KeyCfg::uni(6, 5, 1, Some(vec![3, 4, 5])),
    };
    let keys = match build_keys::<S>(&cfg, rec.seed) {
        Ok(k) => k,
        Err(_) => return,
    };
    let vectors = coeff_vectors::<S::F>(rec.seed, max_len);
    let bounds: Vec<Option<usize>> = if S::BOUNDS {
        if S::NAME == "IPA" {
            vec![None, Some(3), Some(4), Some(7)]
        } else {
            vec![None, Some(3), Some(4), Some(5)]
        }
    } else {
        vec![None]
    };
    rec.scope(format!("{}: key {}, {} coefficient vectors in {{0,1,-1,r1}}^(<= {}), bounds {:?}; plus the shape alphabet; pairs from length <= 3 with scalars {{0,1,-1,r2}}^2", S::NAME, cfg.id(), vectors.len(), max_len, bounds));
    let commit1 = |p: &LP<S>| -> Result<Cm<S>, Out> {
        let (c, _) = do_commit::<S>(&keys.ck, &[p.clone()], None)?;
        Ok(c[0].commitment().clone())
    };
    // (1) commit == naive msm, zero -> identity, representation independence
    let mut all: Vec<(String, S::P)> = vectors.iter().map(|(n, v)| (n.clone(), S::poly_from(v, &cfg))).collect();
    all.extend(S::shapes(&cfg, rec.seed));
    for (name, p) in all.iter() {
        for b in bounds.iter() {
            if let Some(d) = b {
                if S::degree(p) > *d {
                    continue;
                }
            }
            let id = format!("{}/lin/{}/{}/b={:?}", S::NAME, cfg.id(), name, b);
            if !rec.take(&id) {
                continue;
            }
            rec.dim("scheme", S::NAME);
            rec.op(1);
            let lpoly = lp::<S>("p", p.clone(), *b, None);
            let got = match commit1(&lpoly) {
                Ok(c) => c,
                Err(o) => {
                    viol(rec, S::NAME, "commit/in-domain", &id, format!("commit failed: {}", o.short()));
                    continue;
                }
            };
            match S::expected(&keys, &lpoly) {
                Ok(want) => {
                    let eq = ser(&got) == ser(&want);
                    rec.class(if eq { "matches-naive-msm" } else { "differs-from-naive-msm" });
                    rec.obs(&format!("{}|{}|{}", S::NAME, b.is_some(), eq));
                    if !eq {
                        viol(rec, S::NAME, if b.is_some() { "commit/shifted-or-plain-differs-from-key-map" } else { "commit/differs-from-key-map" }, &id, "commit(p) != sum of key elements weighted by the coefficients".into());
                    }
                }
                Err(e) => viol(rec, S::NAME, "commit/reference", &id, e),
            }
            if p.is_zero() && !S::is_identity(&got) {
                viol(rec, S::NAME, "commit/zero-not-identity", &id, "commitment to the zero polynomial is not the identity".into());
            }
            rec.sample(&format!("{}-lin", S::NAME), id.clone());
        }
    }
    // (2) additivity: commit(a p + b q) == a commit(p) + b commit(q)
    let small: Vec<(String, S::P)> = coeff_vectors::<S::F>(rec.seed, max_len.min(2)).into_iter().map(|(n, v)| (n, S::poly_from(&v, &cfg))).collect();
    let scal = [("0", S::F::zero()), ("1", S::F::one()), ("-1", -S::F::one()), ("r2", rho::<S::F>(rec.seed, 2))];
    for (i, (np, p)) in small.iter().enumerate() {
        for (nq, q) in small.iter().skip(i) {
            for b in [None, bounds.last().cloned().flatten()] {
                if b.is_none() && S::BOUNDS && false {
                    continue;
                }
                let id = format!("{}/add/{}/{}+{}/b={:?}", S::NAME, cfg.id(), np, nq, b);
                if !rec.take(&id) {
                    continue;
                }
                let (cp, cq) = match (commit1(&lp::<S>("p", p.clone(), b, None)), commit1(&lp::<S>("q", q.clone(), b, None))) {
                    (Ok(a), Ok(b)) => (a, b),
                    _ => continue,
                };
                for (an, a) in scal.iter() {
                    for (bn, bb) in scal.iter() {
                        rec.count_points(1);
                        rec.op(1);
                        let r = S::lincomb(*a, p, *bb, q);
                        match commit1(&lp::<S>("r", r, b, None)) {
                            Ok(cr) => {
                                let eq = ser(&cr) == ser(&S::comb(*a, &cp, *bb, &cq));
                                rec.class(if eq { "additive" } else { "not-additive" });
                                if !eq {
                                    viol(rec, S::NAME, "commit/not-additive", &id, format!("commit({}*p + {}*q) != {}*commit(p) + {}*commit(q)", an, bn, an, bn));
                                }
                            }
                            Err(o) => viol(rec, S::NAME, "commit/in-domain", &id, format!("commit of a*p+b*q failed: {}", o.short())),
                        }
                    }
                }
            }
        }
    }
    // (2b) ordered pairs in ONE commit call: every ordered pair of coefficient vectors in {0,1,r1}^4 (all supports
    // of up to four terms - equal size with different interior terms included) committed together; each member
    // must still be its own key-defined sum (nothing may be carried over from the previous member of the call)
    {
        let alpha3 = [S::F::zero(), S::F::one(), rho::<S::F>(rec.seed, 1)];
        let vecs: Vec<Vec<S::F>> = (0..81usize).map(|code| (0..4).map(|k| alpha3[code / 3usize.pow(k) % 3]).collect()).collect();
        let polys4: Vec<S::P> = vecs.iter().map(|v| S::poly_from(v, &cfg)).collect();
        let mut expect4: Vec<Option<Vec<u8>>> = Vec::new();
        for p in polys4.iter() {
            expect4.push(S::expected(&keys, &lp::<S>("e", p.clone(), None, None)).ok().map(|c| ser(&c)));
        }
        for (i, pu) in polys4.iter().enumerate() {
            let id = format!("{}/pair-in-one-call/{}/first={}", S::NAME, cfg.id(), i);
            if !rec.take(&id) {
                continue;
            }
            rec.dim("scheme", S::NAME);
            let mut bad: Option<String> = None;
            for (j, pv) in polys4.iter().enumerate() {
                rec.count_points(1);
                rec.op(1);
                match do_commit::<S>(&keys.ck, &[lp::<S>("u", pu.clone(), None, None), lp::<S>("v", pv.clone(), None, None)], None) {
                    Ok((cs, _)) => {
                        let ok = Some(ser(cs[0].commitment())) == expect4[i] && Some(ser(cs[1].commitment())) == expect4[j];
                        if !ok && bad.is_none() {
                            bad = Some(format!("vectors #{} then #{} over {{0,1,r1}}^4 (base-3 digits = coefficients of the four reference monomials)", i, j));
                        }
                    }
                    Err(o) => {
                        if bad.is_none() {
                            bad = Some(format!("commit failed: {}", o.short()));
                        }
                    }
                }
            }
            rec.class(if bad.is_none() { "pairs-match" } else { "pairs-differ" });
            if let Some(b) = bad {
                viol(rec, S::NAME, "commit/member-differs-from-key-map", &id, format!("two polynomials committed in one call: a member is not its key-defined sum: {}", b));
            }
        }
    }
    // (3) call histories: every sequence (length <= 3) of members over a five-letter alphabet in one
    // commit call; every non-hiding member's commitment must still be the naive key-defined sum,
    // whatever was committed before it in the same call.
    let shapes = crate::source::shapes_short::<S>(&cfg, rec.seed);
    let pa = shapes[shapes.len() - 1].1.clone();
    let pz = S::poly_from(&[], &cfg);
    let top = bounds.last().cloned().flatten();
    let mut letters: Vec<(&str, S::P, Option<usize>, Option<usize>)> = vec![("N", pa.clone(), None, None), ("Z", pz, None, None), ("H", pa.clone(), None, Some(1))];
    if top.is_some() && S::degree(&pa) <= top.unwrap() {
        letters.push(("Nb", pa.clone(), top, None));
        letters.push(("Hb", pa.clone(), top, Some(1)));
    }
    let nl = letters.len();
    for len in 2..=3usize {
        for code in 0..nl.pow(len as u32) {
            let idx: Vec<usize> = (0..len).map(|i| code / nl.pow(i as u32) % nl).collect();
            if idx.iter().all(|i| letters[*i].3.is_some()) {
                continue;
            }
            let word: Vec<&str> = idx.iter().map(|i| letters[*i].0).collect();
            let id = format!("{}/seq/{}/{}", S::NAME, cfg.id(), word.join(","));
            if !rec.take(&id) {
                continue;
            }
            let polys: Vec<LP<S>> = idx.iter().enumerate().map(|(k, i)| lp::<S>(&format!("m{}", k), letters[*i].1.clone(), letters[*i].2, letters[*i].3)).collect();
            let mut rng = seed_rng(rec.seed, 3);
            rec.op(1);
            let cms = match do_commit::<S>(&keys.ck, &polys, Some(&mut rng as &mut dyn RngCore)) {
                Ok((c, _)) => c,
                Err(o) => {
                    viol(rec, S::NAME, "commit/in-domain", &id, format!("batch commit failed: {}", o.short()));
                    continue;
                }
            };
            let mut ok = true;
            for (k, p) in polys.iter().enumerate() {
                if p.hiding_bound().is_some() {
                    continue;
                }
                rec.count_points(1);
                match S::expected(&keys, p) {
                    Ok(want) => {
                        if ser(cms[k].commitment()) != ser(&want) {
                            ok = false;
                            viol(rec, S::NAME, "commit/member-differs-from-key-map", &id, format!("non-hiding member {} of one commit call over [{}] is not the key-defined sum", k, word.join(",")));
                        }
                    }
                    Err(e) => viol(rec, S::NAME, "commit/reference", &id, e),
                }
            }
            rec.class(if ok { "sequence-members-match" } else { "sequence-member-differs" });
            rec.obs(&format!("{}|seq|{}|{}", S::NAME, word.join(","), ok));
        }
    }
}


/// Size ladder (cf. C01 slice E): commit == naive key sum for polynomials around every power of two up to 128
/// (512 thorough), plain and shifted parts, key exactly as large as / larger than the polynomial.
pub fn group_ladder<S: LinMap>(rec: &mut Rec) {
    let mut cfgs: Vec<KeyCfg> = Vec::new();
    for s in crate::checks::c01::ladder_sizes(rec.thorough()) {
        match S::NAME {
            "IPA" => {
                if (s + 1).is_power_of_two() {
                    cfgs.push(KeyCfg::uni(s, s, 1, None));
                }
            }
            "PST" => {}
            _ => {
                cfgs.push(KeyCfg::uni(s, s, 1, Some(vec![s / 2, s])));
                cfgs.push(KeyCfg::uni(s + 3, s, 1, Some(vec![s / 2, s])));
            }
        }
    }
    if S::NAME == "PST" {
        for (nv, d) in [(2usize, 8usize), (3, 5), (4, 4), (6, 2)] {
            cfgs.push(KeyCfg::mv(nv, d, d));
        }
    }
    rec.scope(format!("{}: size ladder, {} keys, shapes full / one below / half / low zero / top only / padded, bounds None, s/2, s", S::NAME, cfgs.len()));
    for cfg in cfgs {
        let s = cfg.sup;
        let keep: Vec<String> = if S::FAM == Fam::Uni {
            vec![format!("dense({})", s), format!("dense({})", s - 1), format!("dense({})", s / 2), format!("lowzero({})", s), format!("top({})", s), format!("top({})", s / 2), format!("padded({})", s - 1)]
        } else {
            vec!["dense".into()]
        };
        let mut shapes: Vec<(String, S::P)> = S::shapes(&cfg, rec.seed).into_iter().filter(|(n, _)| keep.contains(n)).collect();
        if S::FAM == Fam::Mv {
            let full: Vec<(String, S::P)> = S::shapes(&cfg, rec.seed).into_iter().filter(|(n, p)| n.starts_with("mono") && S::degree(p) == s).collect();
            shapes.extend(full);
        }
        let bounds: Vec<Option<usize>> = if S::BOUNDS { vec![None, Some(s / 2), Some(s)] } else { vec![None] };
        let mut todo = Vec::new();
        for (name, p) in shapes.iter() {
            for b in bounds.iter() {
                if let Some(d) = b {
                    if S::degree(p) > *d {
                        continue;
                    }
                }
                let id = format!("{}/lin-ladder/{}/{}/b={:?}", S::NAME, cfg.id(), name, b);
                if rec.take(&id) {
                    todo.push((id, p.clone(), *b));
                }
            }
        }
        if todo.is_empty() {
            continue;
        }
        let keys = match build_keys::<S>(&cfg, rec.seed) {
            Ok(k) => k,
            Err(o) => {
                viol(rec, S::NAME, "trim/in-domain", &todo[0].0, format!("setup/trim failed: {}", o.short()));
                continue;
            }
        };
        for (id, p, b) in todo {
            rec.dim("scheme", S::NAME);
            rec.dim("part", "ladder");
            rec.op(1);
            let lpoly = lp::<S>("p", p, b, None);
            let got = match do_commit::<S>(&keys.ck, &[lpoly.clone()], None) {
                Ok((c, _)) => c[0].commitment().clone(),
                Err(o) => {
                    viol(rec, S::NAME, "commit/in-domain", &id, format!("commit failed: {}", o.short()));
                    continue;
                }
            };
            match S::expected(&keys, &lpoly) {
                Ok(want) => {
                    let eq = ser(&got) == ser(&want);
                    rec.class(if eq { "matches-naive-msm" } else { "differs-from-naive-msm" });
                    if !eq {
                        viol(rec, S::NAME, if b.is_some() { "commit/shifted-or-plain-differs-from-key-map" } else { "commit/differs-from-key-map" }, &id, "commit(p) != sum of key elements weighted by the coefficients".into());
                    }
                }
                Err(e) => viol(rec, S::NAME, "commit/reference", &id, e),
            }
        }
    }
}


/// Streaming KZG `commit_folding`: the commitment of every folding level is the key-defined sum over the
/// coefficients of that level (naive fold, naive multi-scalar sum), for every length 1..=40 and depth 1..=5,
/// and does not change when the input carries leading zero coefficients.
pub fn folding_commitments(rec: &mut Rec) {
    type G1 = <E381 as Pairing>::G1Affine;
    use ark_poly_commit::streaming_kzg::FoldedPolynomialTree;
    let max_len = if rec.thorough() { 130usize } else { 40 };
    let ck = str_key(max_len + 4, 2, rec.seed);
    let sck = skzg::CommitterKeyStream::from(&ck);
    let g: Vec<G1> = sck.powers_of_g.0.to_vec();
    let rs = rho_stream::<Fr381>(rec.seed, 22, max_len + 4);
    let chs = rho_stream::<Fr381>(rec.seed, 23, 6);
    rec.scope(format!("STR commit_folding: lengths 1..={} x depths 1..=5 x {{as is, two leading zero coefficients}}: every level == naive key sum of the naive fold", max_len));
    for n in 1..=max_len {
        for depth in 1..=5usize {
            for pad in [0usize, 2] {
                let id = format!("STR/fold-commit/n={}/depth={}/pad={}", n, depth, pad);
                if !rec.take(&id) {
                    continue;
                }
                rec.dim("scheme", "STR");
                rec.op(1);
                let mut coeffs = rs[..n].to_vec();
                coeffs.extend(vec![Fr381::zero(); pad]);
                let ch = &chs[..depth];
                let want = crate::checks::c14::ref_fold(&rs[..n], ch);
                let rev: Vec<Fr381> = coeffs.iter().rev().cloned().collect();
                let stream = rev.as_slice();
                let tree = FoldedPolynomialTree::new(&stream, ch);
                match catch(|| sck.commit_folding(&tree, 1 << 10)) {
                    Ok(cs) => {
                        let mut ok = cs.len() == depth;
                        for l in 1..=depth {
                            let w = naive_msm(&g[..want[l].len()], &want[l]).into_affine();
                            ok &= cs.get(l - 1).map(|c| c.verif_inner()) == Some(w);
                        }
                        rec.class(if ok { "matches-naive-msm" } else { "differs-from-naive-msm" });
                        if !ok {
                            viol(rec, "STR", "commit_folding/differs-from-key-map", &id, "a level commitment of commit_folding is not the key-defined sum over the coefficients of that folding".into());
                        }
                    }
                    Err(e) => viol(rec, "STR", "commit_folding/in-domain", &id, format!("panicked: {}", e)),
                }
            }
        }
    }
}

/// The same ladder for KZG10 direct and the two streaming committers.
pub fn special_ladder(rec: &mut Rec) {
    type G1 = <E381 as Pairing>::G1Affine;
    let sizes = crate::checks::c01::ladder_sizes(rec.thorough());
    let top = *sizes.iter().max().unwrap();
    let pp = kzg_setup(top + 3, false, rec.seed, 0);
    let ck = str_key(top + 1, 2, rec.seed);
    let stream = skzg::CommitterKeyStream::from(&ck);
    let g: Vec<G1> = stream.powers_of_g.0.to_vec();
    let r = rho_stream::<Fr381>(rec.seed, 1, top + 2);
    rec.scope(format!("KZG direct, STR time and space committers: size ladder {:?}", sizes));
    for s in sizes {
        let mut vs: Vec<(String, Vec<Fr381>)> = vec![(format!("dense({})", s), r[..=s].to_vec()), (format!("dense({})", s - 1), r[..s].to_vec())];
        let mut c = r[..=s].to_vec();
        c[0] = Fr381::zero();
        c[1] = Fr381::zero();
        vs.push((format!("lowzero({})", s), c));
        let mut c = vec![Fr381::zero(); s + 1];
        c[s] = Fr381::one();
        vs.push((format!("top({})", s), c));
        let mut c = r[..=s].to_vec();
        for i in 0..=s {
            if i % 3 == 1 {
                c[i] = Fr381::zero();
            }
        }
        vs.push((format!("sparse3({})", s), c));
        for (name, v) in vs {
            for extra in [0usize, 2] {
                let id = format!("KZG/lin-ladder/{}/len=deg+{}", name, 1 + extra);
                if !rec.take(&id) {
                    continue;
                }
                rec.dim("scheme", "KZG");
                rec.op(1);
                let p = UP::<Fr381>::from_coefficients_slice(&v);
                let powers = kzg_powers(&pp, p.coeffs.len() + extra, 2);
                match flat(catch(|| Kzg::commit(&powers, &p, None, None))) {
                    Ok((c, _)) => {
                        let eq = c.0 == naive_msm(&pp.powers_of_g[..p.coeffs.len()], &p.coeffs).into_affine();
                        rec.class(if eq { "matches-naive-msm" } else { "differs-from-naive-msm" });
                        if !eq {
                            viol(rec, "KZG", "commit/differs-from-key-map", &id, "commit(p) != sum of key elements weighted by the coefficients".into());
                        }
                    }
                    Err(o) => viol(rec, "KZG", "commit/in-domain", &id, format!("commit failed: {}", o.short())),
                }
            }
            let id = format!("STR/lin-ladder/{}", name);
            if !rec.take(&id) {
                continue;
            }
            rec.dim("scheme", "STR");
            rec.op(2);
            let want = naive_msm(&g[..v.len()], &v).into_affine();
            match catch(|| ck.commit(&v)) {
                Ok(c) => {
                    if c.verif_inner() != want {
                        viol(rec, "STR", "commit/time-differs-from-key-map", &id, "time-efficient commit != naive sum".into());
                    }
                }
                Err(e) => viol(rec, "STR", "commit/in-domain", &id, format!("time commit panicked: {}", e)),
            }
            let rev: Vec<Fr381> = v.iter().rev().cloned().collect();
            match catch(|| stream.commit(&rev.as_slice())) {
                Ok(c) => {
                    if c.verif_inner() != want {
                        viol(rec, "STR", "commit/space-differs-from-key-map", &id, "space-efficient commit != naive sum".into());
                    }
                }
                Err(e) => viol(rec, "STR", "commit/in-domain", &id, format!("space commit panicked: {}", e)),
            }
        }
    }
}

// ---------------------------------------------------------------------------------------------
// hash-based schemes: reference root
// ---------------------------------------------------------------------------------------------

pub trait HashRef: Sch<F = Fr381> {
    type Enc: LinearEncode<Fr381, MT, Self::P, ColH<Fr381>, LinCodePCParams = CK<Self>>;
    const LIGERO: bool;
    fn poly_from(v: &[Fr381], nv: usize) -> Self::P;
    fn vec_of(p: &Self::P) -> Vec<Fr381>;
}
impl HashRef for SLig {
    type Enc = LigEnc<Fr381>;
    const LIGERO: bool = true;
    fn poly_from(v: &[Fr381], _nv: usize) -> UP<Fr381> {
        UP::<Fr381>::from_coefficients_slice(v)
    }
    fn vec_of(p: &UP<Fr381>) -> Vec<Fr381> {
        if p.coeffs.is_empty() {
            vec![Fr381::zero()]
        } else {
            p.coeffs.clone()
        }
    }
}
impl HashRef for SMll {
    type Enc = MllEnc<Fr381>;
    const LIGERO: bool = true;
    fn poly_from(v: &[Fr381], nv: usize) -> MLE<Fr381> {
        let mut e = v.to_vec();
        e.resize(1 << nv, Fr381::zero());
        MLE::<Fr381>::from_evaluations_vec(nv, e)
    }
    fn vec_of(p: &MLE<Fr381>) -> Vec<Fr381> {
        p.evaluations.clone()
    }
}
impl HashRef for SBrk {
    type Enc = BrkEnc<Fr381>;
    const LIGERO: bool = false;
    fn poly_from(v: &[Fr381], nv: usize) -> MLE<Fr381> {
        let mut e = v.to_vec();
        e.resize(1 << nv, Fr381::zero());
        MLE::<Fr381>::from_evaluations_vec(nv, e)
    }
    fn vec_of(p: &MLE<Fr381>) -> Vec<Fr381> {
        p.evaluations.clone()
    }
}

/// Independent recomputation of (metadata, root) for a coefficient / evaluation vector.
pub fn ref_root<S: HashRef>(ck: &CK<S>, v: &[Fr381]) -> Result<(MMeta, Vec<u8>), String>
where
    CK<S>: LinCodeParametersInfo<MT, ColH<Fr381>>,
{
    let (n_rows, n_cols) = ck.compute_dimensions(v.len());
    if n_rows * n_cols < v.len() || n_rows == 0 || n_cols == 0 {
        return Err(format!("compute_dimensions({}) = ({}, {}) cannot hold the polynomial", v.len(), n_rows, n_cols));
    }
    let mut padded = v.to_vec();
    padded.resize(n_rows * n_cols, Fr381::zero());
    let mut ext_rows: Vec<Vec<Fr381>> = Vec::new();
    for r in 0..n_rows {
        let row = &padded[r * n_cols..(r + 1) * n_cols];
        let enc = if S::LIGERO {
            reed_solomon_ref(row, ck.distance().1).ok_or("no evaluation domain")?
        } else {
            catch(|| S::Enc::encode(row, ck)).map_err(|e| e)?.map_err(|e| format!("{:?}", e))?
        };
        ext_rows.push(enc);
    }
    let n_ext = ext_rows[0].len();
    let mut leaves: Vec<Vec<u8>> = Vec::new();
    for j in 0..n_ext {
        let col: Vec<Fr381> = (0..n_rows).map(|r| ext_rows[r][j]).collect();
        leaves.push(col_hash(&col));
    }
    leaves.resize(n_ext.next_power_of_two(), Vec::new());
    let tree = MerkleTree::<MT>::new(&(), &(), leaves).map_err(|e| format!("merkle: {:?}", e))?;
    Ok((MMeta { n_rows, n_cols, n_ext_cols: n_ext }, tree.root()))
}

pub fn hash_scheme<S: HashRef>(rec: &mut Rec, max_len: usize)
where
    CK<S>: LinCodeParametersInfo<MT, ColH<Fr381>>,
{
    let cfgs: Vec<KeyCfg> = if S::FAM == Fam::Uni {
        let mut a = KeyCfg::uni(64, 64, 1, None);
        let mut b = a.clone();
        b.lc = Some((128, 2, false));
        a.lc = None;
        let mut v = vec![a.clone(), b];
        // code rates whose inverse is not a power of two (the encoding domain is the smallest FFT domain that
        // holds n_cols * rho_inv points)
        for r in [3usize, 5, 6] {
            let mut c = a.clone();
            c.lc = Some((128, r, true));
            v.push(c);
        }
        v
    } else {
        let mut v = vec![KeyCfg::ml(2), KeyCfg::ml(3), KeyCfg::ml(5)];
        if S::LIGERO {
            for (nv, r) in [(3usize, 3usize), (5, 3), (4, 5), (7, 6)] {
                let mut c = KeyCfg::ml(nv);
                c.lc = Some((128, r, true));
                v.push(c);
            }
        }
        v
    };
    for cfg in cfgs {
        let keys = match build_keys::<S>(&cfg, rec.seed) {
            Ok(k) => k,
            Err(_) => continue,
        };
        let nv = cfg.nv.unwrap_or(0);
        let mut polys: Vec<(String, S::P)> = Vec::new();
        if S::FAM == Fam::Uni || nv == 2 {
            polys.extend(coeff_vectors::<Fr381>(rec.seed, max_len).into_iter().map(|(n, v)| (n, S::poly_from(&v, nv))));
        }
        if S::FAM == Fam::Uni {
            let r = rho_stream::<Fr381>(rec.seed, 9, 70);
            for d in [5usize, 8, 9, 15, 16, 17, 19, 24, 31, 33, 40, 63] {
                polys.push((format!("dense({})", d), S::poly_from(&r[..=d], nv)));
            }
        } else {
            polys.extend(S::shapes(&cfg, rec.seed));
        }
        rec.scope(format!("{}: key {}, {} polynomials: root == reference root, metadata, equal/distinct roots", S::NAME, cfg.id(), polys.len()));
        let mut roots: BTreeMap<Vec<u8>, Vec<Fr381>> = BTreeMap::new();
        for (name, p) in polys.iter() {
            let id = format!("{}/root/{}/{}", S::NAME, cfg.id(), name);
            // every worker computes all roots of the (small) set so that the distinctness oracle sees them all
            let mine = rec.take(&id);
            let got = match do_commit::<S>(&keys.ck, &[lp::<S>("p", p.clone(), None, None)], None) {
                Ok((c, _)) => convert::<_, MComm>(c[0].commitment()),
                Err(o) => {
                    if mine {
                        viol(rec, S::NAME, "commit/in-domain", &id, format!("commit failed: {}", o.short()));
                    }
                    continue;
                }
            };
            let v = S::vec_of(p);
            if let Some(prev) = roots.get(&got.root) {
                if *prev != v && mine {
                    viol(rec, S::NAME, "commit/distinct-polynomials-same-root", &id, "two different polynomials of the enumerated set share a Merkle root".into());
                }
            } else {
                roots.insert(got.root.clone(), v.clone());
            }
            if !mine {
                continue;
            }
            rec.dim("scheme", S::NAME);
            rec.op(2);
            match ref_root::<S>(&keys.ck, &v) {
                Ok((meta, root)) => {
                    let ok = root == got.root && meta.n_rows == got.metadata.n_rows && meta.n_cols == got.metadata.n_cols && meta.n_ext_cols == got.metadata.n_ext_cols;
                    rec.class(if ok { "root-matches" } else { "root-differs" });
                    rec.obs(&format!("{}|root|{}|{}", S::NAME, v.len().min(9), ok));
                    if root != got.root {
                        viol(rec, S::NAME, "commit/root-differs-from-reference", &id, "Merkle root != root of the independently encoded, hashed coefficient matrix".into());
                    } else if !ok {
                        viol(rec, S::NAME, "commit/metadata", &id, format!("metadata {:?} != reference {:?}", got.metadata, meta));
                    }
                }
                Err(e) => viol(rec, S::NAME, "commit/reference", &id, e),
            }
            // deterministic: a second commit gives the same commitment
            if let Ok((c2, _)) = do_commit::<S>(&keys.ck, &[lp::<S>("p", p.clone(), None, None)], None) {
                if ser(c2[0].commitment()) != ser(&got) {
                    viol(rec, S::NAME, "commit/not-deterministic", &id, "two commits to the same polynomial differ".into());
                }
            }
            rec.sample(&format!("{}-root", S::NAME), id.clone());
        }
        // members of ONE commit call: the commitment (root and matrix dimensions) of a polynomial is a function of the
        // polynomial and the key alone - it does not depend on what was committed before it in the same call
        let pick: Vec<usize> = if polys.len() <= 10 { (0..polys.len()).collect() } else { let n = polys.len(); vec![0, 1, n / 3, n / 2, n - 6, n - 5, n - 4, n - 3, n - 2, n - 1] };
        let mut alone: BTreeMap<usize, Vec<u8>> = BTreeMap::new();
        for i in pick.iter().copied() {
            for j in pick.iter().copied() {
                let id = format!("{}/root-in-one-call/{}/{}+{}", S::NAME, cfg.id(), polys[i].0, polys[j].0);
                if !rec.take(&id) {
                    continue;
                }
                rec.dim("scheme", S::NAME);
                rec.op(3);
                for k in [i, j] {
                    if !alone.contains_key(&k) {
                        if let Ok((c, _)) = do_commit::<S>(&keys.ck, &[lp::<S>("p", polys[k].1.clone(), None, None)], None) {
                            alone.insert(k, ser(c[0].commitment()));
                        }
                    }
                }
                match do_commit::<S>(&keys.ck, &[lp::<S>("a", polys[i].1.clone(), None, None), lp::<S>("b", polys[j].1.clone(), None, None)], None) {
                    Ok((cs, _)) => {
                        let ok = alone.get(&i) == Some(&ser(cs[0].commitment())) && alone.get(&j) == Some(&ser(cs[1].commitment()));
                        rec.class(if ok { "root-matches" } else { "root-differs" });
                        if !ok {
                            viol(rec, S::NAME, "commit/member-differs-from-single-commit", &id, "a polynomial committed together with another one in one call gets another commitment (root or matrix dimensions) than on its own".into());
                        }
                    }
                    Err(o) => viol(rec, S::NAME, "commit/in-domain", &id, format!("commit of two polynomials failed: {}", o.short())),
                }
            }
        }
    }
}

/// KZG direct, MultilinearPC, streaming KZG (time and space committers), Hyrax rows.
pub fn special(rec: &mut Rec, max_len: usize) {
    type G1 = <E381 as Pairing>::G1Affine;
    let vectors = coeff_vectors::<Fr381>(rec.seed, max_len);
    // KZG direct
    let pp = kzg_setup(6, false, rec.seed, 0);
    let powers = kzg_powers(&pp, 6, 2);
    for (name, v) in vectors.iter() {
        let id = format!("KZG/lin/{}", name);
        if !rec.take(&id) {
            continue;
        }
        rec.dim("scheme", "KZG");
        rec.op(1);
        let p = UP::<Fr381>::from_coefficients_slice(v);
        match flat(catch(|| Kzg::commit(&powers, &p, None, None))) {
            Ok((c, _)) => {
                let eq = c.0 == naive_msm(&pp.powers_of_g[..p.coeffs.len()], &p.coeffs).into_affine();
                rec.class(if eq { "matches-naive-msm" } else { "differs-from-naive-msm" });
                rec.obs(&format!("KZG|{}", eq));
                if !eq {
                    viol(rec, "KZG", "commit/differs-from-key-map", &id, "commit(p) != sum of key elements weighted by the coefficients".into());
                }
            }
            Err(o) => viol(rec, "KZG", "commit/in-domain", &id, format!("commit failed: {}", o.short())),
        }
    }
    // streaming KZG: time and space committers
    let ck = str_key(6, 2, rec.seed);
    let stream = skzg::CommitterKeyStream::from(&ck);
    let g: Vec<G1> = stream.powers_of_g.0.to_vec();
    for (name, v) in vectors.iter() {
        let id = format!("STR/lin/{}", name);
        if !rec.take(&id) {
            continue;
        }
        rec.dim("scheme", "STR");
        rec.op(2);
        let want = naive_msm(&g[..v.len()], v).into_affine();
        match catch(|| ck.commit(v)) {
            Ok(c) => {
                let eq = c.verif_inner() == want;
                rec.class(if eq { "matches-naive-msm" } else { "differs-from-naive-msm" });
                if !eq {
                    viol(rec, "STR", "commit/time-differs-from-key-map", &id, "time-efficient commit != naive sum".into());
                }
            }
            Err(e) => viol(rec, "STR", "commit/in-domain", &id, format!("time commit panicked: {}", e)),
        }
        let rev: Vec<Fr381> = v.iter().rev().cloned().collect();
        match catch(|| stream.commit(&rev.as_slice())) {
            Ok(c) => {
                if c.verif_inner() != want {
                    viol(rec, "STR", "commit/space-differs-from-key-map", &id, "space-efficient commit != naive sum".into());
                }
            }
            Err(e) => viol(rec, "STR", "commit/in-domain", &id, format!("space commit panicked: {}", e)),
        }
        rec.obs(&format!("STR|{}", v.len()));
    }
    // MultilinearPC: evaluations weight powers_of_g[0]
    for nv in 1..=2usize {
        let mut rng = seed_rng(rec.seed, 10);
        let pp = match catch(|| Mlp::setup(nv, &mut rng)) {
            Ok(p) => p,
            Err(_) => continue,
        };
        let (ck, _vk) = Mlp::trim(&pp, nv);
        for (name, v) in vectors.iter().filter(|(_, v)| v.len() == 1 << nv) {
            let id = format!("MLP/lin/nv={}/{}", nv, name);
            if !rec.take(&id) {
                continue;
            }
            rec.dim("scheme", "MLP");
            rec.op(1);
            let p = MLE::<Fr381>::from_evaluations_vec(nv, v.clone());
            match catch(|| Mlp::commit(&ck, &p)) {
                Ok(c) => {
                    let eq = c.g_product == naive_msm(&ck.powers_of_g[0], v).into_affine() && c.nv == nv;
                    rec.class(if eq { "matches-naive-msm" } else { "differs-from-naive-msm" });
                    if !eq {
                        viol(rec, "MLP", "commit/differs-from-key-map", &id, "commit(p) != sum of key elements weighted by the evaluations".into());
                    }
                }
                Err(e) => viol(rec, "MLP", "commit/in-domain", &id, format!("commit panicked: {}", e)),
            }
            rec.obs(&format!("MLP|{}", nv));
        }
    }
    // Hyrax: rows of the column-major matrix, blinded by the returned state
    let cfg = KeyCfg::ml(2);
    if let Ok(keys) = build_keys::<SHyr>(&cfg, rec.seed) {
        let vj = coeff_vectors::<FrJ>(rec.seed, max_len);
        for (name, v) in vj.iter().filter(|(_, v)| v.len() == 4) {
            let id = format!("HYR/lin/{}", name);
            if !rec.take(&id) {
                continue;
            }
            rec.dim("scheme", "HYR");
            rec.op(1);
            let p = MLE::<FrJ>::from_evaluations_vec(2, v.clone());
            let mut rng = seed_rng(rec.seed, 0);
            if let Ok((c, s)) = do_commit::<SHyr>(&keys.ck, &[lp::<SHyr>("p", p, None, None)], Some(&mut rng as &mut dyn RngCore)) {
                let st: MHyraxState<FrJ> = convert(&s[0]);
                let rows = &c[0].commitment().row_coms;
                let mut ok = rows.len() == 2 && st.randomness.len() == 2;
                if ok {
                    for i in 0..2 {
                        let row = vec![v[i], v[2 + i]];
                        ok &= rows[i].into_group() - naive_mul(&keys.ck.h, &st.randomness[i]) == naive_msm(&keys.ck.com_key[..2], &row);
                    }
                }
                rec.class(if ok { "matches-naive-msm" } else { "differs-from-naive-msm" });
                if !ok {
                    viol(rec, "HYR", "commit/rows-differ-from-key-map", &id, "row commitments minus blinding != <key, column-major rows>".into());
                }
            }
            rec.obs("HYR|rows");
        }
    }
}


// ---------------------------------------------------------------------------------------------
// the public arithmetic on commitment randomness (and on KZG10 commitments)
// ---------------------------------------------------------------------------------------------

/// Reference value of a randomness: coefficient-wise polynomials, `None` = no shifted part.
#[derive(Clone, PartialEq, Debug)]
struct RModel<P> {
    plain: P,
    shifted: Option<P>,
}

/// Explicit-state exploration of the four public operators (`+ &r`, `+= &r`, `+ (f,&r)`, `+= (f,&r)`)
/// from every start value, every operand, every scalar of the alphabet, to depth `depth`; the
/// reference value is carried along with ark-poly arithmetic only and compared after every step.
fn rand_ops<R, P>(rec: &mut Rec, name: &str, operands: &[(String, R)], view: &dyn Fn(&R) -> RModel<P>, zero: &P, axpy: &dyn Fn(&P, Fr381, &P) -> P, depth: usize)
where
    R: Clone,
    P: Clone + PartialEq,
    for<'a> R: std::ops::Add<&'a R, Output = R> + std::ops::AddAssign<&'a R> + std::ops::Add<(Fr381, &'a R), Output = R> + std::ops::AddAssign<(Fr381, &'a R)>,
{
    let scal = [("1", Fr381::one()), ("0", Fr381::zero()), ("-1", -Fr381::one()), ("r2", rho::<Fr381>(rec.seed, 2))];
    // an operation = (operator kind, operand index, scalar index)
    let mut ops: Vec<(u8, usize, usize)> = Vec::new();
    for o in 0..operands.len() {
        ops.push((0, o, 0));
        ops.push((1, o, 0));
        for f in 0..scal.len() {
            ops.push((2, o, f));
            ops.push((3, o, f));
        }
    }
    let apply = |x: &R, m: &RModel<P>, op: &(u8, usize, usize)| -> (R, RModel<P>) {
        let (k, o, f) = *op;
        let y = &operands[o].1;
        let fy = if k < 2 { Fr381::one() } else { scal[f].1 };
        let r = match k {
            0 => x.clone() + y,
            1 => {
                let mut t = x.clone();
                t += y;
                t
            }
            2 => x.clone() + (fy, y),
            _ => {
                let mut t = x.clone();
                t += (fy, y);
                t
            }
        };
        let my = view(y);
        let shifted = match (&m.shifted, &my.shifted) {
            (None, None) => None,
            (a, b) => Some(axpy(a.as_ref().unwrap_or(zero), fy, b.as_ref().unwrap_or(zero))),
        };
        (r, RModel { plain: axpy(&m.plain, fy, &my.plain), shifted })
    };
    let describe = |op: &(u8, usize, usize)| -> String {
        let (k, o, f) = *op;
        match k {
            0 => format!("+&{}", operands[o].0),
            1 => format!("+=&{}", operands[o].0),
            2 => format!("+({},&{})", scal[f].0, operands[o].0),
            _ => format!("+=({},&{})", scal[f].0, operands[o].0),
        }
    };
    rec.scope(format!("{}: {} operands x 4 operators x scalars {{1,0,-1,r2}} = {} operations, every sequence up to depth {} from every operand as start value", name, operands.len(), ops.len(), depth));
    for (sn, start) in operands.iter() {
        for (i0, op0) in ops.iter().enumerate() {
            let id = format!("{}/randomness/start={}/first={}", name, sn, i0);
            if !rec.take(&id) {
                continue;
            }
            rec.dim("scheme", name);
            let mut bad: Option<String> = None;
            let mut nodes = 0u64;
            // depth-first over the remaining operations
            let mut stack: Vec<(R, RModel<P>, Vec<usize>)> = Vec::new();
            let (r1, m1) = apply(start, &view(start), op0);
            stack.push((r1, m1, vec![i0]));
            while let Some((r, m, path)) = stack.pop() {
                nodes += 1;
                if view(&r) != m {
                    if bad.is_none() {
                        bad = Some(path.iter().map(|i| describe(&ops[*i])).collect::<Vec<_>>().join(" ; "));
                    }
                    continue;
                }
                if path.len() < depth {
                    for (i, op) in ops.iter().enumerate() {
                        let (r2, m2) = apply(&r, &m, op);
                        let mut p2 = path.clone();
                        p2.push(i);
                        stack.push((r2, m2, p2));
                    }
                }
            }
            rec.count_points(nodes);
            rec.op(nodes);
            rec.class(if bad.is_none() { "randomness-ops-ok" } else { "randomness-ops-bad" });
            rec.obs(&format!("{}|rand|{}|{}", name, op0.0, bad.is_none()));
            if let Some(b) = bad {
                rec.violation(&format!("C08/{}/randomness/not-additive", name), &id, format!("start {}: after [{}] the randomness is not the sum of the operands weighted by the scalars", sn, b));
            }
        }
    }
}

fn trim_up(p: &UP<Fr381>) -> UP<Fr381> {
    UP::<Fr381>::from_coefficients_slice(&p.coeffs)
}

pub fn randomness_algebra(rec: &mut Rec, depth: usize) {
    use ark_poly_commit::PCCommitmentState;
    type KR = kzg10::Randomness<Fr381, UP<Fr381>>;
    type MR = marlin_pc::Randomness<Fr381, UP<Fr381>>;
    type PR = ark_poly_commit::marlin_pst13_pc::Randomness<E381, MVP<Fr381>>;
    let r = rho_stream::<Fr381>(rec.seed, 40, 12);
    let kr = |c: &[Fr381]| -> KR {
        let mut x = KR::empty();
        x.blinding_polynomial = UP::<Fr381>::from_coefficients_slice(c);
        x
    };
    let up_axpy = |a: &UP<Fr381>, f: Fr381, b: &UP<Fr381>| -> UP<Fr381> {
        let n = a.coeffs.len().max(b.coeffs.len());
        let mut v = vec![Fr381::zero(); n];
        for (i, c) in a.coeffs.iter().enumerate() {
            v[i] += *c;
        }
        for (i, c) in b.coeffs.iter().enumerate() {
            v[i] += f * *c;
        }
        UP::<Fr381>::from_coefficients_vec(v)
    };
    let zero = UP::<Fr381>::zero();
    // KZG10
    let k_ops: Vec<(String, KR)> = vec![("empty".into(), KR::empty()), ("a".into(), kr(&r[0..2])), ("b".into(), kr(&r[2..5]))];
    rand_ops::<KR, UP<Fr381>>(rec, "KZG", &k_ops, &|x: &KR| RModel { plain: trim_up(&x.blinding_polynomial), shifted: None }, &zero, &up_axpy, depth);
    // Marlin: plain and shifted parts
    let m_ops: Vec<(String, MR)> = vec![
        ("empty".into(), MR::empty()),
        ("plain".into(), MR { rand: kr(&r[0..2]), shifted_rand: None }),
        ("both".into(), MR { rand: kr(&r[2..4]), shifted_rand: Some(kr(&r[4..6])) }),
        ("both2".into(), MR { rand: kr(&r[6..9]), shifted_rand: Some(kr(&r[9..12])) }),
    ];
    rand_ops::<MR, UP<Fr381>>(rec, "MAR", &m_ops, &|x: &MR| RModel { plain: trim_up(&x.rand.blinding_polynomial), shifted: x.shifted_rand.as_ref().map(|s| trim_up(&s.blinding_polynomial)) }, &zero, &up_axpy, depth);
    // PST13: multivariate blinding polynomials, compared through ark-poly's own arithmetic
    let mut rng = seed_rng(rec.seed, 41);
    let pa = PR::rand(1, false, Some(2), &mut rng);
    let pb = PR::rand(2, false, Some(2), &mut rng);
    let p_ops: Vec<(String, PR)> = vec![("empty".into(), PR::empty()), ("a".into(), pa), ("b".into(), pb)];
    let mv_axpy = |a: &MVP<Fr381>, f: Fr381, b: &MVP<Fr381>| -> MVP<Fr381> {
        // a + f*b term by term, independent of the library's operator
        let mut terms: Vec<(Fr381, SparseTerm)> = a.terms().to_vec();
        for (c, t) in b.terms().iter() {
            terms.push((f * *c, t.clone()));
        }
        MVP::<Fr381>::from_coefficients_vec(a.num_vars().max(b.num_vars()), terms)
    };
    let mzero = MVP::<Fr381>::from_coefficients_vec(2, vec![]);
    let canon = |p: &MVP<Fr381>| -> MVP<Fr381> { MVP::<Fr381>::from_coefficients_vec(2, p.terms().to_vec()) };
    rand_ops::<PR, MVP<Fr381>>(rec, "PST", &p_ops, &|x: &PR| RModel { plain: canon(&x.blinding_polynomial), shifted: None }, &mzero, &|a, f, b| canon(&mv_axpy(a, f, b)), depth.min(2));
    // kzg10::Commitment += (f, &c)
    let id = "KZG/commitment-axpy".to_string();
    if rec.take(&id) {
        let pp = kzg_setup(4, false, rec.seed, 0);
        let g: Vec<_> = pp.powers_of_g[..3].to_vec();
        let fs = [Fr381::one(), Fr381::zero(), -Fr381::one(), rho::<Fr381>(rec.seed, 2)];
        let mut ok = true;
        for a in g.iter().chain([<E381 as Pairing>::G1Affine::zero()].iter()) {
            for b in g.iter().chain([<E381 as Pairing>::G1Affine::zero()].iter()) {
                for f in fs.iter() {
                    rec.count_points(1);
                    let mut c = kzg10::Commitment::<E381>(*a);
                    c += (*f, &kzg10::Commitment::<E381>(*b));
                    if c.0 != (a.into_group() + naive_mul(b, f)).into_affine() {
                        ok = false;
                    }
                }
            }
        }
        rec.class(if ok { "commitment-axpy-ok" } else { "commitment-axpy-bad" });
        if !ok {
            rec.violation("C08/KZG/commitment/axpy", &id, "c1 += (f, &c2) is not c1 + f*c2".into());
        }
    }
}

/// Labelled polynomials changed IN PLACE (`polynomial_mut`): a labelled polynomial built around one shape and then
/// given another (degree raised, lowered, unchanged) commits exactly like a fresh labelled polynomial of the final
/// shape - the commitment is a function of the polynomial the object holds NOW (same RNG stream: commitment and state
/// bit for bit; a shape the key refuses is refused either way), and its opening is accepted.
pub fn in_place_polynomials<S: Sch>(rec: &mut Rec) {
    let cfg = crate::scope::slice_b::<S>();
    let shapes = S::shapes(&cfg, rec.seed);
    // at most six shapes: the first four (zero, constant, ...) and the last two (dense ones)
    let mut pick: Vec<usize> = (0..shapes.len().min(4)).collect();
    for k in [shapes.len().saturating_sub(2), shapes.len() - 1] {
        if !pick.contains(&k) {
            pick.push(k);
        }
    }
    let base = crate::checks::c01::slice_b_polys::<S>(&cfg, rec.seed);
    let opts: Vec<(Option<usize>, Option<usize>)> = if base[1].degree_bound().is_some() || base[1].hiding_bound().is_some() { vec![(None, None), (base[1].degree_bound(), base[1].hiding_bound())] } else { vec![(None, None)] };
    let mut keys: Option<Keys<S>> = None;
    for (bound, hid) in opts {
        for a in pick.iter().copied() {
            for b in pick.iter().copied() {
                if a == b {
                    continue;
                }
                let id = format!("{}/in-place/{}/from={}/to={}/bound={:?}/h={:?}", S::NAME, cfg.id(), shapes[a].0, shapes[b].0, bound, hid);
                if !rec.take(&id) {
                    continue;
                }
                if keys.is_none() {
                    keys = build_keys::<S>(&cfg, rec.seed).ok();
                }
                let keys = match &keys {
                    Some(k) => k,
                    None => return,
                };
                rec.dim("scheme", S::NAME);
                let fresh = lp::<S>("p", shapes[b].1.clone(), bound, hid);
                let mut changed = lp::<S>("p", shapes[a].1.clone(), bound, hid);
                *changed.polynomial_mut() = shapes[b].1.clone();
                let seed = rec.seed;
                let commit = |q: &LP<S>| {
                    let mut rng = seed_rng(seed, 0);
                    do_commit::<S>(&keys.ck, &[q.clone()], Some(&mut rng as &mut dyn RngCore))
                };
                rec.op(2);
                match (commit(&fresh), commit(&changed)) {
                    (Ok((c1, s1)), Ok((c2, s2))) => {
                        rec.class("in-place-committed");
                        if ser(c1[0].commitment()) != ser(c2[0].commitment()) || ser(&s1[0]) != ser(&s2[0]) {
                            viol(rec, S::NAME, "commit/in-place-polynomial", &id, format!("a labelled polynomial built around `{}` and given `{}` in place commits differently from a fresh labelled polynomial of `{}`", shapes[a].0, shapes[b].0, shapes[b].0));
                            continue;
                        }
                        let z = S::points(&cfg, rec.seed)[0].1.clone();
                        let c = Committed::<S> { polys: vec![changed.clone()], comms: c2, states: s2 };
                        if let Ok(s) = open_single::<S>(keys, &c, &[0], &z, 0, rec.seed, 0) {
                            let d = check_single::<S>(keys, &[&c.comms[0]], &z, &s.values, &s.proof, 0, rec.seed, 0);
                            rec.op(2);
                            if !d.accepted() {
                                viol(rec, S::NAME, "check/in-place-polynomial", &id, format!("opening of a labelled polynomial changed in place is not accepted: {}", d.short()));
                            }
                        } else {
                            viol(rec, S::NAME, "open/in-place-polynomial", &id, "open failed for a labelled polynomial changed in place".into());
                        }
                    }
                    (Err(_), Err(_)) => rec.class("in-place-refused-both"),
                    (Ok(_), Err(o)) => viol(rec, S::NAME, "commit/in-place-polynomial", &id, format!("the fresh labelled polynomial is committed, the one changed in place is refused: {}", o.short())),
                    (Err(o), Ok(_)) => viol(rec, S::NAME, "commit/in-place-polynomial", &id, format!("the fresh labelled polynomial is refused ({}), the one changed in place is committed", o.short())),
                }
            }
        }
    }
}

/// PST13: the commitment is a function of the POLYNOMIAL, not of how its term list is written.  `SparsePolynomial`
/// has a public term vector; the same polynomial with its terms reversed, two terms exchanged, one monomial split
/// over two entries, a zero-coefficient entry added, commits to the naive sum over the key and to the commitment of
/// the canonical form, and its opening is accepted.
pub fn pst_term_representations(rec: &mut Rec) {
    type S = SPst;
    for (nv, d) in [(2usize, 3usize), (3, 2)] {
        let cfg = KeyCfg::mv(nv, d, d);
        let mut keys: Option<Keys<S>> = None;
        let shapes = S::shapes(&cfg, rec.seed);
        for (sname, canon) in shapes.iter() {
            if canon.terms().len() < 2 {
                continue;
            }
            let id = format!("PST/term-representations/{}/{}", cfg.id(), sname);
            if !rec.take(&id) {
                continue;
            }
            if keys.is_none() {
                keys = build_keys::<S>(&cfg, rec.seed).ok();
            }
            let keys = match &keys {
                Some(k) => k,
                None => return,
            };
            rec.dim("scheme", "PST");
            let t: Vec<(Fr381, SparseTerm)> = canon.terms().to_vec();
            let mut variants: Vec<(&str, Vec<(Fr381, SparseTerm)>)> = Vec::new();
            variants.push(("reversed", t.iter().rev().cloned().collect()));
            let mut v = t.clone();
            v.swap(0, 1);
            variants.push(("first-two-exchanged", v));
            let mut v = t.clone();
            let k = v.len() - 1;
            v.swap(0, k);
            variants.push(("first-and-last-exchanged", v));
            let half = rho::<Fr381>(rec.seed, 6);
            let mut v = t.clone();
            let last = v[k].clone();
            v[k].0 = half;
            v.push((last.0 - half, last.1.clone()));
            variants.push(("last-monomial-split", v));
            let mut v = t.clone();
            let first = v[0].clone();
            v[0].0 = half;
            v.insert(1, (first.0 - half, first.1.clone()));
            variants.push(("first-monomial-split", v));
            let mut v = t.clone();
            v.insert(1, (Fr381::zero(), t[k].1.clone()));
            variants.push(("zero-entry", v));
            let want = match S::expected(keys, &lp::<S>("p", canon.clone(), None, None)) {
                Ok(w) => w,
                Err(_) => continue,
            };
            let z = S::points(&cfg, rec.seed)[0].1.clone();
            for (vn, terms) in variants {
                let mut q = canon.clone();
                q.terms = terms;
                if q.evaluate(&z) != canon.evaluate(&z) {
                    panic!("MACHINERY: rewritten term list is another polynomial");
                }
                rec.count_points(1);
                rec.op(3);
                let c = match commit_set::<S>(keys, vec![lp::<S>("p", q.clone(), None, None)], rec.seed, 0) {
                    Ok(c) => c,
                    Err(o) => {
                        viol(rec, "PST", "commit/term-representation", &id, format!("commit refused the polynomial written with its terms {}: {}", vn, o.short()));
                        continue;
                    }
                };
                if ser(c.comms[0].commitment()) != ser(&want) {
                    rec.class("representation-dependent");
                    viol(rec, "PST", "commit/term-representation", &id, format!("the commitment of the polynomial written with its terms {} differs from the key-defined sum / the commitment of the canonical form", vn));
                    continue;
                }
                rec.class("representation-independent");
                match open_single::<S>(keys, &c, &[0], &z, 0, rec.seed, 0) {
                    Ok(s1) => {
                        let d = check_single::<S>(keys, &[&c.comms[0]], &z, &s1.values, &s1.proof, 0, rec.seed, 0);
                        if !d.accepted() {
                            viol(rec, "PST", "check/term-representation", &id, format!("opening of the polynomial written with its terms {} is not accepted: {}", vn, d.short()));
                        }
                    }
                    Err(o) => viol(rec, "PST", "open/term-representation", &id, format!("open failed for the polynomial written with its terms {}: {}", vn, o.short())),
                }
            }
        }
    }
}

pub fn run(rec: &mut Rec) {
    let max_len = if rec.thorough() { 5 } else { 4 };
    group_scheme::<SMar>(rec, max_len);
    group_scheme::<SSon>(rec, max_len);
    group_scheme::<SIpa>(rec, max_len);
    group_scheme::<SPst>(rec, 4);
    hash_scheme::<SLig>(rec, max_len.min(4));
    hash_scheme::<SMll>(rec, 4);
    hash_scheme::<SBrk>(rec, 4);
    special(rec, max_len.min(4));
    group_ladder::<SMar>(rec);
    group_ladder::<SSon>(rec);
    group_ladder::<SIpa>(rec);
    group_ladder::<SPst>(rec);
    special_ladder(rec);
    folding_commitments(rec);
    pst_term_representations(rec);
    crate::for_each_scheme!(S, {
        in_place_polynomials::<S>(rec);
    });
    randomness_algebra(rec, if rec.thorough() { 3 } else { 2 });
}
