//! C03 — no crafted or malformed proof proves a false claim (attack catalogue, E3).
use crate::checks::c01::{slice_b_labels, slice_b_polys};
use crate::pmut::ProofMut;
use crate::rec::Rec;
use crate::sch::*;
use crate::schemes::*;
use crate::scope::*;
use crate::source::*;
use crate::tr::*;
use crate::util::*;
use ark_ff::One;
use ark_poly::Polynomial;

fn expect_reject(rec: &mut Rec, d: &Dec, sch: &str, entry: &str, op: &str, id: &str, detail: String) {
    rec.count_points(1);
    rec.op(1);
    rec.class(&format!("attack-{}", d.class()));
    // operator class: strip indices so that signatures stay stable
    let opc: String = op.chars().filter(|c| !c.is_ascii_digit()).collect();
    rec.obs(&format!("{}|{}|{}|{}", sch, entry, opc, d.class()));
    if d.accepted() {
        rec.violation(&format!("C03/{}/{}/{}", sch, entry, opc), id, format!("false claim accepted with crafted proof: {} :: {}", op, detail));
    }
}

/// Items 1 and 2: proofs made from another polynomial / state / point / commitment.
pub fn cross<S: Sch>(rec: &mut Rec) {
    let cfg = slice_b::<S>();
    let keys = match build_keys::<S>(&cfg, rec.seed) {
        Ok(k) => k,
        Err(_) => return,
    };
    // same options for all three polynomials so that labels/bounds are interchangeable, plus the
    // slice-B set with mixed options
    let sets: Vec<(&str, Vec<LP<S>>)> = {
        let b = slice_b_polys::<S>(&cfg, rec.seed);
        let plain: Vec<LP<S>> = b.iter().map(|p| lp::<S>(p.label(), p.polynomial().clone(), None, None)).collect();
        let hid = if S::HIDING { Some(1) } else { None };
        let bound = b[1].degree_bound();
        let full: Vec<LP<S>> = b.iter().map(|p| lp::<S>(p.label(), p.polynomial().clone(), bound, hid)).collect();
        let mut v = vec![("plain", plain), ("mixed", b.clone()), ("bound+hiding", full)];
        // polynomials that differ only by an exchange of two variables (independent trapdoors / generators
        // per variable are what tells them apart)
        let shapes = S::shapes(&cfg, rec.seed);
        let dense = shapes.iter().rev().find(|(m, _)| m.starts_with("dense")).unwrap().1.clone();
        if let Some(sw) = S::swap_vars(&dense) {
            if let Some(sw2) = S::swap_vars(b[1].polynomial()) {
                let hid = if S::HIDING { Some(1) } else { None };
                v.push(("variables-exchanged", vec![lp::<S>("p0", dense.clone(), None, None), lp::<S>("p1", sw.clone(), None, None), lp::<S>("p2", sw2.clone(), None, None)]));
                v.push(("variables-exchanged+hiding", vec![lp::<S>("p0", dense, None, hid), lp::<S>("p1", sw, None, hid), lp::<S>("p2", sw2, None, hid)]));
            }
        }
        v
    };
    let labels = slice_b_labels::<S>(&cfg, rec.seed);
    let z = labels[0].1.clone();
    let z2 = labels[2].1.clone();
    for (sn, polys) in sets {
        let id = format!("{}/X/{}/{}", S::NAME, cfg.id(), sn);
        if !rec.take(&id) {
            continue;
        }
        rec.dim("scheme", S::NAME);
        let c = match commit_set::<S>(&keys, polys, rec.seed, 0) {
            Ok(c) => c,
            Err(_) => continue,
        };
        rec.sample(&format!("{}-cross", S::NAME), format!("{}: prover run on (q,state_q) against commitment(p); proof replay across points and commitments", id));
        let n = c.polys.len();
        // Warm verifier: before any attack the verifier of this process accepts honest openings of every commitment
        // (up to 6 points x 4 transcript pre-states each), so that whatever a verifier remembers between calls
        // about a commitment it has seen is in place when the crafted proofs arrive.
        let mut warm = 0usize;
        for i in 0..n {
            for (_, pt) in S::points(&cfg, rec.seed).iter().take(6) {
                for pre in 0..4usize {
                    if let Ok(s) = open_single::<S>(&keys, &c, &[i], pt, pre, rec.seed, 0) {
                        if check_single::<S>(&keys, &[&c.comms[i]], pt, &s.values, &s.proof, pre, rec.seed, 0).accepted() {
                            warm += 1;
                        }
                    }
                }
            }
        }
        rec.op(warm as u64);
        rec.class(if warm > 0 { "warm-up-accepted" } else { "warm-up-none" });
        for i in 0..n {
            for j in 0..n {
                if i == j {
                    continue;
                }
                let (p, q) = (&c.polys[i], &c.polys[j]);
                let (vp, vq) = (p.polynomial().evaluate(&z), q.polynomial().evaluate(&z));
                if vp == vq {
                    rec.class("still-true");
                    continue;
                }
                // item 1: open(q relabelled as p, commitment(p), state(q)); claim q(z) for commitment(p)
                let q_as_p = lp::<S>(p.label(), q.polynomial().clone(), q.degree_bound(), q.hiding_bound());
                let mut sponge = crate::schemes::sponge_pre::<S::F>(0);
                let mut rng = crate::alpha::seed_rng(rec.seed, 20);
                for (variant, comm_for_open) in [("comm(p)", &c.comms[i]), ("comm(q)", &c.comms[j])] {
                    let cm = relabel::<S>(comm_for_open, p.label(), comm_for_open.degree_bound());
                    let pf = do_open::<S>(&keys.ck, &[&q_as_p], &[&cm], &z, &mut sponge.clone(), &[&c.states[j]], Some(&mut rng as &mut dyn ark_std::rand::RngCore));
                    if let Ok(pf) = pf {
                        let d = check_single::<S>(&keys, &[&c.comms[i]], &z, &[vq], &pf, 0, rec.seed, 0);
                        expect_reject(rec, &d, S::NAME, "check", "prover-on-other-polynomial", &id, format!("open(q={},state(q),{}) checked against commitment({}) with claim q(z): {}", q.label(), variant, p.label(), d.short()));
                        // and presented with p's commitment relabelled with q's bound
                        let cm2 = relabel::<S>(&c.comms[i], p.label(), q.degree_bound());
                        let d = check_single::<S>(&keys, &[&cm2], &z, &[vq], &pf, 0, rec.seed, 0);
                        expect_reject(rec, &d, S::NAME, "check", "prover-on-other-polynomial", &id, format!("same, commitment({}) labelled with q's bound: {}", p.label(), d.short()));
                    } else {
                        rec.class("attack-open-refused");
                    }
                }
                let _ = &mut sponge;
                // item 2b: honest proof for (q, z) used for commitment(p) with claim q(z)
                if let Ok(s) = open_single::<S>(&keys, &c, &[j], &z, 0, rec.seed, 0) {
                    let d = check_single::<S>(&keys, &[&c.comms[i]], &z, &[vq], &s.proof, 0, rec.seed, 0);
                    expect_reject(rec, &d, S::NAME, "check", "proof-of-other-commitment", &id, format!("proof for ({},z) presented for commitment({}) with claim q(z): {}", q.label(), p.label(), d.short()));
                    let cm = relabel::<S>(&c.comms[i], q.label(), c.comms[i].degree_bound());
                    let d = check_single::<S>(&keys, &[&cm], &z, &[vq], &s.proof, 0, rec.seed, 0);
                    expect_reject(rec, &d, S::NAME, "check", "proof-of-other-commitment", &id, format!("same with commitment({}) relabelled {}: {}", p.label(), q.label(), d.short()));
                }
            }
            // item 2a: honest proof for (p, z2) replayed at z with the value p(z2)
            let p = &c.polys[i];
            let (v1, v2) = (p.polynomial().evaluate(&z), p.polynomial().evaluate(&z2));
            if v1 != v2 {
                if let Ok(s) = open_single::<S>(&keys, &c, &[i], &z2, 0, rec.seed, 0) {
                    let d = check_single::<S>(&keys, &[&c.comms[i]], &z, &[v2], &s.proof, 0, rec.seed, 0);
                    expect_reject(rec, &d, S::NAME, "check", "proof-of-other-point", &id, format!("proof for ({},z') replayed at z with claim p(z'): {}", p.label(), d.short()));
                }
            } else {
                rec.class("still-true");
            }
        }
    }
}

/// Items 3 and 4 at `check`: every component replacement / shape mutation together with a false claim.
pub fn mutate_single<S: Sch + ProofMut>(rec: &mut Rec, w: Width) {
    let mut prev: Option<Pf<S>> = None;
    for_single::<S>(rec, w, |rec, t| {
        let comms = t.comms();
        let honest = check_single::<S>(t.keys, &comms, &t.s.point, &t.s.values, &t.s.proof, 0, rec.seed, 0);
        rec.dim("scheme", S::NAME);
        if !honest.accepted() {
            rec.class("source-not-accepted");
            return;
        }
        rec.class("source-accepted");
        let other = prev.clone().unwrap_or_else(|| t.s.proof.clone());
        let muts = S::proof_mutations(&t.s.proof, &other, rec.seed);
        rec.sample(&format!("{}-mut", S::NAME), format!("{}: {} proof mutations x false claims, e.g. {}", t.id, muts.len(), muts.first().map(|m| m.0.clone()).unwrap_or_default()));
        // false claims: value[0]+1, and (multi-poly) the last value + 1
        let mut claims: Vec<(String, Vec<S::F>)> = Vec::new();
        let mut v = t.s.values.clone();
        v[0] += S::F::one();
        claims.push(("value[0]+1".into(), v));
        if t.s.values.len() > 1 {
            let mut v = t.s.values.clone();
            let l = v.len() - 1;
            v[l] -= S::F::one();
            claims.push((format!("value[{}]-1", l), v));
        }
        for (name, m) in muts.iter() {
            for (cn, claim) in claims.iter() {
                let d = check_single::<S>(t.keys, &comms, &t.s.point, claim, m, 0, rec.seed, 0);
                expect_reject(rec, &d, S::NAME, "check", name, &t.id, format!("claim {}: {}", cn, d.short()));
            }
        }
        prev = Some(t.s.proof.clone());
    });
}

/// Item 4 at `batch_check`: proof-list length 0..n+1, permutations, duplicates, with a false claim.
pub fn mutate_batch<S: Sch + ProofMut>(rec: &mut Rec, max_size: usize) {
    for_batch::<S>(rec, max_size, None, |rec, t| {
        let comms: Vec<&LCm<S>> = t.c.comms.iter().collect();
        let honest = check_batch::<S>(t.keys, &comms, &t.b.qs, &t.b.evals, &t.b.proof, 0, rec.seed, 0);
        rec.dim("scheme", S::NAME);
        if !honest.accepted() {
            rec.class("source-not-accepted");
            return;
        }
        rec.class("source-accepted");
        let list: Vec<Pf<S>> = t.b.proof.clone().into();
        let n = list.len();
        let keys_e: Vec<_> = t.b.evals.keys().cloned().collect();
        let mut lists: Vec<(String, Vec<Pf<S>>)> = Vec::new();
        for k in 0..n {
            lists.push((format!("shape:list-truncated(len={})", k), list[..k].to_vec()));
        }
        let mut l = list.clone();
        l.push(list[n - 1].clone());
        lists.push(("shape:list-surplus".into(), l));
        if n >= 2 {
            let mut l = list.clone();
            l.swap(0, 1);
            lists.push(("shape:list-swap01".into(), l));
            let mut l = list.clone();
            l[1] = list[0].clone();
            lists.push(("shape:list-dup0".into(), l));
            let mut l = list.clone();
            l.remove(0);
            lists.push(("shape:list-drop-first".into(), l));
        }
        // per-proof shape mutations of the first proof
        for (name, m) in S::proof_mutations(&list[0], &list[n - 1], rec.seed) {
            if name.starts_with("shape:") {
                let mut l = list.clone();
                l[0] = m;
                lists.push((format!("proof[0].{}", name), l));
            }
        }
        rec.sample(&format!("{}-batchmut", S::NAME), format!("{}: {} proof-list mutations x false claim at each position", t.id, lists.len()));
        for (pos, k) in keys_e.iter().enumerate() {
            let mut ev = t.b.evals.clone();
            *ev.get_mut(k).unwrap() += S::F::one();
            for (name, l) in lists.iter() {
                let bp: BPf<S> = l.clone().into();
                let d = check_batch::<S>(t.keys, &comms, &t.b.qs, &ev, &bp, 0, rec.seed, 0);
                expect_reject(rec, &d, S::NAME, "batch_check", name, &t.id, format!("false claim at position {} ({}): {}", pos, k.0, d.short()));
            }
        }
    });
}

/// Catalogue item "IPA rounds log_d + k with padded identity generators": a cheating prover runs the
/// folding argument over vectors of length 2^k (d+1) whose upper part sits on identity generators;
/// coefficients placed there leave the commitment unchanged but move the evaluation to any value.
/// A verifier that does not insist on exactly log2(d+1) rounds accepts it.
pub fn ipa_padded_forgery(rec: &mut Rec) {
    use crate::refm::{challenge, inner, naive_msm, naive_mul, ro_challenge, ser_unc};
    use crate::schemes::{sponge_pre, FrJ, GJ, UP};
    use ark_ec::{AffineRepr, CurveGroup};
    use ark_ff::{Field, Zero};
    use ark_poly::DenseUVPolynomial;
    use ark_poly_commit::ipa_pc::Proof;
    type G = <GJ as AffineRepr>::Group;
    for s_deg in [1usize, 3, 7] {
        for extra in [1usize, 2] {
            for zname in ["r1", "r2"] {
                let id = format!("IPA/forge/padded-generators/s={}/extra-rounds={}/z={}", s_deg, extra, zname);
                if !rec.take(&id) {
                    continue;
                }
                rec.dim("scheme", "IPA");
                let cfg = KeyCfg::uni(s_deg, s_deg, 1, None);
                let keys = match build_keys::<SIpa>(&cfg, rec.seed) {
                    Ok(k) => k,
                    Err(_) => continue,
                };
                let n = s_deg + 1;
                let r = crate::alpha::rho_stream::<FrJ>(rec.seed, 1, n + 1);
                let p = UP::<FrJ>::from_coefficients_slice(&r[..n]);
                let c = match commit_set::<SIpa>(&keys, vec![lp::<SIpa>("p", p.clone(), None, None)], rec.seed, 0) {
                    Ok(c) => c,
                    Err(_) => continue,
                };
                let z = crate::alpha::rho::<FrJ>(rec.seed, if zname == "r1" { 1 } else { 2 });
                let truth = p.evaluate(&z);
                let false_value = truth + FrJ::one();
                let mut sp = sponge_pre::<FrJ>(0);
                let chi: FrJ = challenge(&mut sp);
                let comm = c.comms[0].commitment().comm;
                let combined = naive_mul(&comm, &chi).into_affine();
                let combined_v = chi * false_value;
                let big = n << extra;
                let mut a = vec![FrJ::zero(); big];
                for (i, ci) in p.coeffs.iter().enumerate() {
                    a[i] = chi * ci;
                }
                a[n] = chi * (false_value - truth) * z.pow([n as u64]).inverse().unwrap();
                let mut zs = Vec::with_capacity(big);
                let mut cur = FrJ::one();
                for _ in 0..big {
                    zs.push(cur);
                    cur *= z;
                }
                let mut key: Vec<G> = keys.vk.comm_key.iter().map(|g| g.into_group()).collect();
                key.resize(big, G::zero());
                let mut bytes = Vec::new();
                ser_unc(&combined, &mut bytes);
                ser_unc(&z, &mut bytes);
                ser_unc(&combined_v, &mut bytes);
                let mut rc: FrJ = ro_challenge(&bytes);
                let h_prime = naive_mul(&keys.vk.h, &rc).into_affine();
                let (mut l_vec, mut r_vec) = (Vec::new(), Vec::new());
                let mut m = big;
                while m > 1 {
                    let half = m / 2;
                    let ka: Vec<GJ> = G::normalize_batch(&key);
                    let l = (naive_msm(&ka[..half], &a[half..m]) + naive_mul(&h_prime, &inner(&a[half..m], &zs[..half]))).into_affine();
                    let rr = (naive_msm(&ka[half..m], &a[..half]) + naive_mul(&h_prime, &inner(&a[..half], &zs[half..m]))).into_affine();
                    l_vec.push(l);
                    r_vec.push(rr);
                    let mut bytes = Vec::new();
                    ser_unc(&rc, &mut bytes);
                    ser_unc(&l, &mut bytes);
                    ser_unc(&rr, &mut bytes);
                    rc = ro_challenge(&bytes);
                    let inv = rc.inverse().unwrap();
                    let na: Vec<FrJ> = (0..half).map(|i| a[i] + inv * a[half + i]).collect();
                    let nz: Vec<FrJ> = (0..half).map(|i| zs[i] + rc * zs[half + i]).collect();
                    let nk: Vec<G> = (0..half).map(|i| key[i] + naive_mul(&ka[half + i], &rc)).collect();
                    a = na;
                    zs = nz;
                    key = nk;
                    m = half;
                }
                let forged = Proof::<GJ> { l_vec, r_vec, final_comm_key: key[0].into_affine(), c: a[0], hiding_comm: None, rand: None };
                let comms: Vec<&LCm<SIpa>> = c.comms.iter().collect();
                let d = check_single::<SIpa>(&keys, &comms, &z, &[false_value], &forged, 0, rec.seed, 0);
                expect_reject(rec, &d, "IPA", "check", "forged:extra-rounds-on-identity-generators", &id, format!("{} rounds under a {}-generator key, claim value+1: {}", forged.l_vec.len(), n, d.short()));
                // the same forgery inside a one-point batch
                let mut qs = ark_poly_commit::QuerySet::<FrJ>::new();
                qs.insert(("p".into(), ("a".into(), z)));
                let mut ev = ark_poly_commit::Evaluations::<FrJ, FrJ>::new();
                ev.insert(("p".to_string(), z), false_value);
                let bp: BPf<SIpa> = vec![forged];
                let d = check_batch::<SIpa>(&keys, &comms, &qs, &ev, &bp, 0, rec.seed, 0);
                expect_reject(rec, &d, "IPA", "batch_check", "forged:extra-rounds-on-identity-generators", &id, format!("claim value+1: {}", d.short()));
                rec.sample("IPA-forge", id.clone());
            }
        }
    }
}


/// Constructive forgery against an IPA verifier whose hiding challenge does not bind the prover's `hiding_comm`
/// (weak Fiat-Shamir): the library's prover is run on the adversary's own polynomial `q`; the proof is then given
/// `hiding_comm = (xi*C_q - xi*C_p) / chi`, `rand = 0`, with `chi` computed from the public data the verifier would
/// hash if it left `hiding_comm` (and possibly more) out - after the hiding step the verifier's combined commitment
/// is `xi*C_q` and the rest of the `q`-proof verifies the value `q(z)` against the honest commitment to `p`.  Against a
/// sound verifier `chi` depends on `hiding_comm` itself and the construction fails.  Four guesses of the hashed
/// inputs, hiding and non-hiding commitments to `p`, `check` and a one-point `batch_check`.
pub fn ipa_unbound_hiding_forgery(rec: &mut Rec) {
    use crate::refm::{challenge, naive_mul, ro_challenge, ser_unc};
    use crate::schemes::{sponge_pre, FrJ, GJ, UP};
    use ark_ec::{AffineRepr, CurveGroup};
    use ark_ff::{Field, Zero};
    use ark_poly::DenseUVPolynomial;
    use ark_poly_commit::ipa_pc::Proof;
    for s_deg in [3usize, 7] {
        for hp in [None, Some(1usize)] {
            for variant in ["C,z,v", "C,z", "C,v", "C"] {
                for zname in ["r1", "r2"] {
                    let id = format!("IPA/forge/unbound-hiding-comm/s={}/hiding={:?}/hashed=({})/z={}", s_deg, hp, variant, zname);
                    if !rec.take(&id) {
                        continue;
                    }
                    rec.dim("scheme", "IPA");
                    let cfg = KeyCfg::uni(s_deg, s_deg, 1, None);
                    let keys = match build_keys::<SIpa>(&cfg, rec.seed) {
                        Ok(k) => k,
                        Err(_) => continue,
                    };
                    let n = s_deg + 1;
                    let r = crate::alpha::rho_stream::<FrJ>(rec.seed, 1, 2 * n + 1);
                    let p = UP::<FrJ>::from_coefficients_slice(&r[..n]);
                    let q = UP::<FrJ>::from_coefficients_slice(&r[n..2 * n]);
                    let c = match commit_set::<SIpa>(&keys, vec![lp::<SIpa>("p", p.clone(), None, hp), lp::<SIpa>("q", q.clone(), None, None)], rec.seed, 0) {
                        Ok(c) => c,
                        Err(_) => continue,
                    };
                    let z = crate::alpha::rho::<FrJ>(rec.seed, if zname == "r1" { 1 } else { 2 });
                    if p.evaluate(&z) == q.evaluate(&z) {
                        continue;
                    }
                    let sq = match open_single::<SIpa>(&keys, &c, &[1], &z, 0, rec.seed, 0) {
                        Ok(s) => s,
                        Err(_) => continue,
                    };
                    rec.op(3);
                    let mut sp = sponge_pre::<FrJ>(0);
                    let xi: FrJ = challenge(&mut sp);
                    let cp = c.comms[0].commitment().comm;
                    let cq = c.comms[1].commitment().comm;
                    let combined_p = naive_mul(&cp, &xi).into_affine();
                    let v = xi * q.evaluate(&z);
                    let mut bytes = Vec::new();
                    ser_unc(&combined_p, &mut bytes);
                    if variant.contains('z') {
                        ser_unc(&z, &mut bytes);
                    }
                    if variant.contains('v') {
                        ser_unc(&v, &mut bytes);
                    }
                    let chi: FrJ = ro_challenge(&bytes);
                    let diff = (naive_mul(&cq, &xi) - naive_mul(&cp, &xi)).into_affine();
                    let hc = naive_mul(&diff, &chi.inverse().unwrap()).into_affine();
                    let forged = Proof::<GJ> { l_vec: sq.proof.l_vec.clone(), r_vec: sq.proof.r_vec.clone(), final_comm_key: sq.proof.final_comm_key, c: sq.proof.c, hiding_comm: Some(hc), rand: Some(FrJ::zero()) };
                    let comms: Vec<&LCm<SIpa>> = vec![&c.comms[0]];
                    let fv = q.evaluate(&z);
                    let d = check_single::<SIpa>(&keys, &comms, &z, &[fv], &forged, 0, rec.seed, 0);
                    expect_reject(rec, &d, "IPA", "check", "forged:hiding-comm-absorbs-the-commitment-difference", &id, format!("proof of q with hiding_comm = (xi*C_q - xi*C_p)/chi, chi = RO({}), claim q(z) for the commitment to p: {}", variant, d.short()));
                    let mut qs = ark_poly_commit::QuerySet::<FrJ>::new();
                    qs.insert(("p".into(), ("a".into(), z)));
                    let mut ev = ark_poly_commit::Evaluations::<FrJ, FrJ>::new();
                    ev.insert(("p".to_string(), z), fv);
                    let bp: BPf<SIpa> = vec![forged];
                    let d = check_batch::<SIpa>(&keys, &comms, &qs, &ev, &bp, 0, rec.seed, 0);
                    expect_reject(rec, &d, "IPA", "batch_check", "forged:hiding-comm-absorbs-the-commitment-difference", &id, format!("claim q(z): {}", d.short()));
                }
            }
        }
    }
}


/// Constructive forgery against a Hyrax verifier that evaluates equation (13) as ONE merged multi-scalar product over
/// `com_key || h || row_coms || com_d` with the scalars `z || z_d || -c*l || -1` and does not pin the length of the
/// prover's vector `z`: a `z` of `2*dim + 2` entries covers every base with prover-chosen scalars and pushes the
/// verifier's own scalars past the end of the (truncating) product, so the commitment plays no part.  The forger needs no
/// knowledge of the polynomial: `com_eval` commits to the false value, `com_d = com_key[0]`, `z = [z0,0,..,0,-z0]` with
/// `z0 = (c*v' + b)/r_0`, `z_b = c*r_eval + r_b`.  A verifier that checks `|z| = dim` (or commits to `z` through a
/// length-checked Pedersen commitment) refuses it.  Variants: the cancelling entry at every position a merged layout
/// could put `com_d` (after the row commitments, before them, directly after `h`).
pub fn hyrax_stretched_z_forgery(rec: &mut Rec) {
    use crate::refm::{naive_mul, ser_unc, tensor_msb};
    use ark_crypto_primitives::sponge::CryptographicSponge;
    use ark_ec::{AffineRepr, CurveGroup};
    use ark_ff::{Field, Zero};
    use ark_poly_commit::hyrax::HyraxProof;
    type S = SHyr;
    for nv in [2usize, 4] {
        for layout in ["key|h|rows|d", "key|h|d|rows", "key|rows|h|d", "key|d"] {
            for pn in ["generic", "second"] {
                let id = format!("HYR/forge/stretched-z/nv={}/layout={}/z={}", nv, layout, pn);
                if !rec.take(&id) {
                    continue;
                }
                rec.dim("scheme", "HYR");
                let cfg = KeyCfg::ml(nv);
                let keys = match build_keys::<S>(&cfg, rec.seed) {
                    Ok(k) => k,
                    Err(_) => continue,
                };
                let p = <S as Sch>::shapes(&cfg, rec.seed).pop().unwrap().1;
                let c = match commit_set::<S>(&keys, vec![lp::<S>("p", p.clone(), None, None)], rec.seed, 0) {
                    Ok(c) => c,
                    Err(_) => continue,
                };
                let pts = <S as Sch>::points(&cfg, rec.seed);
                let point = if pn == "generic" { pts[0].1.clone() } else { pts[pts.len() - 1].1.clone() };
                let truth = p.evaluate(&point);
                let fv = truth + FrJ::from(7u64);
                let dim = 1usize << (nv / 2);
                let vk = &keys.vk;
                let rr = crate::alpha::rho_stream::<FrJ>(rec.seed, 91, 4);
                let (r_eval, b, r_b) = (rr[0], rr[1], rr[2]);
                let com_eval = (naive_mul(&vk.com_key[0], &fv) + naive_mul(&vk.h, &r_eval)).into_affine();
                let com_d = vk.com_key[0];
                let com_b = (naive_mul(&vk.com_key[0], &b) + naive_mul(&vk.h, &r_b)).into_affine();
                // the verifier's challenge
                let mut sp = sponge_pre::<FrJ>(0);
                let mut bytes = Vec::new();
                ser_unc(vk, &mut bytes);
                sp.absorb(&bytes);
                let mut bytes = Vec::new();
                ser_unc(&c.comms[0].commitment().row_coms, &mut bytes);
                sp.absorb(&bytes);
                sp.absorb(&point.to_vec());
                for g in [&com_eval, &com_d, &com_b] {
                    let mut bytes = Vec::new();
                    ser_unc(g, &mut bytes);
                    sp.absorb(&bytes);
                }
                let ch: FrJ = sp.squeeze_field_elements(1)[0];
                let rev: Vec<FrJ> = point.iter().rev().cloned().collect();
                let r = tensor_msb(&rev[..nv / 2]);
                if r[0].is_zero() {
                    continue;
                }
                let z0 = (ch * fv + b) * r[0].inverse().unwrap();
                let (len, pos) = match layout {
                    "key|h|rows|d" => (2 * dim + 2, 2 * dim + 1),
                    "key|h|d|rows" => (2 * dim + 2, dim + 1),
                    "key|rows|h|d" => (2 * dim + 2, 2 * dim + 1),
                    _ => (dim + 1, dim),
                };
                let mut z = vec![FrJ::zero(); len];
                z[0] = z0;
                z[pos] = -z0;
                let forged = HyraxProof::<GJ> { com_eval, com_d, com_b, z, z_d: FrJ::zero(), z_b: ch * r_eval + r_b, r_eval };
                rec.op(2);
                let comms: Vec<&LCm<S>> = c.comms.iter().collect();
                let pf: Pf<S> = vec![forged];
                let d = check_single::<S>(&keys, &comms, &point, &[fv], &pf, 0, rec.seed, 0);
                expect_reject(rec, &d, "HYR", "check", "forged:stretched-z-covers-the-verifier-terms", &id, format!("z of {} entries for dim {}, claim value+7: {}", len, dim, d.short()));
            }
        }
    }
}

/// Constructive forgery against a pairing batch verifier that weights two proofs equally: a false value
/// at the first point together with opposite shifts `W_1 + aG`, `W_2 - aG`, `a = xi_1 * delta / (z_1 - z_2)`
/// (`xi_1` the public opening challenge of the first group).  With independent verifier randomizers it
/// fails; it is accepted exactly when the randomizer of the second proof equals that of the first.
pub fn equal_weight_forgery<S: Sch<F = Fr381, Pt = Fr381>>(rec: &mut Rec, g_of: &dyn Fn(&VK<S>) -> <E381 as ark_ec::pairing::Pairing>::G1Affine, mk: &dyn Fn(&Pf<S>, <E381 as ark_ec::pairing::Pairing>::G1Affine) -> Pf<S>, w_of: &dyn Fn(&Pf<S>) -> <E381 as ark_ec::pairing::Pairing>::G1Affine) {
    use crate::refm::{challenge, naive_mul};
    use ark_ec::{AffineRepr, CurveGroup};
    use ark_ff::Field;
    let cfg = slice_b::<S>();
    let keys = match build_keys::<S>(&cfg, rec.seed) {
        Ok(k) => k,
        Err(_) => return,
    };
    let labels = slice_b_labels::<S>(&cfg, rec.seed);
    let shapes = S::shapes(&cfg, rec.seed);
    let dense = shapes.iter().rev().find(|(n, _)| n.starts_with("dense")).unwrap().1.clone();
    for hid in [None, Some(1usize)] {
        for (dn, delta) in [("1", Fr381::one()), ("r1", crate::alpha::rho::<Fr381>(rec.seed, 1))] {
            for three in [false, true] {
                let id = format!("{}/forge/equal-weights/h={:?}/delta={}/labels={}", S::NAME, hid, dn, if three { 3 } else { 2 });
                if !rec.take(&id) {
                    continue;
                }
                rec.dim("scheme", S::NAME);
                let c = match commit_set::<S>(&keys, vec![lp::<S>("p", dense.clone(), None, hid)], rec.seed, 0) {
                    Ok(c) => c,
                    Err(_) => continue,
                };
                // labels a (z1) and c (z2); with three labels also b (= z1) in the middle
                let used: Vec<usize> = if three { vec![0, 1, 2] } else { vec![0, 2] };
                let mut qs = ark_poly_commit::QuerySet::<Fr381>::new();
                for l in used.iter() {
                    qs.insert(("p".into(), (labels[*l].0.clone(), labels[*l].1)));
                }
                let b = match open_batch::<S>(&keys, &c, &[0], &qs, 0, rec.seed, 0) {
                    Ok(b) => b,
                    Err(_) => continue,
                };
                let list: Vec<Pf<S>> = b.proof.clone().into();
                if list.len() != used.len() {
                    continue;
                }
                let comms: Vec<&LCm<S>> = c.comms.iter().collect();
                let g = g_of(&keys.vk);
                let (z1, z2) = (labels[0].1, labels[2].1);
                // every pair of groups with different points: (first, last) and, with three labels, (middle, last)
                let pairs: Vec<(usize, usize, Fr381)> = if three { vec![(0, 2, z1), (1, 2, z1)] } else { vec![(0, 1, z1)] };
                for (i, j, zi) in pairs {
                    // xi of group i: one squeeze per polynomial and group before it
                    let mut sp = sponge_pre::<Fr381>(0);
                    let mut xi: Fr381 = challenge(&mut sp);
                    for _ in 0..i {
                        if S::NAME.starts_with("SON") {
                            let _: Fr381 = challenge(&mut sp);
                        }
                        xi = challenge(&mut sp);
                    }
                    let a = xi * delta * (zi - z2).inverse().unwrap();
                    let shift = naive_mul(&g, &a);
                    let mut l2 = list.clone();
                    l2[i] = mk(&list[i], (w_of(&list[i]).into_group() + shift).into_affine());
                    l2[j] = mk(&list[j], (w_of(&list[j]).into_group() - shift).into_affine());
                    let mut ev = b.evals.clone();
                    *ev.get_mut(&("p".to_string(), zi)).unwrap() += delta;
                    let bp: BPf<S> = l2.into();
                    for vs in 0..2usize {
                        rec.count_points(1);
                        let d = check_batch::<S>(&keys, &comms, &qs, &ev, &bp, 0, rec.seed, vs);
                        expect_reject(rec, &d, S::NAME, "batch_check", "forged:equal-weights-compensation", &id, format!("false value at group {} compensated in the proofs of groups {} and {} (verifier seed {}): {}", i, i, j, vs, d.short()));
                    }
                }
                rec.sample(&format!("{}-forge", S::NAME), id.clone());
            }
        }
    }
}


/// Constructive forgery against a verifier whose column positions do not depend on the opened vector `v`
/// (weak Fiat-Shamir): univariate Ligero, a polynomial wide enough that fewer positions are queried than the
/// matrix has columns (degree 4095: 8 x 512, 191 queries).  Take the honest proof, read the queried positions Q
/// off its paths, and replace `v` by `v + delta` with `delta(X) = c * prod_{q in Q} (X - w^q)`: the Reed-Solomon
/// encoding of `delta` vanishes at every queried position, so all column tests still pass if the verifier
/// queries Q again; the claimed value moves by `delta(z) != 0`.  Against a sound verifier the positions are
/// squeezed after `v` was absorbed, so the forged `v` moves them and the proof is rejected.  One polynomial per
/// call, and two equally wide polynomials in one call with the first / the second one forged.
pub fn lig_vanishing_forgery(rec: &mut Rec) {
    use crate::mirror::{convert, MComm, MProof};
    use ark_ff::{Field, Zero};
    use ark_poly::{DenseUVPolynomial, EvaluationDomain, GeneralEvaluationDomain};
    type S = SLig;
    let deg = 4095usize;
    let r = crate::alpha::rho_stream::<Fr381>(rec.seed, 41, 2 * (deg + 1));
    for wf in [true, false] {
        for (scn, npolys, target) in [("single", 1usize, 0usize), ("first-of-two", 2, 0), ("second-of-two", 2, 1)] {
            for zn in ["r1", "r2"] {
                let id = format!("LIG/forge/vanishing-at-queried-positions/wf={}/{}/z={}", wf, scn, zn);
                if !rec.take(&id) {
                    continue;
                }
                rec.dim("scheme", "LIG");
                let mut cfg = KeyCfg::uni(1 << 20, 1 << 20, 1, None);
                cfg.lc = Some((128, 4, wf));
                let keys = match build_keys::<S>(&cfg, rec.seed) {
                    Ok(k) => k,
                    Err(_) => continue,
                };
                let polys: Vec<LP<S>> = (0..npolys).map(|i| lp::<S>(&format!("p{}", i), UP::<Fr381>::from_coefficients_slice(&r[i * (deg + 1)..(i + 1) * (deg + 1)]), None, None)).collect();
                let c = match commit_set::<S>(&keys, polys, rec.seed, 0) {
                    Ok(c) => c,
                    Err(_) => continue,
                };
                let z = crate::alpha::rho::<Fr381>(rec.seed, if zn == "r1" { 1 } else { 2 });
                let sel: Vec<usize> = (0..npolys).collect();
                let s1 = match open_single::<S>(&keys, &c, &sel, &z, 0, rec.seed, 0) {
                    Ok(s) => s,
                    Err(_) => continue,
                };
                rec.op(3);
                let bp: BPf<S> = vec![s1.proof.clone()].into();
                let mut mps: Vec<Vec<MProof<Fr381>>> = convert(&bp);
                let cm: MComm = convert(c.comms[target].commitment());
                let (n_cols, n_ext) = (cm.metadata.n_cols, cm.metadata.n_ext_cols);
                let mut qs: Vec<usize> = mps[0][target].opening.paths.iter().map(|p| p.leaf_index).collect();
                qs.sort();
                qs.dedup();
                if qs.len() + 1 > n_cols {
                    rec.class("forgery-not-applicable");
                    continue;
                }
                let dom = match GeneralEvaluationDomain::<Fr381>::new(n_ext) {
                    Some(d) => d,
                    None => continue,
                };
                // delta(X) = prod (X - w^q)
                let mut delta = vec![Fr381::one()];
                for q in qs.iter() {
                    let w = dom.element(*q);
                    let mut next = vec![Fr381::zero(); delta.len() + 1];
                    for (i, d) in delta.iter().enumerate() {
                        next[i + 1] += *d;
                        next[i] -= w * *d;
                    }
                    delta = next;
                }
                let dz = UP::<Fr381>::from_coefficients_slice(&delta).evaluate(&z);
                if dz.is_zero() {
                    continue;
                }
                {
                    let v = &mut mps[0][target].opening.v;
                    for (i, d) in delta.iter().enumerate() {
                        v[i] += *d;
                    }
                }
                let forged: BPf<S> = convert(&mps);
                let list: Vec<Pf<S>> = forged.into();
                let mut values = s1.values.clone();
                values[target] += dz;
                let comms: Vec<&LCm<S>> = c.comms.iter().collect();
                let d = check_single::<S>(&keys, &comms, &z, &values, &list[0], 0, rec.seed, 0);
                expect_reject(rec, &d, "LIG", "check", "forged:opening-vector-plus-polynomial-vanishing-at-the-queried-positions", &id, format!("{} distinct queried positions of {} columns; claimed value moved by delta(z)", qs.len(), n_cols));
            }
        }
    }
}

/// Coordinated replacement of BOTH vectors of a linear-code opening.  A verifier that tests the two column
/// equations <r,col> = E(v_wf) and <b,col> = E(v) under one combination  v_wf + s*v  (or  s*v_wf + v)  is only
/// sound when  s  is drawn after both vectors are bound; for every scalar  s  that the prover can predict from a
/// prefix of the transcript (after the root, after the row challenge, after v_wf', after the point) the pair
/// (v_wf + d, v - d/s) resp. (v_wf + d, v - s*d) passes such a merged test on genuine columns.  The proof is rebuilt
/// completely (positions from a replay of the transcript, columns from the extended matrix, paths from a rebuilt
/// tree), so every other component is genuine; the control with d = 0 must be accepted.
pub fn lig_coordinated_vectors_forgery(rec: &mut Rec) {
    use crate::checks::c10::RefOps;
    use crate::mirror::{convert, MComm, MProof, MSingle, MState};
    use crate::refm::{inner, modulus_of, ref_indices, ref_t};
    use ark_crypto_primitives::merkle_tree::MerkleTree;
    use ark_crypto_primitives::sponge::CryptographicSponge;
    use ark_ff::{Field, Zero};
    use ark_poly::DenseUVPolynomial;
    use ark_poly_commit::linear_codes::LinCodeParametersInfo;
    use ark_serialize::CanonicalSerialize;
    type S = SLig;
    for (deg, rho_inv) in [(255usize, 4usize), (1023, 2)] {
        for pre in [0usize, 2] {
            let id = format!("LIG/forge/coordinated-vectors/deg={}/rho_inv={}/pre={}", deg, rho_inv, pre);
            if !rec.take(&id) {
                continue;
            }
            rec.dim("scheme", "LIG");
            let mut cfg = KeyCfg::uni(1 << 12, 1 << 12, 1, None);
            cfg.lc = Some((128, rho_inv, true));
            let keys = match build_keys::<S>(&cfg, rec.seed) {
                Ok(k) => k,
                Err(_) => continue,
            };
            let coeffs = crate::alpha::rho_stream::<Fr381>(rec.seed, 43, deg + 1);
            let polys: Vec<LP<S>> = vec![lp::<S>("p0", UP::<Fr381>::from_coefficients_slice(&coeffs), None, None)];
            let c = match commit_set::<S>(&keys, polys, rec.seed, 0) {
                Ok(c) => c,
                Err(_) => continue,
            };
            let z = crate::alpha::rho::<Fr381>(rec.seed, 1);
            let s1 = match open_single::<S>(&keys, &c, &[0], &z, pre, rec.seed, 0) {
                Ok(s) => s,
                Err(_) => continue,
            };
            rec.op(2);
            let bp: BPf<S> = vec![s1.proof.clone()].into();
            let honest: Vec<Vec<MProof<Fr381>>> = convert(&bp);
            let cm: MComm = convert(c.comms[0].commitment());
            let st: MState<Fr381> = convert(&c.states[0]);
            let (n_rows, n_cols, n_ext) = (cm.metadata.n_rows, cm.metadata.n_cols, cm.metadata.n_ext_cols);
            let tree = match MerkleTree::<MT>::new(&(), &(), st.leaves.clone()) {
                Ok(t) => t,
                Err(_) => continue,
            };
            if tree.root() != cm.root {
                panic!("MACHINERY: rebuilt tree has another root");
            }
            let t = match ref_t(&modulus_of::<Fr381>(), keys.vk.sec_param(), keys.vk.distance(), n_ext) {
                Some(t) => t,
                None => continue,
            };
            let (v0, wf0) = (honest[0][0].opening.v.clone(), honest[0][0].well_formedness.clone().unwrap_or_default());
            if wf0.len() != n_cols || v0.len() != n_cols {
                continue;
            }
            let mut a = Vec::new();
            let mut pw = Fr381::one();
            for _ in 0..n_cols {
                a.push(pw);
                pw *= z;
            }
            let mut rb = Vec::new();
            cm.root.serialize_compressed(&mut rb).unwrap();
            let comms: Vec<&LCm<S>> = c.comms.iter().collect();
            // defect vectors
            let dr = crate::alpha::rho_stream::<Fr381>(rec.seed, 47, n_cols);
            let mut unit = vec![Fr381::zero(); n_cols];
            unit[0] = Fr381::one();
            let mut last = vec![Fr381::zero(); n_cols];
            last[n_cols - 1] = crate::alpha::rho::<Fr381>(rec.seed, 5);
            let defects: Vec<(&str, Vec<Fr381>)> = vec![("zero(control)", vec![Fr381::zero(); n_cols]), ("unit", unit), ("last", last), ("dense", dr)];
            for (dn, d) in defects.iter() {
                for prefix in ["after-root", "after-row-challenge", "after-wf", "after-point"] {
                    for form in ["wf+s*v", "s*wf+v"] {
                        let wf: Vec<Fr381> = wf0.iter().zip(d.iter()).map(|(x, y)| *x + *y).collect();
                        // the scalar a merged test would use when it is drawn at this prefix
                        let mut sp = sponge_pre::<Fr381>(pre);
                        sp.absorb(&rb);
                        let s = if prefix == "after-root" {
                            sp.clone().squeeze_field_elements::<Fr381>(1)[0]
                        } else {
                            let _r: Vec<Fr381> = sp.squeeze_field_elements(n_rows);
                            if prefix == "after-row-challenge" {
                                sp.clone().squeeze_field_elements::<Fr381>(1)[0]
                            } else {
                                sp.absorb(&wf);
                                if prefix == "after-wf" {
                                    sp.clone().squeeze_field_elements::<Fr381>(1)[0]
                                } else {
                                    sp.absorb(&vec![z]);
                                    sp.clone().squeeze_field_elements::<Fr381>(1)[0]
                                }
                            }
                        };
                        if s.is_zero() {
                            continue;
                        }
                        let k = if form == "wf+s*v" { s.inverse().unwrap() } else { s };
                        let v: Vec<Fr381> = v0.iter().zip(d.iter()).map(|(x, y)| *x - k * *y).collect();
                        // positions the verifier will derive for these vectors
                        let mut sp = sponge_pre::<Fr381>(pre);
                        sp.absorb(&rb);
                        let _r: Vec<Fr381> = sp.squeeze_field_elements(n_rows);
                        sp.absorb(&wf);
                        sp.absorb(&vec![z]);
                        sp.absorb(&v);
                        let idx = ref_indices(n_ext, t, &mut sp);
                        let mut columns = Vec::new();
                        let mut paths = Vec::new();
                        for q in idx.iter() {
                            columns.push((0..n_rows).map(|r| st.ext_mat.entries[r][*q]).collect::<Vec<Fr381>>());
                            paths.push(tree.generate_proof(*q).expect("path"));
                        }
                        let forged = vec![vec![MProof { opening: MSingle { paths, v: v.clone(), columns }, well_formedness: Some(wf.clone()) }]];
                        let fb: BPf<S> = convert(&forged);
                        let list: Vec<Pf<S>> = fb.into();
                        let value = inner(&v, &a);
                        let control = *dn == "zero(control)";
                        let dec = check_single::<S>(&keys, &comms, &z, &[value], &list[0], pre, rec.seed, 0);
                        let mut rs = sponge_pre::<Fr381>(pre);
                        let refd = <S as RefOps>::ref_check(&keys.vk, &comms, &z, &[value], &list[0], &mut rs);
                        if control {
                            rec.count_points(1);
                            rec.class("control-rebuilt-honest-proof");
                            if value != s1.values[0] || !refd {
                                panic!("MACHINERY: rebuilt honest proof is not the honest proof");
                            }
                            if !dec.accepted() {
                                rec.violation("C03/LIG/check/rebuilt-honest-proof-refused", &id, format!("an honest proof rebuilt from the committer state is refused: {}", dec.class()));
                            }
                            continue;
                        }
                        if value == s1.values[0] {
                            continue;
                        }
                        if refd {
                            panic!("MACHINERY: the reference relation accepts the coordinated forgery");
                        }
                        expect_reject(
                            rec,
                            &dec,
                            "LIG",
                            "check",
                            "forged:both-vectors-replaced-in-a-coordinated-way",
                            &id,
                            format!("defect {}: v_wf + d and v - d*k with k from the scalar predictable {}; combination {}; genuine columns and paths at the replayed positions", dn, prefix, form),
                        );
                    }
                }
            }
        }
    }
}

/// Hyrax: a COORDINATED pair of openings in one call.  A constructive prover (own implementation of the dot-product
/// argument from the commitment state, replaying the verifier's challenges) opens p1 to the false value p1(z) + delta
/// and p2 to its true value such that the first verification equation (13) of the two openings is off by +Com(e) and
/// -Com(e) with <r, e> = c_1 * delta: every per-opening equation (14) holds, each equation (13) fails, their unweighted
/// sum holds.  A verifier that checks (13) per opening rejects; one that adds the equations of a call accepts.  Through
/// `check` and `batch_check`; control: delta = 0, e = 0 is the honest transcript of this prover and is accepted.
pub fn hyrax_coordinated_pair_forgery(rec: &mut Rec) {
    use crate::mirror::{convert, MHyraxState};
    use crate::refm::{inner, naive_msm, naive_mul, ser_unc, tensor_msb};
    use ark_crypto_primitives::sponge::CryptographicSponge;
    use ark_ec::CurveGroup;
    use ark_ff::{Field, Zero};
    use ark_poly_commit::hyrax::HyraxProof;
    use ark_poly_commit::{Evaluations, QuerySet};
    type S = SHyr;
    for nv in [2usize, 4] {
        // (members of the call, the member with the false claim, the LATER member that absorbs the defect)
        for (k, target, partner) in [(2usize, 0usize, 1usize), (3, 0, 1), (3, 0, 2), (3, 1, 2)] {
            let id = format!("HYR/forge/coordinated-pair/nv={}/members={}/false-member={}/partner={}", nv, k, target, partner);
            if !rec.take(&id) {
                continue;
            }
            rec.dim("scheme", "HYR");
            let cfg = KeyCfg::ml(nv);
            let keys = match build_keys::<S>(&cfg, rec.seed) {
                Ok(k) => k,
                Err(_) => continue,
            };
            let shapes = <S as Sch>::shapes(&cfg, rec.seed);
            let polys: Vec<LP<S>> = (0..k).map(|i| lp::<S>(&format!("p{}", i), shapes[shapes.len() - 1 - (i % 2)].1.clone(), None, None)).collect();
            let c = match commit_set::<S>(&keys, polys, rec.seed, 0) {
                Ok(c) => c,
                Err(_) => continue,
            };
            let z = <S as Sch>::points(&cfg, rec.seed)[0].1.clone();
            let dim = 1usize << (nv / 2);
            let rev: Vec<FrJ> = z.iter().rev().cloned().collect();
            let l = tensor_msb(&rev[nv / 2..]);
            let r = tensor_msb(&rev[..nv / 2]);
            let pos = match r.iter().position(|x| !x.is_zero()) {
                Some(p) => p,
                None => continue,
            };
            let vk = &keys.vk;
            let rnd = crate::alpha::rho_stream::<FrJ>(rec.seed, 97, k * (dim + 3));
            for delta in [FrJ::zero(), FrJ::from(7u64)] {
                let mut sponge = sponge_pre::<FrJ>(0);
                let mut proofs: Vec<HyraxProof<GJ>> = Vec::new();
                let mut values: Vec<FrJ> = Vec::new();
                let mut e = vec![FrJ::zero(); dim];
                for i in 0..k {
                    let st: MHyraxState<FrJ> = convert(&c.states[i]);
                    let rows = &c.comms[i].commitment().row_coms;
                    let lt: Vec<FrJ> = (0..dim).map(|j| (0..dim).map(|a| l[a] * st.mat.entries[a][j]).sum()).collect();
                    let r_lt: FrJ = (0..dim).map(|a| l[a] * st.randomness[a]).sum();
                    let eval = inner(&lt, &r);
                    let claimed = if i == target { eval + delta } else { eval };
                    let o = i * (dim + 3);
                    let d: Vec<FrJ> = rnd[o..o + dim].to_vec();
                    let (r_eval, r_d, r_b) = (rnd[o + dim], rnd[o + dim + 1], rnd[o + dim + 2]);
                    let com_eval = (naive_mul(&vk.com_key[0], &claimed) + naive_mul(&vk.h, &r_eval)).into_affine();
                    let com_d = (naive_msm(&vk.com_key[..dim], &d) + naive_mul(&vk.h, &r_d)).into_affine();
                    // the later member knows <r, e> (fixed after the target's challenge) and hides it in com_b
                    let beta = inner(&r, &d) - if i == partner { inner(&r, &e) } else { FrJ::zero() };
                    let com_b = (naive_mul(&vk.com_key[0], &beta) + naive_mul(&vk.h, &r_b)).into_affine();
                    let mut b = Vec::new();
                    ser_unc(vk, &mut b);
                    sponge.absorb(&b);
                    let mut b = Vec::new();
                    ser_unc(rows, &mut b);
                    sponge.absorb(&b);
                    sponge.absorb(&z);
                    for g in [&com_eval, &com_d, &com_b] {
                        let mut b = Vec::new();
                        ser_unc(g, &mut b);
                        sponge.absorb(&b);
                    }
                    let ch: FrJ = sponge.squeeze_field_elements(1)[0];
                    if i == target {
                        // <r, e> = c * delta makes equation (14) of the false claim hold
                        e[pos] = ch * delta * r[pos].inverse().unwrap();
                    }
                    let sign = if i == target { FrJ::from(1u64) } else if i == partner { -FrJ::from(1u64) } else { FrJ::zero() };
                    let zz: Vec<FrJ> = (0..dim).map(|j| d[j] + ch * lt[j] + sign * e[j]).collect();
                    proofs.push(HyraxProof { com_eval, com_d, com_b, z: zz, z_d: ch * r_lt + r_d, z_b: ch * r_eval + r_b, r_eval });
                    values.push(claimed);
                }
                let comms: Vec<&LCm<S>> = c.comms.iter().collect();
                let d1 = check_single::<S>(&keys, &comms, &z, &values, &proofs, 0, rec.seed, 0);
                let mut qs = QuerySet::new();
                let mut ev = Evaluations::new();
                for i in 0..k {
                    qs.insert((format!("p{}", i), ("z".to_string(), z.clone())));
                    ev.insert((format!("p{}", i), z.clone()), values[i]);
                }
                let bp: BPf<S> = vec![proofs.clone()].into();
                let d2 = check_batch::<S>(&keys, &comms, &qs, &ev, &bp, 0, rec.seed, 0);
                if delta.is_zero() {
                    rec.count_points(1);
                    rec.class("control-constructive-prover");
                    if !d1.accepted() || !d2.accepted() {
                        rec.violation("C03/HYR/check/constructive-honest-proof-refused", &id, format!("the honest transcript of the constructive Hyrax prover is refused: check {} / batch_check {}", d1.short(), d2.short()));
                    }
                } else {
                    expect_reject(rec, &d1, "HYR", "check", "forged:coordinated-pair-of-openings", &id, format!("member {} claims its value + 7, member {} absorbs the defect of equation (13)", target, partner));
                    expect_reject(rec, &d2, "HYR", "batch_check", "forged:coordinated-pair-of-openings", &id, format!("member {} claims its value + 7, member {} absorbs the defect of equation (13)", target, partner));
                }
            }
        }
    }
}

pub fn run(rec: &mut Rec) {
    let (w, ms) = if rec.thorough() { (Width::Wide, 3) } else { (Width::Medium, 2) };
    crate::for_each_scheme!(S, {
        cross::<S>(rec);
        mutate_single::<S>(rec, w);
        mutate_batch::<S>(rec, ms);
    });
    ipa_padded_forgery(rec);
    ipa_unbound_hiding_forgery(rec);
    hyrax_stretched_z_forgery(rec);
    hyrax_coordinated_pair_forgery(rec);
    lig_vanishing_forgery(rec);
    lig_coordinated_vectors_forgery(rec);
    // proofs of the library's own prover against the values at rearranged points (hypercube and near it)
    crate::special::hypercube::<SPst>(rec, "C03", &[2, 3]);
    crate::special::hypercube::<SHyr>(rec, "C03", &[2, 4]);
    crate::special::hypercube::<SMll>(rec, "C03", &[2, 3, 4]);
    crate::special::hypercube::<SBrk>(rec, "C03", &[2, 3, 4]);
    equal_weight_forgery::<SMar>(rec, &|vk| vk.vk.g, &|p, w| ark_poly_commit::kzg10::Proof { w, random_v: p.random_v }, &|p| p.w);
    equal_weight_forgery::<SSon>(rec, &|vk| vk.g, &|p, w| ark_poly_commit::kzg10::Proof { w, random_v: p.random_v }, &|p| p.w);
    crate::special::c03_special(rec);
}
