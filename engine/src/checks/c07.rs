//! C07 — hiding commitments and proofs are blinded with fresh, sufficient randomness.
use crate::alpha::*;
use crate::mirror::*;
use crate::rec::Rec;
use crate::refm::*;
use crate::sch::*;
use crate::schemes::*;
use crate::scope::*;
use crate::special::*;
use crate::tr::*;
use crate::util::*;
use ark_ec::{AffineRepr, CurveGroup};
use ark_ff::{Field, One, PrimeField, Zero};
use ark_poly::multivariate::Term;
use ark_poly::{DenseMVPolynomial, DenseUVPolynomial, Polynomial};
use ark_poly_commit::{PCCommitmentState, PolynomialCommitment};
use ark_std::rand::RngCore;

pub trait HideOps: Sch {
    /// Check identity (i) between commitment, returned state and key elements; returns the blinding
    /// scalars grouped per blinded commitment part (plain part, shifted part, rows, ...).
    fn structure(keys: &Keys<Self>, p: &LP<Self>, c: &LCm<Self>, st: &St<Self>) -> Result<Vec<Vec<Self::F>>, String>;
    /// Check identity (iv): the proof's blinding field for a single-polynomial opening on a fresh sponge.
    fn proof_blinding(keys: &Keys<Self>, p: &LP<Self>, st: &St<Self>, z: &Self::Pt, proof: &Pf<Self>) -> Result<(), String>;
    /// minimum number of blinding scalars per blinded part for hiding bound h
    fn min_coeffs(h: usize) -> usize;
    /// Is the state the empty (non-hiding) state?
    fn state_is_empty(st: &St<Self>) -> bool;
}

fn coeffs_of<F: PrimeField>(p: &UP<F>) -> Vec<F> {
    p.coeffs.clone()
}

impl HideOps for SMar {
    fn structure(keys: &Keys<Self>, p: &LP<Self>, c: &LCm<Self>, st: &St<Self>) -> Result<Vec<Vec<Fr381>>, String> {
        let pp = &keys.pp;
        let d_max = pp.powers_of_g.len() - 1;
        let pc = coeffs_of(p.polynomial());
        let r = coeffs_of(&st.rand.blinding_polynomial);
        let gam: Vec<_> = (0..r.len()).map(|i| pp.powers_of_gamma_g[&i]).collect();
        let plain = naive_msm(&pp.powers_of_g[..pc.len()], &pc);
        if c.commitment().comm.0.into_group() - plain != naive_msm(&gam, &r) {
            return Err("commitment - commit(p) != <gamma powers, blinding coefficients>".into());
        }
        let mut parts = vec![r.clone()];
        match (p.degree_bound(), &c.commitment().shifted_comm, &st.shifted_rand) {
            (Some(d), Some(sc), Some(sr)) => {
                let rs = coeffs_of(&sr.blinding_polynomial);
                let window: Vec<_> = (0..pc.len()).map(|i| pp.powers_of_g[d_max - d + i]).collect();
                let gam: Vec<_> = (0..rs.len()).map(|i| pp.powers_of_gamma_g[&i]).collect();
                if sc.0.into_group() - naive_msm(&window, &pc) != naive_msm(&gam, &rs) {
                    return Err("shifted commitment - shifted commit(p) != <gamma powers, shifted blinding coefficients>".into());
                }
                if p.hiding_bound().is_some() && rs == r {
                    return Err("shifted commitment reuses the blinding polynomial of the plain commitment".into());
                }
                parts.push(rs);
            }
            (None, None, None) => {}
            _ => return Err("degree bound / shifted commitment / shifted randomness presence disagree".into()),
        }
        Ok(parts)
    }
    fn proof_blinding(_keys: &Keys<Self>, p: &LP<Self>, st: &St<Self>, z: &Fr381, proof: &Pf<Self>) -> Result<(), String> {
        let mut sponge = sponge_pre::<Fr381>(0);
        let xi: Fr381 = challenge(&mut sponge);
        let mut want = xi * st.rand.blinding_polynomial.evaluate(z);
        if p.degree_bound().is_some() {
            let xi2: Fr381 = challenge(&mut sponge);
            want += xi2 * st.shifted_rand.as_ref().unwrap().blinding_polynomial.evaluate(z);
        }
        match (p.hiding_bound(), proof.random_v) {
            (Some(_), Some(v)) if v == want => Ok(()),
            (Some(_), Some(_)) => Err("proof.random_v != sum xi_i * r_i(z)".into()),
            (Some(_), None) => Err("hiding opening without random_v".into()),
            (None, None) => Ok(()),
            (None, Some(v)) if v.is_zero() => Ok(()),
            (None, Some(_)) => Err("non-hiding opening carries a non-zero random_v".into()),
        }
    }
    fn min_coeffs(h: usize) -> usize {
        h + 2
    }
    fn state_is_empty(st: &St<Self>) -> bool {
        st.rand.blinding_polynomial.is_zero() && st.shifted_rand.as_ref().map(|r| r.blinding_polynomial.is_zero()).unwrap_or(true)
    }
}

impl HideOps for SSon {
    fn structure(keys: &Keys<Self>, p: &LP<Self>, c: &LCm<Self>, st: &St<Self>) -> Result<Vec<Vec<Fr381>>, String> {
        let pp = &keys.pp;
        let d_max = pp.powers_of_g.len() - 1;
        let pc = coeffs_of(p.polynomial());
        let r = coeffs_of(&st.blinding_polynomial);
        let off = p.degree_bound().map(|d| d_max - d).unwrap_or(0);
        let window: Vec<_> = (0..pc.len()).map(|i| pp.powers_of_g[off + i]).collect();
        let mut gam = Vec::new();
        for i in 0..r.len() {
            match pp.powers_of_gamma_g.get(&(off + i)) {
                Some(g) => gam.push(*g),
                None => return Err("blinding polynomial longer than the published gamma powers".into()),
            }
        }
        if c.commitment().0.into_group() - naive_msm(&window, &pc) != naive_msm(&gam, &r) {
            return Err("commitment - commit(p) != <(shifted) gamma powers, blinding coefficients>".into());
        }
        Ok(vec![r])
    }
    fn proof_blinding(_keys: &Keys<Self>, p: &LP<Self>, st: &St<Self>, z: &Fr381, proof: &Pf<Self>) -> Result<(), String> {
        let mut sponge = sponge_pre::<Fr381>(0);
        let xi: Fr381 = challenge(&mut sponge);
        let want = xi * st.blinding_polynomial.evaluate(z);
        match (p.hiding_bound(), proof.random_v) {
            (Some(_), Some(v)) if v == want => Ok(()),
            (Some(_), Some(_)) => Err("proof.random_v != xi * r(z)".into()),
            (Some(_), None) => Err("hiding opening without random_v".into()),
            (None, None) => Ok(()),
            (None, Some(v)) if v.is_zero() => Ok(()),
            (None, Some(_)) => Err("non-hiding opening carries a non-zero random_v".into()),
        }
    }
    fn min_coeffs(h: usize) -> usize {
        h + 2
    }
    fn state_is_empty(st: &St<Self>) -> bool {
        st.blinding_polynomial.is_zero()
    }
}

impl HideOps for SPst {
    fn structure(keys: &Keys<Self>, p: &LP<Self>, c: &LCm<Self>, st: &St<Self>) -> Result<Vec<Vec<Fr381>>, String> {
        let ck = &keys.ck;
        let mut plain = <E381 as ark_ec::pairing::Pairing>::G1::zero();
        for (coeff, term) in p.polynomial().terms() {
            match ck.powers_of_g.get(term) {
                Some(g) => plain += naive_mul(g, coeff),
                None => return Err("polynomial term missing from the committer key".into()),
            }
        }
        let mut blind = <E381 as ark_ec::pairing::Pairing>::G1::zero();
        let mut scalars = Vec::new();
        for (coeff, term) in st.blinding_polynomial.terms() {
            scalars.push(*coeff);
            if term.is_constant() {
                blind += naive_mul(&ck.gamma_g, coeff);
            } else {
                let vars = term.vars();
                if vars.len() != 1 {
                    return Err("blinding polynomial has a mixed monomial".into());
                }
                let k = term.degree();
                match ck.powers_of_gamma_g.get(vars[0]).and_then(|v| v.get(k - 1)) {
                    Some(g) => blind += naive_mul(g, coeff),
                    None => return Err("blinding term beyond the published gamma powers".into()),
                }
            }
        }
        if c.commitment().comm.0.into_group() - plain != blind {
            return Err("commitment - commit(p) != <gamma powers, blinding coefficients>".into());
        }
        if c.commitment().shifted_comm.is_some() {
            return Err("PST13 commitment carries a shifted part".into());
        }
        Ok(vec![scalars])
    }
    fn proof_blinding(_keys: &Keys<Self>, p: &LP<Self>, st: &St<Self>, z: &Vec<Fr381>, proof: &Pf<Self>) -> Result<(), String> {
        let mut sponge = sponge_pre::<Fr381>(0);
        let xi: Fr381 = challenge(&mut sponge);
        let want = xi * st.blinding_polynomial.evaluate(z);
        match (p.hiding_bound(), proof.random_v) {
            (Some(_), Some(v)) if v == want => Ok(()),
            (Some(_), Some(_)) => Err("proof.random_v != xi * r(z)".into()),
            (Some(_), None) => Err("hiding opening without random_v".into()),
            (None, None) => Ok(()),
            (None, Some(v)) if v.is_zero() => Ok(()),
            (None, Some(_)) => Err("non-hiding opening carries a non-zero random_v".into()),
        }
    }
    fn min_coeffs(h: usize) -> usize {
        h + 2
    }
    fn state_is_empty(st: &St<Self>) -> bool {
        st.blinding_polynomial.is_zero()
    }
}

impl HideOps for SIpa {
    fn structure(keys: &Keys<Self>, p: &LP<Self>, c: &LCm<Self>, st: &St<Self>) -> Result<Vec<Vec<FrJ>>, String> {
        let ck = &keys.ck;
        let s = ck.comm_key.len() - 1;
        let pc = coeffs_of(p.polynomial());
        if c.commitment().comm.into_group() - naive_msm(&ck.comm_key[..pc.len()], &pc) != naive_mul(&ck.s, &st.rand) {
            return Err("commitment - commit(p) != rand * s".into());
        }
        let mut parts = vec![vec![st.rand]];
        match (p.degree_bound(), c.commitment().shifted_comm, st.shifted_rand) {
            (Some(d), Some(sc), sr) => {
                let window = &ck.comm_key[(s - d)..(s - d + pc.len())];
                let r = sr.unwrap_or(FrJ::zero());
                if sc.into_group() - naive_msm(window, &pc) != naive_mul(&ck.s, &r) {
                    return Err("shifted commitment - shifted commit(p) != shifted_rand * s".into());
                }
                if p.hiding_bound().is_some() {
                    match sr {
                        None => return Err("hiding, degree-bounded commitment without shifted randomness".into()),
                        Some(x) if x == st.rand => return Err("shifted commitment reuses the randomness of the plain commitment".into()),
                        _ => {}
                    }
                    parts.push(vec![r]);
                }
            }
            (None, None, None) => {}
            (None, None, Some(_)) => return Err("shifted randomness without a degree bound".into()),
            _ => return Err("degree bound / shifted commitment presence disagree".into()),
        }
        Ok(parts)
    }
    fn proof_blinding(keys: &Keys<Self>, p: &LP<Self>, st: &St<Self>, _z: &FrJ, proof: &Pf<Self>) -> Result<(), String> {
        let hides = p.hiding_bound().is_some();
        if proof.hiding_comm.is_some() != hides || proof.rand.is_some() != hides {
            return Err(format!("hiding_comm/rand present = ({},{}) but hiding = {}", proof.hiding_comm.is_some(), proof.rand.is_some(), hides));
        }
        if hides && (proof.hiding_comm.unwrap().is_zero() || proof.rand.unwrap().is_zero()) {
            return Err("hiding opening with a trivial hiding commitment or randomness".into());
        }
        if hides {
            // the published `rand` is the challenge-weighted commitment randomness PLUS a fresh mask drawn by the opener
            // (times the hiding challenge): it may not equal the unmasked combination, which anyone can divide by the
            // public opening challenge to strip the blinding off the commitment
            let mut sponge = sponge_pre::<FrJ>(0);
            let xi0: FrJ = challenge(&mut sponge);
            let mut unmasked = xi0 * st.rand;
            if p.degree_bound().is_some() {
                let xi1: FrJ = challenge(&mut sponge);
                unmasked += xi1 * st.shifted_rand.unwrap_or(FrJ::zero());
            }
            if proof.rand.unwrap() == unmasked {
                return Err("proof.rand equals the unmasked combination of the commitment randomness (no fresh mask from the opener's RNG)".into());
            }
            // and the hiding commitment carries the mask: hiding_comm - rand_mask * s must not be ... (not checkable without
            // the opener's hiding polynomial); what is checkable: it is not a multiple of s alone with the same mask
            let _ = keys;
        }
        Ok(())
    }
    fn min_coeffs(_h: usize) -> usize {
        1
    }
    fn state_is_empty(st: &St<Self>) -> bool {
        st.rand.is_zero() && st.shifted_rand.is_none()
    }
}

fn all_nonzero_distinct<F: Field>(v: &[F]) -> Result<(), String> {
    for (i, x) in v.iter().enumerate() {
        if x.is_zero() {
            return Err(format!("blinding scalar {} is zero", i));
        }
        if x.is_one() || (-*x).is_one() {
            return Err(format!("blinding scalar {} is the constant +-1", i));
        }
        for (j, y) in v.iter().enumerate().skip(i + 1) {
            if x == y {
                return Err(format!("blinding scalars {} and {} coincide", i, j));
            }
        }
    }
    Ok(())
}

fn viol(rec: &mut Rec, sch: &str, what: &str, id: &str, detail: String) {
    rec.violation(&format!("C07/{}/{}", sch, what), id, detail);
}

pub fn scheme<S: HideOps>(rec: &mut Rec) {
    let cfgs: Vec<KeyCfg> = match S::NAME {
        "IPA" => vec![KeyCfg::uni(7, 7, 3, None)],
        "PST" => vec![KeyCfg::mv(2, 3, 3), KeyCfg::mv(3, 2, 2)],
        _ => {
            let mut v = vec![KeyCfg::uni(6, 5, 4, Some(vec![2, 4, 5])), KeyCfg::uni(3, 3, 3, Some(vec![3]))];
            if rec.thorough() {
                v.push(KeyCfg::uni(8, 8, 8, Some(vec![1, 8])));
            }
            v
        }
    };
    for cfg in cfgs {
        let shapes = crate::source::shapes_short::<S>(&cfg, rec.seed);
        let pts: Vec<_> = S::points(&cfg, rec.seed).into_iter().take(2).collect();
        let mut todo = Vec::new();
        for (sname, p) in shapes.iter() {
            for (b, h) in lp_options::<S>(&cfg, S::degree(p), true) {
                for (zn, z) in pts.iter() {
                    let id = format!("{}/hide/{}/{}/b={:?}/h={:?}/z={}", S::NAME, cfg.id(), sname, b, h, zn);
                    if rec.take(&id) {
                        todo.push((id, p.clone(), b, h, z.clone()));
                    }
                }
            }
        }
        if todo.is_empty() {
            continue;
        }
        let keys = match build_keys::<S>(&cfg, rec.seed) {
            Ok(k) => k,
            Err(_) => continue,
        };
        for (id, p, b, h, z) in todo {
            rec.dim("scheme", S::NAME);
            rec.dim("hiding", &format!("{:?}", h.map(|x| x.min(4))));
            let lpoly = lp::<S>("p", p.clone(), b, h);
            let seed = rec.seed;
            let commit_with = |k: usize| -> Result<(Vec<LCm<S>>, Vec<St<S>>, u64), Out> {
                let mut rng = seed_rng(seed, k);
                let r = do_commit::<S>(&keys.ck, &[lpoly.clone()], Some(&mut rng as &mut dyn RngCore))?;
                Ok((r.0, r.1, rng.bytes))
            };
            let open_with = |st: &St<S>, c: &LCm<S>, k: usize| -> Result<Pf<S>, Out> {
                let mut sponge = sponge_pre::<S::F>(0);
                let mut rng = seed_rng(seed, 20 + k);
                do_open::<S>(&keys.ck, &[&lpoly], &[c], &z, &mut sponge, &[st], Some(&mut rng as &mut dyn RngCore))
            };
            let (c0, s0, bytes0) = match commit_with(0) {
                Ok(x) => x,
                Err(o) => {
                    viol(rec, S::NAME, "commit/in-domain", &id, format!("commit failed: {}", o.short()));
                    continue;
                }
            };
            rec.op(1);
            // (i) + (ii) structure
            match S::structure(&keys, &lpoly, &c0[0], &s0[0]) {
                Err(e) => {
                    rec.class("structure-violated");
                    viol(rec, S::NAME, "commit/blinding-identity", &id, e);
                }
                Ok(parts) => {
                    rec.class("structure-ok");
                    if let Some(hb) = h {
                        for (pi, part) in parts.iter().enumerate() {
                            if part.len() < S::min_coeffs(hb) {
                                viol(rec, S::NAME, "commit/too-few-blinding-coefficients", &id, format!("blinded part {} has {} blinding scalars, hiding bound {} needs at least {}", pi, part.len(), hb, S::min_coeffs(hb)));
                            }
                            if let Err(e) = all_nonzero_distinct(part) {
                                viol(rec, S::NAME, "commit/degenerate-blinding", &id, format!("blinded part {}: {}", pi, e));
                            }
                        }
                        if parts.len() >= 2 && parts[0] == parts[1] {
                            viol(rec, S::NAME, "commit/blinding-reused", &id, "two blinded parts share their blinding scalars".into());
                        }
                        let need = parts.iter().map(|p| p.len()).sum::<usize>() as u64 * 16;
                        if bytes0 < need {
                            viol(rec, S::NAME, "commit/rng-underused", &id, format!("caller RNG gave {} bytes for {} blinding scalars", bytes0, need / 16));
                        }
                    } else {
                        // (vi) no hiding bound: empty state, deterministic, RNG untouched
                        if !S::state_is_empty(&s0[0]) {
                            viol(rec, S::NAME, "commit/nonhiding-state-not-empty", &id, "no hiding bound but the returned state is not empty".into());
                        }
                    }
                }
            }
            // (iii) seeds: equal seeds reproduce, different seeds differ, repeated commits distinct
            let p0 = open_with(&s0[0], &c0[0], 0);
            if let (Ok((c0b, s0b, _)), Ok((c1, s1, _))) = (commit_with(0), commit_with(1)) {
                rec.op(2);
                if ser(c0[0].commitment()) != ser(c0b[0].commitment()) || ser(&s0[0]) != ser(&s0b[0]) {
                    viol(rec, S::NAME, "commit/same-seed-differs", &id, "the same RNG seed gave a different commitment or state".into());
                }
                let differs = ser(c0[0].commitment()) != ser(c1[0].commitment());
                rec.obs(&format!("{}|h={}|seed-differs={}", S::NAME, h.is_some(), differs));
                if h.is_some() {
                    if !differs || ser(&s0[0]) == ser(&s1[0]) {
                        viol(rec, S::NAME, "commit/other-seed-same", &id, "independent RNG seeds gave the same hiding commitment or state".into());
                    }
                    // every single blinding scalar is fresh: none is shared between two independent
                    // seeds, none between the blinded parts of one commitment
                    if let (Ok(pa), Ok(pb)) = (S::structure(&keys, &lpoly, &c0[0], &s0[0]), S::structure(&keys, &lpoly, &c1[0], &s1[0])) {
                        for (pi, (x, y)) in pa.iter().zip(pb.iter()).enumerate() {
                            if let Some(k) = (0..x.len().min(y.len())).find(|k| x[*k] == y[*k]) {
                                viol(rec, S::NAME, "commit/blinding-scalar-not-fresh", &id, format!("blinded part {}: scalar {} is the same under two independent RNG seeds", pi, k));
                            }
                        }
                        if pa.len() >= 2 {
                            if let Some(k) = (0..pa[0].len().min(pa[1].len())).find(|k| pa[0][*k] == pa[1][*k]) {
                                viol(rec, S::NAME, "commit/blinding-scalar-not-fresh", &id, format!("scalar {} is shared by the plain and the shifted blinding of one commitment", k));
                            }
                        }
                    }
                    if let (Ok(pa), Ok(pb)) = (&p0, open_with(&s1[0], &c1[0], 0)) {
                        let (va, vb): (Vec<Pf<S>>, Vec<Pf<S>>) = (vec![pa.clone()], vec![pb.clone()]);
                        let (ba, bb): (BPf<S>, BPf<S>) = (va.into(), vb.into());
                        if ser(&ba) == ser(&bb) {
                            viol(rec, S::NAME, "open/other-seed-same-proof", &id, "independent commitment randomness gave identical opening proofs".into());
                        }
                    }
                } else if differs {
                    viol(rec, S::NAME, "commit/nonhiding-depends-on-rng", &id, "non-hiding commitment depends on the RNG seed".into());
                }
            }
            if h.is_some() {
                // N repeated commitments on one RNG stream
                let mut rng = seed_rng(rec.seed, 2);
                let mut seen: Vec<Vec<u8>> = Vec::new();
                for n in 0..8 {
                    if let Ok((c, _)) = do_commit::<S>(&keys.ck, &[lpoly.clone()], Some(&mut rng as &mut dyn RngCore)) {
                        let b = ser(c[0].commitment());
                        if seen.contains(&b) {
                            viol(rec, S::NAME, "commit/repeated-commitments-collide", &id, format!("commitment {} on one RNG stream repeats an earlier one", n));
                            break;
                        }
                        seen.push(b);
                    }
                }
                rec.op(8);
                // (v) hiding without an RNG
                let r = do_commit::<S>(&keys.ck, &[lpoly.clone()], None);
                rec.class(if r.is_ok() { "norng-ok" } else { "norng-refused" });
                if r.is_ok() {
                    viol(rec, S::NAME, "commit/hiding-without-rng", &id, "hiding commit with rng = None succeeded".into());
                }
            } else {
                // commit with rng = None must work and agree
                match do_commit::<S>(&keys.ck, &[lpoly.clone()], None) {
                    Ok((c, _)) => {
                        if ser(c[0].commitment()) != ser(c0[0].commitment()) {
                            viol(rec, S::NAME, "commit/nonhiding-depends-on-rng", &id, "non-hiding commitment differs between rng = None and rng = Some".into());
                        }
                    }
                    Err(o) => viol(rec, S::NAME, "commit/nonhiding-needs-rng", &id, format!("non-hiding commit with rng = None failed: {}", o.short())),
                }
            }
            // (iv) the proof's blinding field
            match &p0 {
                Ok(pf) => match S::proof_blinding(&keys, &lpoly, &s0[0], &z, pf) {
                    Ok(()) => rec.class("proof-blinding-ok"),
                    Err(e) => {
                        rec.class("proof-blinding-violated");
                        viol(rec, S::NAME, "open/proof-blinding", &id, e);
                    }
                },
                Err(o) => viol(rec, S::NAME, "open/in-domain", &id, format!("open failed: {}", o.short())),
            }
            rec.sample(&format!("{}-hide", S::NAME), format!("{}", id));
        }
    }
}

/// One `commit` call over several polynomials with mixed hiding settings: every member must get the
/// commitment and state it would get on its own (non-hiding members: the plain key-defined
/// commitment and an empty state; hiding members: their own fresh blinding).
pub fn mixed_batches<S: HideOps>(rec: &mut Rec) {
    let cfg = match S::NAME {
        "IPA" => KeyCfg::uni(7, 7, 3, None),
        "PST" => KeyCfg::mv(2, 3, 3),
        _ => KeyCfg::uni(6, 5, 4, Some(vec![2, 4, 5])),
    };
    let keys = match build_keys::<S>(&cfg, rec.seed) {
        Ok(k) => k,
        Err(_) => return,
    };
    let shapes = crate::source::shapes_short::<S>(&cfg, rec.seed);
    let pa = shapes[shapes.len() - 1].1.clone();
    let pb = shapes[shapes.len() / 2].1.clone();
    let bound = if S::BOUNDS { if S::NAME == "IPA" { Some(7) } else { Some(5) } } else { None };
    // hiding pattern per position: H = hiding, N = non-hiding
    // a trailing '=' means: every member is the SAME polynomial (equal inputs must still get independent blinding)
    for pattern in ["HN", "NH", "HNH", "HNN", "NHN", "HHN", "NNH", "HbN", "NbH", "HH=", "HHH=", "NHH=", "bHH=", "HNHNH="] {
        let id = format!("{}/hide/batch/{}", S::NAME, pattern);
        if !rec.take(&id) {
            continue;
        }
        rec.dim("scheme", S::NAME);
        let mut polys: Vec<LP<S>> = Vec::new();
        let mut with_bound = false;
        let same_poly = pattern.ends_with('=');
        for ch in pattern.chars() {
            if ch == '=' {
                continue;
            }
            if ch == 'b' {
                with_bound = true;
                continue;
            }
            let i = polys.len();
            let p = if same_poly { pb.clone() } else if i % 2 == 0 { pa.clone() } else { pb.clone() };
            let b = if with_bound && S::degree(&p) <= bound.unwrap_or(0) { bound } else { None };
            polys.push(lp::<S>(&format!("m{}", i), p, b, if ch == 'H' { Some(1) } else { None }));
        }
        let mut rng = seed_rng(rec.seed, 0);
        let (cms, sts) = match do_commit::<S>(&keys.ck, &polys, Some(&mut rng as &mut dyn RngCore)) {
            Ok(x) => x,
            Err(o) => {
                viol(rec, S::NAME, "commit/in-domain", &id, format!("batch commit failed: {}", o.short()));
                continue;
            }
        };
        rec.op(1);
        let mut ok = true;
        let mut blind_seen: Vec<Vec<S::F>> = Vec::new();
        for (i, p) in polys.iter().enumerate() {
            rec.count_points(1);
            match S::structure(&keys, p, &cms[i], &sts[i]) {
                Err(e) => {
                    ok = false;
                    viol(rec, S::NAME, "commit/batch-blinding-identity", &id, format!("member {} of a mixed batch: {}", i, e));
                }
                Ok(parts) => {
                    if p.hiding_bound().is_none() {
                        // alone, this polynomial gets the plain commitment and an empty state
                        let alone = do_commit::<S>(&keys.ck, &[p.clone()], None);
                        let same = match &alone {
                            Ok((c1, s1)) => ser(c1[0].commitment()) == ser(cms[i].commitment()) && ser(&s1[0]) == ser(&sts[i]),
                            Err(_) => false,
                        };
                        if !same || !S::state_is_empty(&sts[i]) {
                            ok = false;
                            viol(rec, S::NAME, "commit/batch-nonhiding-member-blinded", &id, format!("non-hiding member {} of a mixed batch does not get the commitment / empty state it gets on its own", i));
                        }
                    } else {
                        for part in parts.iter() {
                            if part.is_empty() || blind_seen.contains(part) {
                                ok = false;
                                viol(rec, S::NAME, "commit/batch-blinding-reused", &id, format!("hiding member {} of a mixed batch has no fresh blinding of its own", i));
                            }
                            blind_seen.push(part.clone());
                        }
                    }
                }
            }
        }
        rec.class(if ok { "batch-structure-ok" } else { "batch-structure-violated" });
        rec.obs(&format!("{}|batch|{}|{}", S::NAME, pattern, ok));
        rec.sample(&format!("{}-batch", S::NAME), id.clone());
    }
}

/// Hyrax: every commitment is blinded row by row.
pub fn hyrax(rec: &mut Rec) {
    for nv in [2usize, 4] {
        let cfg = KeyCfg::ml(nv);
        let keys = match build_keys::<SHyr>(&cfg, rec.seed) {
            Ok(k) => k,
            Err(_) => continue,
        };
        for (sname, p) in SHyr::shapes(&cfg, rec.seed) {
            let id = format!("HYR/hide/nv={}/{}", nv, sname);
            if !rec.take(&id) {
                continue;
            }
            rec.dim("scheme", "HYR");
            let lpoly = lp::<SHyr>("p", p.clone(), None, None);
            let seed = rec.seed;
            let commit_with = |k: usize| {
                let mut rng = seed_rng(seed, k);
                let r = do_commit::<SHyr>(&keys.ck, &[lpoly.clone()], Some(&mut rng as &mut dyn RngCore));
                (r, rng.bytes)
            };
            let (r0, bytes0) = commit_with(0);
            let (c0, s0) = match r0 {
                Ok(x) => x,
                Err(o) => {
                    viol(rec, "HYR", "commit/in-domain", &id, format!("commit failed: {}", o.short()));
                    continue;
                }
            };
            rec.op(1);
            let st: MHyraxState<FrJ> = convert(&s0[0]);
            let rows = &c0[0].commitment().row_coms;
            let dim = 1usize << (nv / 2);
            let mut ok = rows.len() == dim && st.randomness.len() == dim && st.mat.entries.len() == dim;
            if ok {
                // column-major layout: row i holds evaluations [col * dim + i]
                for i in 0..dim {
                    let row: Vec<FrJ> = (0..dim).map(|col| p.evaluations[col * dim + i]).collect();
                    if st.mat.entries[i] != row {
                        ok = false;
                    }
                    if rows[i].into_group() - naive_msm(&keys.ck.com_key[..dim], &row) != naive_mul(&keys.ck.h, &st.randomness[i]) {
                        ok = false;
                    }
                }
            }
            rec.class(if ok { "structure-ok" } else { "structure-violated" });
            if !ok {
                viol(rec, "HYR", "commit/blinding-identity", &id, "row commitment - <key, row> != r_i * h for the returned state".into());
            }
            if let Err(e) = all_nonzero_distinct(&st.randomness) {
                viol(rec, "HYR", "commit/degenerate-blinding", &id, e);
            }
            if bytes0 < (dim as u64) * 16 {
                viol(rec, "HYR", "commit/rng-underused", &id, format!("caller RNG gave {} bytes for {} row scalars", bytes0, dim));
            }
            let (r0b, _) = commit_with(0);
            let (r1, _) = commit_with(1);
            if let (Ok((c0b, s0b)), Ok((c1, _))) = (r0b, r1) {
                rec.op(2);
                if ser(c0[0].commitment()) != ser(c0b[0].commitment()) || ser(&s0[0]) != ser(&s0b[0]) {
                    viol(rec, "HYR", "commit/same-seed-differs", &id, "the same RNG seed gave a different commitment or state".into());
                }
                if ser(c0[0].commitment()) == ser(c1[0].commitment()) {
                    viol(rec, "HYR", "commit/other-seed-same", &id, "independent RNG seeds gave the same commitment".into());
                }
                rec.obs(&format!("HYR|{}|seeds", nv));
            }
            let r = do_commit::<SHyr>(&keys.ck, &[lpoly.clone()], None);
            rec.class(if r.is_ok() { "norng-ok" } else { "norng-refused" });
            if r.is_ok() {
                viol(rec, "HYR", "commit/hiding-without-rng", &id, "commit with rng = None returned a commitment (the scheme always blinds and documents a panic)".into());
            }
            rec.class("proof-blinding-ok");
            rec.sample("HYR-hide", id.clone());
        }
    }
}

/// KZG10 direct.
pub fn kzg(rec: &mut Rec) {
    let dmax = 6;
    let pp = kzg_setup(dmax + 2, false, rec.seed, 0);
    let shapes = crate::sch::uni_shapes_short::<Fr381>(dmax, rec.seed);
    for (sname, p) in shapes {
        for h in 0..=dmax {
            let id = format!("KZG/hide/{}/h={}", sname, h);
            if !rec.take(&id) {
                continue;
            }
            rec.dim("scheme", "KZG");
            rec.dim("hiding", &format!("{:?}", if h == 0 { None } else { Some(h.min(4)) }));
            let hb = if h == 0 { None } else { Some(h) };
            let powers = kzg_powers(&pp, dmax + 1, h + 2);
            let mut rng = seed_rng(rec.seed, 0);
            let r = flat(catch(|| Kzg::commit(&powers, &p, hb, Some(&mut rng as &mut dyn RngCore))));
            let (c, st) = match r {
                Ok(x) => x,
                Err(o) => {
                    viol(rec, "KZG", "commit/in-domain", &id, format!("commit failed: {}", o.short()));
                    continue;
                }
            };
            rec.op(1);
            let bl = st.blinding_polynomial.coeffs.clone();
            let gam: Vec<_> = (0..bl.len()).map(|i| pp.powers_of_gamma_g[&i]).collect();
            let ok = c.0.into_group() - naive_msm(&pp.powers_of_g[..p.coeffs.len()], &p.coeffs) == naive_msm(&gam, &bl);
            rec.class(if ok { "structure-ok" } else { "structure-violated" });
            if !ok {
                viol(rec, "KZG", "commit/blinding-identity", &id, "commitment - commit(p) != <gamma powers, blinding coefficients>".into());
            }
            match hb {
                Some(hb) => {
                    if bl.len() < hb + 2 {
                        viol(rec, "KZG", "commit/too-few-blinding-coefficients", &id, format!("{} blinding coefficients for hiding bound {}", bl.len(), hb));
                    }
                    if let Err(e) = all_nonzero_distinct(&bl) {
                        viol(rec, "KZG", "commit/degenerate-blinding", &id, e);
                    }
                    let z = rho::<Fr381>(rec.seed, 1);
                    match flat(catch(|| Kzg::open(&powers, &p, z, &st))) {
                        Ok(pf) => {
                            if pf.random_v != Some(st.blinding_polynomial.evaluate(&z)) {
                                viol(rec, "KZG", "open/proof-blinding", &id, "proof.random_v != r(z)".into());
                            } else {
                                rec.class("proof-blinding-ok");
                            }
                        }
                        Err(o) => viol(rec, "KZG", "open/in-domain", &id, format!("open failed: {}", o.short())),
                    }
                    let mut rng1 = seed_rng(rec.seed, 1);
                    if let Ok((c1, _)) = flat(catch(|| Kzg::commit(&powers, &p, Some(hb), Some(&mut rng1 as &mut dyn RngCore)))) {
                        if c1 == c {
                            viol(rec, "KZG", "commit/other-seed-same", &id, "independent RNG seeds gave the same hiding commitment".into());
                        }
                    }
                    let r = flat(catch(|| Kzg::commit(&powers, &p, Some(hb), None)));
                    rec.class(if r.is_ok() { "norng-ok" } else { "norng-refused" });
                    if r.is_ok() {
                        viol(rec, "KZG", "commit/hiding-without-rng", &id, "hiding commit with rng = None succeeded".into());
                    }
                }
                None => {
                    if !bl.is_empty() && !st.blinding_polynomial.is_zero() {
                        viol(rec, "KZG", "commit/nonhiding-state-not-empty", &id, "no hiding bound but the state is not empty".into());
                    }
                    if rng.bytes != 0 {
                        viol(rec, "KZG", "commit/nonhiding-uses-rng", &id, "non-hiding commit consumed randomness".into());
                    }
                }
            }
            rec.obs(&format!("KZG|{}|{}", sname, h));
            rec.sample("KZG-hide", id.clone());
        }
    }
}

/// Hyrax openings: the masks of the dot-product argument.  From a proof, the commitment state and a replay of the
/// verifier's challenge, the prover's masks are recovered: d = z - c*(l^T M), r_d = z_d - c*<l, row randomness>,
/// r_b = z_b - c*r_eval.  They must open the auxiliary commitments (com_d = <key, d> + r_d*h, com_b = <r,d>*g_0 + r_b*h),
/// be non-zero and pairwise distinct over ALL proofs of one call (one polynomial, two, three; `open` and `batch_open`
/// with several labels at one point), and change with the RNG seed; the same seed reproduces the proof.
pub fn hyrax_open_masks(rec: &mut Rec) {
    use ark_crypto_primitives::sponge::CryptographicSponge;
    use ark_poly_commit::QuerySet;
    type S = SHyr;
    for nv in [2usize, 4] {
        let cfg = KeyCfg::ml(nv);
        let keys = match build_keys::<S>(&cfg, rec.seed) {
            Ok(k) => k,
            Err(_) => continue,
        };
        let shapes = S::shapes(&cfg, rec.seed);
        let dim = 1usize << (nv / 2);
        for k in [1usize, 2, 3] {
            for entry in ["open", "batch_open"] {
                for family in ["distinct-polynomials", "equal-polynomials"] {
                    let id = format!("HYR/open-masks/nv={}/k={}/{}/{}", nv, k, entry, family);
                    if !rec.take(&id) {
                        continue;
                    }
                    rec.dim("scheme", "HYR");
                    // the last shapes are the generic (dense random) ones
                    let polys: Vec<LP<S>> = (0..k).map(|i| lp::<S>(&format!("p{}", i), shapes[shapes.len() - 1 - if family == "equal-polynomials" { 0 } else { i % shapes.len() }].1.clone(), None, None)).collect();
                    let c = match commit_set::<S>(&keys, polys, rec.seed, 0) {
                        Ok(c) => c,
                        Err(_) => continue,
                    };
                    let z: Vec<FrJ> = rho_stream::<FrJ>(rec.seed, 61, nv);
                    let sel: Vec<usize> = (0..k).collect();
                    let prove = |kk: usize| -> Option<Vec<ark_poly_commit::hyrax::HyraxProof<GJ>>> {
                        if entry == "open" {
                            open_single::<S>(&keys, &c, &sel, &z, 0, rec.seed, kk).ok().map(|s| s.proof)
                        } else {
                            let mut qs = QuerySet::new();
                            for i in 0..k {
                                qs.insert((format!("p{}", i), ("z".to_string(), z.clone())));
                            }
                            open_batch::<S>(&keys, &c, &sel, &qs, 0, rec.seed, kk).ok().map(|b| {
                                let list: Vec<Pf<S>> = b.proof.into();
                                list.into_iter().flatten().collect()
                            })
                        }
                    };
                    let (p0, p0b, p1) = match (prove(0), prove(0), prove(1)) {
                        (Some(a), Some(b), Some(c)) => (a, b, c),
                        _ => {
                            viol(rec, "HYR", "open/in-domain", &id, "open failed".into());
                            continue;
                        }
                    };
                    rec.op(4);
                    rec.count_points(1);
                    if p0.len() != k {
                        viol(rec, "HYR", "open/proof-count", &id, format!("{} proofs for {} polynomials", p0.len(), k));
                        continue;
                    }
                    if ser(&p0) != ser(&p0b) {
                        viol(rec, "HYR", "open/same-seed-differs", &id, "the same RNG seed gave a different proof".into());
                    }
                    let rev: Vec<FrJ> = z.iter().rev().cloned().collect();
                    let l = tensor_msb(&rev[nv / 2..]);
                    let r = tensor_msb(&rev[..nv / 2]);
                    let recover = |pf: &Vec<ark_poly_commit::hyrax::HyraxProof<GJ>>| -> Result<Vec<Vec<FrJ>>, String> {
                        let mut sponge = sponge_pre::<FrJ>(0);
                        let mut out = Vec::new();
                        for (i, p) in pf.iter().enumerate() {
                            let st: MHyraxState<FrJ> = convert(&c.states[i]);
                            let rows = &c.comms[i].commitment().row_coms;
                            let mut b = Vec::new();
                            ser_unc(&keys.vk, &mut b);
                            sponge.absorb(&b);
                            let mut b = Vec::new();
                            ser_unc(rows, &mut b);
                            sponge.absorb(&b);
                            sponge.absorb(&z);
                            for g in [&p.com_eval, &p.com_d, &p.com_b] {
                                let mut b = Vec::new();
                                ser_unc(g, &mut b);
                                sponge.absorb(&b);
                            }
                            let ch: FrJ = sponge.squeeze_field_elements(1)[0];
                            if p.z.len() != dim || st.mat.entries.len() != dim || st.randomness.len() != dim {
                                return Err("shape".into());
                            }
                            let lt: Vec<FrJ> = (0..dim).map(|j| (0..dim).map(|i| l[i] * st.mat.entries[i][j]).sum()).collect();
                            let r_lt: FrJ = (0..dim).map(|i| l[i] * st.randomness[i]).sum();
                            let d: Vec<FrJ> = (0..dim).map(|j| p.z[j] - ch * lt[j]).collect();
                            let r_d = p.z_d - ch * r_lt;
                            let r_b = p.z_b - ch * p.r_eval;
                            if naive_msm(&keys.ck.com_key[..dim], &d) + naive_mul(&keys.ck.h, &r_d) != p.com_d.into_group() {
                                return Err(format!("proof {}: com_d is not the commitment to the recovered mask", i));
                            }
                            if naive_mul(&keys.ck.com_key[0], &inner(&r, &d)) + naive_mul(&keys.ck.h, &r_b) != p.com_b.into_group() {
                                return Err(format!("proof {}: com_b is not the commitment to <r, mask>", i));
                            }
                            let mut all = d;
                            all.push(r_d);
                            all.push(r_b);
                            all.push(p.r_eval);
                            out.push(all);
                        }
                        Ok(out)
                    };
                    match (recover(&p0), recover(&p1)) {
                        (Ok(m0), Ok(m1)) => {
                            rec.class("masks-recovered");
                            let flat: Vec<FrJ> = m0.iter().flatten().cloned().collect();
                            if let Err(e) = all_nonzero_distinct(&flat) {
                                viol(rec, "HYR", "open/degenerate-masks", &id, format!("masks of the {} proofs of one call: {}", k, e));
                            }
                            for i in 0..k {
                                if (0..m0[i].len()).any(|j| m0[i][j] == m1[i][j]) {
                                    viol(rec, "HYR", "open/other-seed-same-mask", &id, format!("proof {}: a mask scalar is the same under independent RNG seeds", i));
                                }
                            }
                            rec.obs(&format!("HYR|open-masks|{}|{}|{}", nv, k, entry));
                        }
                        (Err(e), _) | (_, Err(e)) => {
                            rec.class("masks-not-recovered");
                            viol(rec, "HYR", "open/mask-identity", &id, e);
                        }
                    }
                    rec.sample("HYR-open-masks", id.clone());
                }
            }
        }
    }
}

pub fn run(rec: &mut Rec) {
    kzg(rec);
    scheme::<SMar>(rec);
    scheme::<SSon>(rec);
    scheme::<SPst>(rec);
    scheme::<SIpa>(rec);
    mixed_batches::<SMar>(rec);
    mixed_batches::<SSon>(rec);
    mixed_batches::<SPst>(rec);
    mixed_batches::<SIpa>(rec);
    hyrax(rec);
    hyrax_open_masks(rec);
}
