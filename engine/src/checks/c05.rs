//! C05 — batch verification decides exactly the conjunction of the individual checks (E3 over E1).
use crate::alpha::*;
use crate::checks::c01::{slice_b_labels, slice_b_polys};
use crate::pmut::ProofMut;
use crate::rec::Rec;
use crate::sch::*;
use crate::schemes::*;
use crate::scope::*;
use crate::tr::*;
use crate::util::*;
use ark_ff::{One, Zero};
use ark_poly_commit::{Evaluations, QuerySet};
use ark_std::rand::RngCore;
use std::collections::{BTreeMap, BTreeSet};

/// Reference decision: the per-point-label checks run in label order on one sponge, AND-ed;
/// a missing or surplus proof means "not accepted".
pub fn individual_and<S: Sch>(
    keys: &Keys<S>,
    comms: &[&LCm<S>],
    qs: &QuerySet<S::Pt>,
    evals: &Evaluations<S::Pt, S::F>,
    proofs: &[Pf<S>],
    seed: u64,
) -> (bool, Vec<Dec>) {
    let by_label: BTreeMap<&String, &LCm<S>> = comms.iter().map(|c| (c.label(), *c)).collect();
    let mut groups: BTreeMap<&String, (&S::Pt, BTreeSet<&String>)> = BTreeMap::new();
    for (label, (pl, z)) in qs.iter() {
        groups.entry(pl).or_insert((z, BTreeSet::new())).1.insert(label);
    }
    let mut decs = Vec::new();
    if proofs.len() != groups.len() {
        return (false, decs);
    }
    let mut sponge = sponge_pre::<S::F>(0);
    let mut rng = seed_rng(seed, 40);
    let mut all = true;
    for ((_pl, (z, labels)), pf) in groups.into_iter().zip(proofs.iter()) {
        let mut cs = Vec::new();
        let mut vs = Vec::new();
        let mut ok = true;
        for l in labels {
            match (by_label.get(l), evals.get(&(l.clone(), z.clone()))) {
                (Some(c), Some(v)) => {
                    cs.push(*c);
                    vs.push(*v);
                }
                _ => ok = false,
            }
        }
        if !ok {
            all = false;
            decs.push(Dec::Err("missing".into()));
            continue;
        }
        let d = do_check::<S>(&keys.vk, &cs, z, &vs, pf, &mut sponge, Some(&mut rng as &mut dyn RngCore));
        all &= d.accepted();
        decs.push(d);
    }
    (all, decs)
}

fn compare<S: Sch>(
    rec: &mut Rec,
    t_id: &str,
    op: &str,
    keys: &Keys<S>,
    comms: &[&LCm<S>],
    qs: &QuerySet<S::Pt>,
    evals: &Evaluations<S::Pt, S::F>,
    proofs: &[Pf<S>],
    detail: &str,
    seeds: &[usize],
    truth: &Evaluations<S::Pt, S::F>,
) {
    let (want, decs) = individual_and::<S>(keys, comms, qs, evals, proofs, rec.seed);
    let bp: BPf<S> = proofs.to_vec().into();
    let mut got: Vec<Dec> = Vec::new();
    for k in seeds {
        got.push(check_batch::<S>(keys, comms, qs, evals, &bp, 0, rec.seed, *k));
    }
    rec.count_points(1);
    rec.op(1 + decs.len() as u64);
    let opc: String = op.chars().filter(|c| !c.is_ascii_digit()).collect();
    rec.class(if want { "and-accepts" } else { "and-rejects" });
    rec.class(&format!("batch-{}", got[0].class()));
    rec.obs(&format!("{}|{}|{}|{}", S::NAME, opc, want, got[0].class()));
    for (k, g) in seeds.iter().zip(got.iter()) {
        if g.accepted() != want {
            let dir = if g.accepted() { "batch-accepts" } else { "batch-rejects" };
            rec.violation(
                &format!("C05/{}/batch_check/{}/{}", S::NAME, opc, dir),
                t_id,
                format!("{} {}: batch_check -> {} (verifier seed {}), individual checks -> {:?}", op, detail, g.short(), k, decs.iter().map(|d| d.short()).collect::<Vec<_>>()),
            );
            break;
        }
    }
    // absolute expectation (the statement itself: wrong claims - single, several, cancelling - lead to rejection): a claim
    // set that contains a false claim may not be accepted, even when the per-point verifier of the same library agrees
    // with the batch verifier (shared code would otherwise hide a weakness of both)
    let has_false = evals.iter().any(|(k, v)| truth.get(k) != Some(v));
    if has_false && want && got.iter().any(|g| g.accepted()) {
        rec.violation(&format!("C05/{}/batch_check/{}/false-claims-accepted-by-batch-and-individual-checks", S::NAME, opc), t_id, format!("{} {}: the claim set contains false claims, yet batch_check and every individual check accept", op, detail));
    }
    if got.iter().any(|g| g.accepted() != got[0].accepted()) {
        rec.violation(&format!("C05/{}/batch_check/{}/rng-dependent", S::NAME, opc), t_id, format!("{} {}: decision depends on the verifier RNG: {:?}", op, detail, got.iter().map(|d| d.short()).collect::<Vec<_>>()));
    }
}

pub fn scheme<S: Sch + ProofMut>(rec: &mut Rec) {
    let cfg = slice_b::<S>();
    scheme_polys::<S>(rec, slice_b_polys::<S>(&cfg, rec.seed), "");
    // the same with three PLAIN polynomials (no degree bound, no hiding, pairwise different): adjacent members of a point
    // group that all take the "no shifted part" path of the verifier
    let shapes = crate::source::shapes_short::<S>(&cfg, rec.seed);
    let n = shapes.len();
    let base = slice_b_polys::<S>(&cfg, rec.seed);
    let plain: Vec<LP<S>> = vec![
        lp::<S>("p0", base[0].polynomial().clone(), None, None),
        lp::<S>("p1", S::plus_one(base[0].polynomial()), None, None),
        lp::<S>("p2", shapes[n / 2].1.clone(), None, None),
    ];
    scheme_polys::<S>(rec, plain, "/plain");
}

fn scheme_polys<S: Sch + ProofMut>(rec: &mut Rec, polys: Vec<LP<S>>, tag: &str) {
    let cfg = slice_b::<S>();
    let keys = match build_keys::<S>(&cfg, rec.seed) {
        Ok(k) => k,
        Err(_) => return,
    };
    let c = match commit_set::<S>(&keys, polys, rec.seed, 0) {
        Ok(c) => c,
        Err(_) => return,
    };
    let labels = slice_b_labels::<S>(&cfg, rec.seed);
    // (poly indices, label indices): k point labels x m polynomials per label
    // the last flag: hand the verifier only the commitments the query set refers to (more point labels
    // than commitments), instead of the whole committed set
    let mut cfgs: Vec<(Vec<usize>, Vec<usize>, bool)> = vec![(vec![0, 1], vec![0, 2], false), (vec![0, 1], vec![0, 1], false), (vec![0, 1, 2], vec![0, 2], false), (vec![0], vec![0, 1, 2], true), (vec![1], vec![0, 2], true)];
    if !tag.is_empty() {
        cfgs = vec![(vec![0, 1, 2], vec![0, 2], false), (vec![0, 1], vec![0, 1], false)];
    }
    if rec.thorough() {
        cfgs.push((vec![0, 1, 2], vec![0, 1, 2], false));
        cfgs.push((vec![0, 2], vec![1, 2], false));
        cfgs.push((vec![0, 1], vec![0, 1, 2], true));
    }
    let all_comms: Vec<&LCm<S>> = c.comms.iter().collect();
    let r1 = rho::<S::F>(rec.seed, 1);
    let seeds3 = [0usize, 1, 2];
    let seeds1 = [0usize];
    // grids (every polynomial at every label) and ragged sets (explicit (polynomial, label) pairs: the order
    // in which point labels are first met while walking the query set differs from their sorted order)
    let mut sets: Vec<(Vec<(usize, usize)>, bool, String)> = cfgs
        .into_iter()
        .map(|(pi, li, minimal)| {
            let pairs: Vec<(usize, usize)> = pi.iter().flat_map(|p| li.iter().map(move |l| (*p, *l))).collect();
            (pairs, minimal, format!("polys={:?}/labels={:?}", pi, li))
        })
        .collect();
    sets.push((vec![(0, 2), (1, 0)], false, "ragged=[p0@c,p1@a]".into()));
    sets.push((vec![(0, 2), (1, 0), (2, 1)], false, "ragged=[p0@c,p1@a,p2@b]".into()));
    sets.push((vec![(0, 1), (0, 2), (1, 0)], true, "ragged=[p0@b,p0@c,p1@a]".into()));
    for (pairs, minimal, name) in sets {
        let pi: Vec<usize> = {
            let mut v: Vec<usize> = pairs.iter().map(|x| x.0).collect();
            v.sort();
            v.dedup();
            v
        };
        let comms: Vec<&LCm<S>> = if minimal { pi.iter().map(|i| &c.comms[*i]).collect() } else { all_comms.clone() };
        let mut qs = QuerySet::<S::Pt>::new();
        for (p, l) in pairs.iter() {
            qs.insert((c.polys[*p].label().clone(), (labels[*l].0.clone(), labels[*l].1.clone())));
        }
        let tid = format!("{}{}/C05/{}/{}{}", S::NAME, tag, cfg.id(), name, if minimal { "/only-needed-commitments" } else { "" }).replace(' ', "");
        // the batch is opened by every worker (cheap); sub-families are sharded below
        let b = match open_batch::<S>(&keys, &c, &[0, 1, 2], &qs, 0, rec.seed, 0) {
            Ok(b) => b,
            Err(_) => {
                rec.class("source-open-failed");
                continue;
            }
        };
        let list: Vec<Pf<S>> = b.proof.clone().into();
        let ekeys: Vec<_> = b.evals.keys().cloned().collect();
        let ne = ekeys.len();
        // (a) every subset of claims made false
        for mask in 0u32..(1 << ne) {
            let id = format!("{}/false-subset={:b}", tid, mask);
            if !rec.take(&id) {
                continue;
            }
            rec.dim("scheme", S::NAME);
            let mut ev = b.evals.clone();
            for (i, k) in ekeys.iter().enumerate() {
                if mask >> i & 1 == 1 {
                    *ev.get_mut(k).unwrap() += r1;
                }
            }
            let seeds: &[usize] = if mask.count_ones() <= 1 { &seeds3 } else { &seeds1 };
            compare::<S>(rec, &id, "false-subset", &keys, &comms, &qs, &ev, &list, &format!("mask={:b}", mask), seeds, &b.evals);
            if mask == 0 {
                rec.sample(&format!("{}-c05", S::NAME), format!("{}: {} claims, all 2^{} false-subsets, cancelling pairs, proof-list edits", tid, ne, ne));
            }
        }
        // (b) cancelling pairs
        for i in 0..ne {
            for j in 0..ne {
                if i == j {
                    continue;
                }
                for (dn, d) in [("1", S::F::one()), ("r1", r1)] {
                    let id = format!("{}/cancel({},{},{})", tid, i, j, dn);
                    if !rec.take(&id) {
                        continue;
                    }
                    let mut ev = b.evals.clone();
                    *ev.get_mut(&ekeys[i]).unwrap() += d;
                    *ev.get_mut(&ekeys[j]).unwrap() -= d;
                    compare::<S>(rec, &id, "cancelling-pair", &keys, &comms, &qs, &ev, &list, &format!("+{} at {}, -{} at {}", dn, i, dn, j), &seeds3, &b.evals);
                }
            }
        }
        // (c) proof-list edits, with all claims true and with one false claim
        let n = list.len();
        let mut lists: Vec<(String, Vec<Pf<S>>)> = Vec::new();
        for p in permutations(n) {
            if p.iter().enumerate().all(|(i, x)| i == *x) {
                continue;
            }
            lists.push((format!("list-permuted{:?}", p).replace(' ', ""), p.iter().map(|i| list[*i].clone()).collect()));
        }
        for k in 0..n {
            lists.push((format!("list-truncated(len={})", k), list[..k].to_vec()));
        }
        for k in 0..n {
            let mut l = list.clone();
            l.insert(k, list[k].clone());
            lists.push((format!("list-duplicated({})", k), l));
            let mut l = list.clone();
            l[(k + 1) % n] = list[k].clone();
            lists.push((format!("list-overwritten({}->{})", k, (k + 1) % n), l));
        }
        let mut l = list.clone();
        l.push(list[0].clone());
        lists.push(("list-surplus".into(), l));
        for k in 0..n {
            for (name, m) in S::proof_mutations(&list[k], &list[(k + 1) % n], rec.seed) {
                if name.starts_with("shape:") {
                    let mut l = list.clone();
                    l[k] = m;
                    lists.push((format!("proof[{}].{}", k, name), l));
                }
            }
        }
        for (name, l) in lists.iter() {
            for false_at in [None, Some(0usize), Some(ne - 1)] {
                let id = format!("{}/{}/false={:?}", tid, name, false_at);
                if !rec.take(&id) {
                    continue;
                }
                let mut ev = b.evals.clone();
                if let Some(i) = false_at {
                    *ev.get_mut(&ekeys[i]).unwrap() += S::F::one();
                }
                compare::<S>(rec, &id, name, &keys, &comms, &qs, &ev, l, &format!("false claim at {:?}", false_at), &seeds1, &b.evals);
            }
        }
    }
}

/// IPA: a proof made by the library's own prover under a smaller trimmed key (fewer halving rounds),
/// presented under the larger key: the individual check refuses it, the batch must too.
pub fn ipa_cross_key(rec: &mut Rec) {
    use ark_poly::DenseUVPolynomial;
    let big = KeyCfg::uni(7, 7, 1, None);
    let pp = match SIpa::setup(&big, rec.seed) {
        Ok(p) => p,
        Err(_) => return,
    };
    for small_s in [1usize, 3] {
        for hid in [None, Some(1usize)] {
            for two_points in [false, true] {
                let id = format!("IPA/C05/cross-key/small={}/h={:?}/two-points={}", small_s, hid, two_points);
                if !rec.take(&id) {
                    continue;
                }
                rec.dim("scheme", "IPA");
                let (ck_big, vk_big) = match SIpa::trim(&pp, &big) {
                    Ok(k) => k,
                    Err(_) => continue,
                };
                let (ck_small, _) = match SIpa::trim(&pp, &KeyCfg::uni(7, small_s, 1, None)) {
                    Ok(k) => k,
                    Err(_) => continue,
                };
                let keys_big = Keys::<SIpa> { cfg: big.clone(), pp: pp.clone(), ck: ck_big, vk: vk_big };
                let keys_small = Keys::<SIpa> { cfg: KeyCfg::uni(7, small_s, 1, None), pp: pp.clone(), ck: ck_small, vk: keys_big.vk.clone() };
                let r = rho_stream::<FrJ>(rec.seed, 1, 8);
                let p = lp::<SIpa>("p0", UP::<FrJ>::from_coefficients_slice(&r[..=small_s.min(3)]), None, hid);
                // commitment (and state) from the small key: the same generators prefix as the big key
                let c = match commit_set::<SIpa>(&keys_small, vec![p], rec.seed, 0) {
                    Ok(c) => c,
                    Err(_) => continue,
                };
                let labels = vec![("a".to_string(), rho::<FrJ>(rec.seed, 1)), ("c".to_string(), rho::<FrJ>(rec.seed, 2))];
                let mut qs = QuerySet::<FrJ>::new();
                qs.insert(("p0".into(), (labels[0].0.clone(), labels[0].1)));
                if two_points {
                    qs.insert(("p0".into(), (labels[1].0.clone(), labels[1].1)));
                }
                // proofs by the library's prover under the SMALL key
                let b = match open_batch::<SIpa>(&keys_small, &c, &[0], &qs, 0, rec.seed, 0) {
                    Ok(b) => b,
                    Err(_) => continue,
                };
                let list: Vec<Pf<SIpa>> = b.proof.clone().into();
                let comms: Vec<&LCm<SIpa>> = c.comms.iter().collect();
                compare::<SIpa>(rec, &id, "short-rounds-from-smaller-key", &keys_big, &comms, &qs, &b.evals, &list, &format!("{}-round proofs under an 8-generator key", list[0].l_vec.len()), &[0, 1, 2], &b.evals);
            }
        }
    }
}

/// Errors that cancel across query points once the (publicly computable) opening challenges are
/// taken into account: delta_a = xi_c, delta_c = -xi_a for one polynomial per point. A batch verifier
/// whose per-point randomizers are constant or reused accepts these; a correct one does not.
pub fn challenge_aware<S: Sch>(rec: &mut Rec, squeezes_per_poly: usize, leading_squeeze: bool) {
    use crate::refm::challenge;
    let cfg = slice_b::<S>();
    let keys = match build_keys::<S>(&cfg, rec.seed) {
        Ok(k) => k,
        Err(_) => return,
    };
    let shapes = S::shapes(&cfg, rec.seed);
    let dense: Vec<S::P> = shapes.iter().filter(|(n, _)| n.starts_with("dense") || n.starts_with("mono")).map(|(_, p)| p.clone()).collect();
    if dense.len() < 2 {
        return;
    }
    let labels = slice_b_labels::<S>(&cfg, rec.seed);
    for hid in [None, if S::HIDING { Some(1usize) } else { None }] {
        let id = format!("{}/C05/challenge-aware/h={:?}", S::NAME, hid);
        if hid.is_none() && S::HIDING && false {
            continue;
        }
        if !rec.take(&id) {
            continue;
        }
        rec.dim("scheme", S::NAME);
        let _ = leading_squeeze;
        // one polynomial per point label: two labels (a, c) and three labels (a, b, c; a and b share a value)
        for groups in [vec![0usize, 2], vec![0, 1, 2]] {
            let polys: Vec<LP<S>> = (0..groups.len()).map(|k| lp::<S>(&format!("q{}", k), dense[dense.len() - 1 - (k % dense.len())].clone(), None, hid)).collect();
            let c = match commit_set::<S>(&keys, polys, rec.seed, 0) {
                Ok(c) => c,
                Err(_) => continue,
            };
            let mut qs = QuerySet::<S::Pt>::new();
            for (k, g) in groups.iter().enumerate() {
                qs.insert((format!("q{}", k), (labels[*g].0.clone(), labels[*g].1.clone())));
            }
            let sel: Vec<usize> = (0..groups.len()).collect();
            let b = match open_batch::<S>(&keys, &c, &sel, &qs, 0, rec.seed, 0) {
                Ok(b) => b,
                Err(_) => continue,
            };
            // replay the challenge schedule on a fresh sponge: the groups come in point-label order
            let mut sp = sponge_pre::<S::F>(0);
            let mut xi: Vec<S::F> = Vec::new();
            for _ in 0..groups.len() {
                xi.push(challenge(&mut sp));
                for _ in 1..squeezes_per_poly {
                    let _: S::F = challenge(&mut sp);
                }
            }
            let list: Vec<Pf<S>> = b.proof.clone().into();
            let comms: Vec<&LCm<S>> = c.comms.iter().collect();
            // every pair of positions (i, j): delta_i = xi_j, delta_j = -xi_i, so that the challenge-weighted errors cancel
            for i in 0..groups.len() {
                for j in (i + 1)..groups.len() {
                    let mut ev = b.evals.clone();
                    *ev.get_mut(&(format!("q{}", i), labels[groups[i]].1.clone())).unwrap() += xi[j];
                    *ev.get_mut(&(format!("q{}", j), labels[groups[j]].1.clone())).unwrap() -= xi[i];
                    rec.count_points(1);
                    compare::<S>(rec, &id, "challenge-aware-cancelling", &keys, &comms, &qs, &ev, &list, &format!("{} labels: delta(q{}) = xi_{}, delta(q{}) = -xi_{}", groups.len(), i, j, j, i), &[0, 1, 2], &b.evals);
                }
            }
            // three labels: challenge-weighted defects (d, -2d, d) in every assignment to the positions - their sum AND
            // their first moment over the label index vanish, which cancels under batching weights that are merely
            // pairwise distinct but in arithmetic progression (and under equal weights)
            if groups.len() == 3 {
                let d = rho::<S::F>(rec.seed, 3);
                let two = S::F::from(2u64);
                for (pat, e) in [("(1,-2,1)", [S::F::one(), -two, S::F::one()]), ("(-2,1,1)", [-two, S::F::one(), S::F::one()]), ("(1,1,-2)", [S::F::one(), S::F::one(), -two])] {
                    let mut ev = b.evals.clone();
                    for k in 0..3usize {
                        let others: S::F = (0..3).filter(|m| *m != k).map(|m| xi[m]).product();
                        *ev.get_mut(&(format!("q{}", k), labels[groups[k]].1.clone())).unwrap() += d * e[k] * others;
                    }
                    rec.count_points(1);
                    compare::<S>(rec, &id, "challenge-aware-moment-cancelling", &keys, &comms, &qs, &ev, &list, &format!("3 labels: challenge-weighted defects {} * d", pat), &[0, 1, 2], &b.evals);
                }
            }
        }
    }
}

pub fn run(rec: &mut Rec) {
    crate::for_each_scheme!(S, {
        scheme::<S>(rec);
    });
    ipa_cross_key(rec);
    // Marlin / PST13: one squeeze per (unbounded) polynomial; Sonic: one before the loop and one after each polynomial
    challenge_aware::<SMar>(rec, 1, false);
    challenge_aware::<SPst>(rec, 1, false);
    challenge_aware::<SSon>(rec, 2, true);
    crate::special::c05_special(rec);
}
