//! C13 — linear-code proofs carry the column openings their security level needs.
use crate::alpha::*;
use crate::checks::c08::HashRef;
use crate::checks::c10::RefOps;
use crate::mirror::*;
use crate::rec::Rec;
use crate::refm::*;
use crate::sch::*;
use crate::schemes::*;
use crate::scope::*;
use crate::tr::*;
use crate::util::*;
use ark_ff::{One, PrimeField, Zero};
use ark_poly_commit::linear_codes::{verif_calculate_t, LinCodeParametersInfo, LinearEncode};
use num_bigint::BigUint;

fn viol(rec: &mut Rec, what: &str, id: &str, detail: String) {
    rec.violation(&format!("C13/{}", what), id, detail);
}

fn pow_big(b: &BigUint, e: usize) -> BigUint {
    let mut acc = BigUint::from(1u32);
    let mut base = b.clone();
    let mut e = e;
    while e > 0 {
        if e & 1 == 1 {
            acc *= &base;
        }
        e >>= 1;
        if e > 0 {
            base = &base * &base;
        }
    }
    acc
}

/// holds(t) <=> 2*(1-d/2)^t + n/q <= 2^-lambda, evaluated exactly.
fn holds(q: &BigUint, lambda: usize, dist: (usize, usize), n: usize, t: usize) -> bool {
    let a = BigUint::from(2 * dist.1 - dist.0);
    let b = BigUint::from(2 * dist.1);
    let two_l = BigUint::from(1u32) << lambda;
    let at = pow_big(&a, t);
    let bt = pow_big(&b, t);
    (&two_l << 1usize) * &at * q + BigUint::from(n) * &two_l * &bt <= &bt * q
}

fn grid_t<F: PrimeField>(rec: &mut Rec, fname: &str, lambdas: &[usize], kmax: usize) {
    let q = modulus_of::<F>();
    let dists: [(usize, usize); 5] = [(1, 2), (3, 4), (7, 8), (61, 1521), (1, 100)];
    for lambda in lambdas.iter().copied() {
        for dist in dists.iter().copied() {
            let id = format!("t/{}/lambda={}/d={}/{}", fname, lambda, dist.0, dist.1);
            if !rec.take(&id) {
                continue;
            }
            rec.dim("field", fname);
            let mut ns: Vec<usize> = Vec::new();
            for k in 0..=kmax {
                for n in [(1usize << k).wrapping_sub(1), 1 << k, (1 << k) + 1] {
                    if n >= 1 && !ns.contains(&n) {
                        ns.push(n);
                    }
                }
            }
            for n in ns {
                rec.count_points(1);
                rec.op(1);
                let got = match catch(|| verif_calculate_t::<F>(lambda, dist, n)) {
                    Ok(r) => r.ok(),
                    Err(p) => {
                        viol(rec, "calculate_t/panic", &id, format!("n={}: panicked: {}", n, p));
                        continue;
                    }
                };
                let feasible = BigUint::from(n) * (BigUint::from(1u32) << lambda) < q;
                match got {
                    None => {
                        rec.class(if feasible { "t-err-but-feasible" } else { "t-err-infeasible" });
                        if feasible {
                            // feasible in principle: a t exists iff the first term can be pushed below the slack; with
                            // d > 0 it always can
                            viol(rec, "calculate_t/refuses-feasible", &id, format!("n={}: error returned although a column count exists", n));
                        }
                    }
                    Some(t) => {
                        if !feasible {
                            rec.class("t-for-infeasible");
                            viol(rec, "calculate_t/answers-infeasible", &id, format!("n={}: returned t={} although n/|F| >= 2^-lambda (no column count can reach the security level)", n, t));
                            continue;
                        }
                        if t > n {
                            viol(rec, "calculate_t/exceeds-codeword", &id, format!("n={}: t={} exceeds the codeword length", n, t));
                            continue;
                        }
                        let verdict = if t == n {
                            // capped: the uncapped minimum must be >= n
                            if n == 0 || t == 0 || !holds(&q, lambda, dist, n, t - 1) {
                                "exact"
                            } else {
                                "above"
                            }
                        } else if !holds(&q, lambda, dist, n, t) {
                            "below"
                        } else if t > 0 && holds(&q, lambda, dist, n, t - 1) {
                            "above"
                        } else {
                            "exact"
                        };
                        rec.class(&format!("t-{}", verdict));
                        rec.obs(&format!("{}|{}|{}|{}|{}", fname, lambda, dist.1, verdict, (t as f64).log2() as usize));
                        match verdict {
                            "below" => viol(rec, "calculate_t/below-minimum", &id, format!("n={}: t={} does not reach 2^-{} (soundness bound violated)", n, t, lambda)),
                            "above" => viol(rec, "calculate_t/above-minimum", &id, format!("n={}: t={} is not the smallest count (t-1 already suffices)", n, t)),
                            _ => {}
                        }
                    }
                }
            }
            rec.sample("t-grid", format!("{}: n in {{2^k-1, 2^k, 2^k+1 : k <= {}}}", id, kmax));
        }
    }
}


/// `calculate_t` for the four fields in EVERY order within one process, on parameters where the field size matters
/// (lambda + log2 n close to log2 |F| of the 253-bit fields, far below it for the 377-bit field): a result must be a
/// function of (field, lambda, distance, n) alone, not of which field asked first.  (The grid above spreads the fields
/// over worker processes, so a value remembered across calls would never be seen there.)  Every order uses codeword
/// lengths of its own, so no two orders share a key.
pub fn t_field_orders(rec: &mut Rec) {
    let qs: Vec<BigUint> = vec![modulus_of::<Fr381>(), modulus_of::<Fr377>(), modulus_of::<FrJ>(), modulus_of::<ark_bls12_377::Fq>()];
    let names = ["bls12-381-Fr", "bls12-377-Fr", "jubjub-Fr", "bls12-377-Fq"];
    let call = |f: usize, lambda: usize, dist: (usize, usize), n: usize| -> Option<usize> {
        let r = match f {
            0 => catch(|| verif_calculate_t::<Fr381>(lambda, dist, n)),
            1 => catch(|| verif_calculate_t::<Fr377>(lambda, dist, n)),
            2 => catch(|| verif_calculate_t::<FrJ>(lambda, dist, n)),
            _ => catch(|| verif_calculate_t::<ark_bls12_377::Fq>(lambda, dist, n)),
        };
        r.ok().and_then(|x| x.ok())
    };
    let perms = crate::util::permutations(4);
    rec.scope(format!("calculate_t: {} orders of the four fields in one process x lambda {{128, 236..246}} x distances {{1/2, 3/4}} x 3 codeword lengths per order", perms.len()));
    for (pi, perm) in perms.iter().enumerate() {
        let id = format!("t/field-order/{:?}", perm).replace(' ', "");
        if !rec.take(&id) {
            continue;
        }
        rec.dim("field", "all-orders");
        let mut bad: Option<String> = None;
        for lambda in [128usize, 236, 238, 240, 241, 242, 243, 244, 246] {
            for dist in [(1usize, 2usize), (3, 4)] {
                for base in [1usize << 8, 1 << 10, 1 << 12] {
                    let n = base + 1 + pi;
                    for f in perm.iter().copied() {
                        rec.count_points(1);
                        rec.op(1);
                        let got = call(f, lambda, dist, n);
                        let want = ref_t(&qs[f], lambda, dist, n);
                        if got != want && bad.is_none() {
                            bad = Some(format!("order {:?}: {} asked for lambda={}, d={}/{}, n={}: calculate_t gives {:?}, the exact minimum is {:?}", perm.iter().map(|i| names[*i]).collect::<Vec<_>>(), names[f], lambda, dist.0, dist.1, n, got, want));
                        }
                    }
                }
            }
        }
        rec.class(if bad.is_none() { "t-exact" } else { "t-order-dependent" });
        if let Some(b) = bad {
            viol(rec, "calculate_t/depends-on-call-history", &id, b);
        }
    }
}


/// Fields that cannot host the code at all (two-adicity below rho_inv: the Jubjub scalar field and the BLS12-381 base
/// field have two-adicity 1, so no FFT domain holds even the shortest Reed-Solomon codeword): `setup` must report an
/// error for EVERY requested degree (0, 1, 2, 3, 100), `trim` must refuse parameters built by the public constructor,
/// for both Ligero flavours and rates 1/2 and 1/4.  (The last clause of the property: unusable parameter combinations
/// are reported as errors - here "unusable" comes from the field, not from lambda and n.)
pub fn unusable_fields(rec: &mut Rec) {
    use ark_poly_commit::linear_codes::{LigeroPCParams, LinearCodePCS};
    use ark_poly_commit::PolynomialCommitment;
    type Fq = ark_bls12_381::Fq;
    type LigJ = LinearCodePCS<LigEnc<FrJ>, FrJ, UP<FrJ>, MT, ColH<FrJ>>;
    type MllJ = LinearCodePCS<MllEnc<FrJ>, FrJ, MLE<FrJ>, MT, ColH<FrJ>>;
    type LigQ = LinearCodePCS<LigEnc<Fq>, Fq, UP<Fq>, MT, ColH<Fq>>;
    let id = "params/unusable-fields".to_string();
    if !rec.take(&id) {
        return;
    }
    rec.dim("field", "two-adicity-1");
    let mut report = |rec: &mut Rec, what: String, served: bool| {
        rec.count_points(1);
        rec.op(1);
        rec.class(if served { "unusable-served" } else { "unusable-refused" });
        if served {
            viol(rec, "params/unusable-field-served", &id, what);
        }
    };
    for d in [0usize, 1, 2, 3, 100] {
        let mut rng = seed_rng(rec.seed, 10);
        let r = catch(|| LigJ::setup(d, None, &mut rng).is_ok());
        report(rec, format!("univariate Ligero over the Jubjub scalar field (two-adicity 1): setup({}) succeeded", d), r == Ok(true));
        let mut rng = seed_rng(rec.seed, 10);
        let r = catch(|| LigQ::setup(d, None, &mut rng).is_ok());
        report(rec, format!("univariate Ligero over the BLS12-381 base field (two-adicity 1): setup({}) succeeded", d), r == Ok(true));
        let mut rng = seed_rng(rec.seed, 10);
        let r = catch(|| MllJ::setup(1, Some(d.max(1).min(6)), &mut rng).is_ok());
        report(rec, format!("multilinear Ligero over the Jubjub scalar field: setup for {} variables succeeded", d.max(1).min(6)), r == Ok(true));
    }
    for rho_inv in [2usize, 4] {
        let r = catch(|| {
            let pp = LigeroPCParams::<FrJ, MT, ColH<FrJ>>::new(128, rho_inv, true, (), (), ());
            LigJ::trim(&pp, 4, 0, None).is_ok()
        });
        report(rec, format!("univariate Ligero over the Jubjub scalar field, rho_inv = {}: trim of constructor-built parameters succeeded", rho_inv), r == Ok(true));
        let r = catch(|| {
            let pp = LigeroPCParams::<Fq, MT, ColH<Fq>>::new(128, rho_inv, true, (), (), ());
            LigQ::trim(&pp, 4, 0, None).is_ok()
        });
        report(rec, format!("univariate Ligero over the BLS12-381 base field, rho_inv = {}: trim of constructor-built parameters succeeded", rho_inv), r == Ok(true));
    }
}

/// The code's relative distance from the parameters themselves (mirror structs), not from the
/// library's `distance()`: Ligero (rho_inv - 1)/rho_inv, Brakedown beta / rho_inv.
fn ref_distance<S: Sch>(ck: &CK<S>) -> (usize, usize) {
    if S::NAME == "BRK" {
        let m: MBrkParams<Fr381> = convert(ck);
        (m.rho_inv.1 * m.beta.0, m.rho_inv.0 * m.beta.1)
    } else {
        let m: MLigParams = convert(ck);
        (m.rho_inv - 1, m.rho_inv)
    }
}

fn same_fraction(a: (usize, usize), b: (usize, usize)) -> bool {
    (a.0 as u128) * (b.1 as u128) == (b.0 as u128) * (a.1 as u128)
}

/// Brakedown with parameters built through the public constructor (constants over different
/// denominators, Reed-Solomon base case): one row of 2^k evaluations.
pub fn brakedown_custom(rec: &mut Rec) {
    use ark_poly_commit::linear_codes::BrakedownPCParams;
    let q = modulus_of::<Fr381>();
    for (an, alpha, beta, rho) in [("lowest-terms", (89usize, 500usize), (61usize, 1000usize), (1521usize, 1000usize)), ("scaled", (356, 2000), (183, 3000), (1521, 1000)), ("default-denominators", (178, 1000), (61, 1000), (1521, 1000))] {
        for k in [6usize, 8, 10] {
          for sec in [128usize, 16, 10] {
            for wf in [true, false] {
                // low security levels reach the regime where the column count is NOT capped by the codeword length
                let id = if sec == 128 { format!("BRK/custom/{}/nv={}/wf={}", an, k, wf) } else { format!("BRK/custom/{}/nv={}/wf={}/lambda={}", an, k, wf, sec) };
                if !rec.take(&id) {
                    continue;
                }
                rec.dim("scheme", "BRK");
                rec.op(3);
                let ck: CK<SBrk> = BrakedownPCParams::new(sec, alpha, beta, rho, 1 << (k + 1), 1, 1 << k, Vec::new(), Vec::new(), Vec::new(), Vec::new(), wf, (), (), ());
                let cfg = KeyCfg::ml(k);
                let keys = Keys::<SBrk> { cfg: cfg.clone(), pp: ck.clone(), ck: ck.clone(), vk: ck.clone() };
                let dist_ref = (rho.1 * beta.0, rho.0 * beta.1);
                let dist_lib = keys.ck.distance();
                if !same_fraction(dist_ref, dist_lib) {
                    viol(rec, "BRK/params/distance", &id, format!("distance() = {}/{} but beta/rho_inv = {}/{}", dist_lib.0, dist_lib.1, dist_ref.0, dist_ref.1));
                }
                let p = SBrk::shapes(&cfg, rec.seed).pop().unwrap().1;
                let z = SBrk::points(&cfg, rec.seed)[0].1.clone();
                let c = match commit_set::<SBrk>(&keys, vec![lp::<SBrk>("p", p, None, None)], rec.seed, 0) {
                    Ok(c) => c,
                    Err(o) => {
                        viol(rec, "BRK/commit/in-domain", &id, format!("commit failed: {}", o.short()));
                        continue;
                    }
                };
                let s1 = match open_single::<SBrk>(&keys, &c, &[0], &z, 0, rec.seed, 0) {
                    Ok(s) => s,
                    Err(o) => {
                        viol(rec, "BRK/open/in-domain", &id, format!("open failed: {}", o.short()));
                        continue;
                    }
                };
                let cm: MComm = convert(c.comms[0].commitment());
                let bp: BPf<SBrk> = vec![s1.proof.clone()];
                let pfl: Vec<Vec<MProof<Fr381>>> = convert(&bp);
                let want = ref_t(&q, sec, dist_ref, cm.metadata.n_ext_cols);
                if want.map(|t| t < cm.metadata.n_ext_cols).unwrap_or(false) {
                    rec.class("uncapped-regime");
                }
                let got = pfl[0][0].opening.columns.len();
                let ok = want == Some(got) && pfl[0][0].opening.paths.len() == got;
                rec.class(if ok { "columns-ok" } else { "columns-bad" });
                rec.obs(&format!("BRK|custom|{}|{}|{}", an, k, ok));
                if !ok {
                    viol(rec, "BRK/open/column-openings", &id, format!("{} columns opened, the security level needs {:?} for distance {}/{} and codeword length {}", got, want, dist_ref.0, dist_ref.1, cm.metadata.n_ext_cols));
                }
                let comms: Vec<&LCm<SBrk>> = c.comms.iter().collect();
                let d = check_single::<SBrk>(&keys, &comms, &z, &s1.values, &s1.proof, 0, rec.seed, 0);
                if !d.accepted() {
                    viol(rec, "BRK/check/honest", &id, format!("honest proof under custom parameters not accepted: {}", d.short()));
                }
                rec.sample("BRK-custom", id.clone());
            }
          }
        }
    }
}

/// Honest proofs: number and position of opened columns.
pub fn proofs<S: RefOps + HashRef>(rec: &mut Rec)
where
    CK<S>: LinCodeParametersInfo<MT, ColH<Fr381>>,
{
    let q = modulus_of::<Fr381>();
    let mut cfgs = slice_c::<S>(rec.thorough());
    // code rates whose inverse is not a power of two (Ligero): the distance is 1 - 1/rho_inv all the same
    if S::NAME == "LIG" {
        for lc in [(128usize, 3usize, true), (128, 5, false), (100, 6, true)] {
            let mut c = KeyCfg::uni(1 << 20, 1 << 20, 1, None);
            c.lc = Some(lc);
            cfgs.push(c);
        }
    }
    // low security levels, with and without the well-formedness check: the column count is then below the codeword
    // length already for small polynomials (otherwise every small proof opens the whole codeword and the count says nothing)
    if S::NAME == "LIG" {
        for lc in [(20usize, 4usize, false), (20, 2, false), (20, 2, true), (40, 4, false), (12, 3, false)] {
            let mut c = KeyCfg::uni(1 << 20, 1 << 20, 1, None);
            c.lc = Some(lc);
            cfgs.push(c);
        }
    }
    // security levels ABOVE the usual 128 (and above 160 = half of a 40-byte serialized digest, above 128 = half of a
    // 32-byte one): the column count must keep following the key's level
    if S::NAME == "LIG" {
        for lc in [(200usize, 4usize, true), (250, 2, false), (161, 4, false), (129, 2, true)] {
            let mut c = KeyCfg::uni(1 << 20, 1 << 20, 1, None);
            c.lc = Some(lc);
            cfgs.push(c);
        }
    }
    if S::NAME == "MLL" {
        for lc in [(200usize, 2usize, false), (170, 4, true)] {
            let mut c = KeyCfg::ml(10);
            c.lc = Some(lc);
            cfgs.push(c);
        }
    }
    if S::NAME == "MLL" {
        for nv in [9usize, 10] {
            for lc in [(20usize, 2usize, false), (20, 4, false), (12, 2, true)] {
                let mut c = KeyCfg::ml(nv);
                c.lc = Some(lc);
                cfgs.push(c);
            }
        }
    }
    if S::NAME == "MLL" {
        for nv in [4usize, 9] {
            for lc in [(128usize, 3usize, true), (100, 6, false)] {
                let mut c = KeyCfg::ml(nv);
                c.lc = Some(lc);
                cfgs.push(c);
            }
        }
    }
    for cfg in cfgs {
        let shapes = S::shapes_c(&cfg, rec.seed, rec.thorough());
        let mut todo = Vec::new();
        for (sname, p) in shapes.iter() {
            let id = format!("{}/columns/{}/{}", S::NAME, cfg.id(), sname);
            if rec.take(&id) {
                todo.push((id, p.clone()));
            }
        }
        if todo.is_empty() {
            continue;
        }
        let keys = match build_keys::<S>(&cfg, rec.seed) {
            Ok(k) => k,
            Err(_) => continue,
        };
        let z = S::points(&cfg, rec.seed)[0].1.clone();
        for (id, p) in todo {
            rec.dim("scheme", S::NAME);
            rec.op(3);
            let c = match commit_set::<S>(&keys, vec![lp::<S>("p", p, None, None)], rec.seed, 0) {
                Ok(c) => c,
                Err(_) => continue,
            };
            let s = match open_single::<S>(&keys, &c, &[0], &z, 0, rec.seed, 0) {
                Ok(s) => s,
                Err(_) => continue,
            };
            let cm: MComm = convert(c.comms[0].commitment());
            let bp: BPf<S> = vec![s.proof.clone()].into();
            let pfl: Vec<Vec<MProof<Fr381>>> = convert(&bp);
            let pf: Vec<MProof<Fr381>> = pfl.into_iter().next().unwrap_or_default();
            let n_ext = cm.metadata.n_ext_cols;
            let dist_ref = ref_distance::<S>(&keys.ck);
            if !same_fraction(dist_ref, keys.ck.distance()) {
                viol(rec, &format!("{}/params/distance", S::NAME), &id, format!("distance() = {:?} but the parameters give {:?}", keys.ck.distance(), dist_ref));
            }
            let want = ref_t(&q, keys.ck.sec_param(), dist_ref, n_ext);
            if want.map(|t| t < n_ext).unwrap_or(false) {
                rec.class("uncapped-regime");
            }
            let mut ok = pf.len() == 1;
            let mut bad = String::new();
            if ok {
                let o = &pf[0].opening;
                match want {
                    Some(t) => {
                        if o.columns.len() != t || o.paths.len() != t {
                            ok = false;
                            bad = format!("{} columns / {} paths opened, the security level needs exactly {} (n_ext = {})", o.columns.len(), o.paths.len(), t, n_ext);
                        }
                    }
                    None => {
                        ok = false;
                        bad = "a proof was produced although no column count reaches the security level".into();
                    }
                }
                if o.paths.iter().any(|p| p.leaf_index >= n_ext) {
                    ok = false;
                    bad = "an opened position lies outside the codeword".into();
                }
                if o.columns.iter().any(|c| c.len() != cm.metadata.n_rows) || o.v.len() != cm.metadata.n_cols {
                    ok = false;
                    bad = "column or vector lengths differ from the commitment's dimensions".into();
                }
            }
            // positions are the ones the transcript dictates (the reference relation replays it)
            let comms: Vec<&LCm<S>> = c.comms.iter().collect();
            let mut sp = sponge_pre::<Fr381>(0);
            let rel = catch(|| S::ref_check(&keys.vk, &comms, &z, &s.values, &s.proof, &mut sp)).unwrap_or(false);
            if ok && !rel {
                ok = false;
                bad = "opened positions / columns do not satisfy the reference replay of the transcript".into();
            }
            rec.class(if ok { "columns-ok" } else { "columns-bad" });
            rec.obs(&format!("{}|cols|{}|{}", S::NAME, n_ext.min(1 << 12).next_power_of_two(), ok));
            if !ok {
                viol(rec, &format!("{}/open/column-openings", S::NAME), &id, bad);
            }
            rec.sample(&format!("{}-cols", S::NAME), format!("{}: n_ext={}, t={:?}", id, n_ext, want));
        }
    }
}

/// Several polynomials of different sizes in ONE open / check call (univariate Ligero: the key does
/// not fix the matrix shape): every proof in the list must carry the column count of its own codeword.
pub fn multi_proofs(rec: &mut Rec) {
    use ark_poly::DenseUVPolynomial;
    type S = SLig;
    let q = modulus_of::<Fr381>();
    let cfg = KeyCfg::uni(1 << 20, 1 << 20, 1, None);
    // sizes with different column counts, and sizes with the same column count but different row counts
    // (199/399, 250/500 with the default parameters)
    let degs = [3usize, 40, 199, 250, 300, 399, 500, 1100];
    let r = rho_stream::<Fr381>(rec.seed, 9, 1101);
    let keys = match build_keys::<S>(&cfg, rec.seed) {
        Ok(k) => k,
        Err(_) => return,
    };
    let z = <S as Sch>::points(&cfg, rec.seed)[0].1.clone();
    for i in 0..degs.len() {
        for j in 0..degs.len() {
            for k in [None, Some((i + 3) % degs.len())] {
                let mut sel = vec![degs[i], degs[j]];
                if let Some(k) = k {
                    sel.push(degs[k]);
                }
                let id = format!("LIG/columns/one-call/degrees={:?}", sel).replace(' ', "");
                if !rec.take(&id) {
                    continue;
                }
                rec.dim("scheme", "LIG");
                rec.op(3);
                let polys: Vec<LP<S>> = sel.iter().enumerate().map(|(n, d)| lp::<S>(&format!("m{}", n), UP::<Fr381>::from_coefficients_slice(&r[..=*d]), None, None)).collect();
                let c = match commit_set::<S>(&keys, polys, rec.seed, 0) {
                    Ok(c) => c,
                    Err(_) => continue,
                };
                let all: Vec<usize> = (0..sel.len()).collect();
                let s1 = match open_single::<S>(&keys, &c, &all, &z, 0, rec.seed, 0) {
                    Ok(s) => s,
                    Err(o) => {
                        viol(rec, "LIG/open/column-openings", &id, format!("open of several polynomials failed: {}", o.short()));
                        continue;
                    }
                };
                let bp: BPf<S> = vec![s1.proof.clone()].into();
                let pfl: Vec<Vec<MProof<Fr381>>> = convert(&bp);
                let pf: Vec<MProof<Fr381>> = pfl.into_iter().next().unwrap_or_default();
                let mut ok = pf.len() == sel.len();
                let mut bad = format!("{} proofs for {} polynomials", pf.len(), sel.len());
                if ok {
                    for (n, m) in pf.iter().enumerate() {
                        let cm: MComm = convert(c.comms[n].commitment());
                        let want = ref_t(&q, keys.ck.sec_param(), ref_distance::<S>(&keys.ck), cm.metadata.n_ext_cols);
                        if Some(m.opening.columns.len()) != want || Some(m.opening.paths.len()) != want {
                            ok = false;
                            bad = format!("polynomial {} (degree {}, codeword length {}): {} columns / {} paths opened, its security level needs {:?}", n, sel[n], cm.metadata.n_ext_cols, m.opening.columns.len(), m.opening.paths.len(), want);
                            break;
                        }
                    }
                }
                let comms: Vec<&LCm<S>> = c.comms.iter().collect();
                let d = check_single::<S>(&keys, &comms, &z, &s1.values, &s1.proof, 0, rec.seed, 0);
                if ok && !d.accepted() {
                    ok = false;
                    bad = format!("honest proof not accepted: {}", d.short());
                }
                let mut sp = sponge_pre::<Fr381>(0);
                let rel = catch(|| S::ref_check(&keys.vk, &comms, &z, &s1.values, &s1.proof, &mut sp)).unwrap_or(false);
                if ok && !rel {
                    ok = false;
                    bad = "opened positions / columns do not satisfy the reference replay of the transcript".into();
                }
                rec.class(if ok { "columns-ok" } else { "columns-bad" });
                if !ok {
                    viol(rec, "LIG/open/column-openings", &id, bad);
                }
            }
        }
    }
}

/// Row encoders: linear, of the declared length, wrong lengths refused.
pub fn encoders<S: HashRef>(rec: &mut Rec)
where
    CK<S>: LinCodeParametersInfo<MT, ColH<Fr381>>,
{
    let cfgs: Vec<KeyCfg> = if S::FAM == Fam::Uni { vec![KeyCfg::uni(64, 64, 1, None)] } else { vec![KeyCfg::ml(2), KeyCfg::ml(4), KeyCfg::ml(6)] };
    for cfg in cfgs {
        let id = format!("{}/encode/{}", S::NAME, cfg.id());
        if !rec.take(&id) {
            continue;
        }
        rec.dim("scheme", S::NAME);
        let keys = match build_keys::<S>(&cfg, rec.seed) {
            Ok(k) => k,
            Err(_) => continue,
        };
        // message length: what the key's matrix layout uses
        let len = match cfg.nv {
            Some(nv) => keys.ck.compute_dimensions(1 << nv).1,
            None => 8,
        };
        let enc = |m: &[Fr381]| -> Result<Vec<Fr381>, String> {
            match catch(|| S::Enc::encode(m, &keys.ck)) {
                Ok(Ok(v)) => Ok(v),
                Ok(Err(e)) => Err(format!("{:?}", e)),
                Err(p) => Err(p),
            }
        };
        let unit = |i: usize| -> Vec<Fr381> {
            let mut v = vec![Fr381::zero(); len];
            v[i] = Fr381::one();
            v
        };
        let zero = match enc(&vec![Fr381::zero(); len]) {
            Ok(z) => z,
            Err(e) => {
                viol(rec, &format!("{}/encode/in-domain", S::NAME), &id, format!("encode of the zero message failed: {}", e));
                continue;
            }
        };
        let n_ext = zero.len();
        let mut ok = zero.iter().all(|x| x.is_zero());
        let mut bad = "E(0) != 0".to_string();
        let mut units: Vec<Vec<Fr381>> = Vec::new();
        for i in 0..len {
            match enc(&unit(i)) {
                Ok(e) => {
                    if e.len() != n_ext {
                        ok = false;
                        bad = format!("|E(e_{})| = {} != {}", i, e.len(), n_ext);
                    }
                    units.push(e);
                }
                Err(e) => {
                    ok = false;
                    bad = format!("encode(e_{}) failed: {}", i, e);
                    units.push(vec![Fr381::zero(); n_ext]);
                }
            }
        }
        let scal = [Fr381::one(), -Fr381::one(), rho::<Fr381>(rec.seed, 1)];
        let mut pairs = 0u64;
        for i in 0..len {
            for j in i..len {
                for a in scal.iter() {
                    for b in scal.iter() {
                        pairs += 1;
                        let mut m = vec![Fr381::zero(); len];
                        m[i] += *a;
                        m[j] += *b;
                        match enc(&m) {
                            Ok(e) => {
                                let want: Vec<Fr381> = (0..n_ext).map(|k| *a * units[i][k] + *b * units[j][k]).collect();
                                if e != want {
                                    ok = false;
                                    bad = format!("E(a e_{} + b e_{}) != a E(e_{}) + b E(e_{})", i, j, i, j);
                                }
                            }
                            Err(e) => {
                                ok = false;
                                bad = format!("encode failed: {}", e);
                            }
                        }
                    }
                }
            }
        }
        rec.count_points(pairs);
        rec.op(pairs + len as u64 + 1);
        // the code must actually spread information: every unit vector has a non-zero codeword of weight > 1
        if units.iter().any(|u| u.iter().filter(|x| !x.is_zero()).count() < 2) {
            ok = false;
            bad = "a unit message encodes to a codeword of weight < 2".into();
        }
        if !S::LIGERO {
            // Brakedown declares its message length: other lengths are refused
            for l in [len - 1, len + 1, 0] {
                if let Ok(v) = enc(&vec![Fr381::one(); l]) {
                    ok = false;
                    bad = format!("message of length {} (declared {}) encoded to {} symbols instead of being refused", l, len, v.len());
                }
            }
        } else if n_ext != (len * keys.ck.distance().1).next_power_of_two() && n_ext != len * keys.ck.distance().1 {
            ok = false;
            bad = format!("Reed-Solomon codeword length {} for message length {} and rate 1/{}", n_ext, len, keys.ck.distance().1);
        }
        rec.class(if ok { "encoder-linear" } else { "encoder-bad" });
        rec.obs(&format!("{}|enc|{}|{}", S::NAME, len, ok));
        if !ok {
            viol(rec, &format!("{}/encode/linearity", S::NAME), &id, bad);
        }
        rec.sample(&format!("{}-enc", S::NAME), format!("{}: message length {}, codeword length {}, {} linearity instances", id, len, n_ext, pairs));
    }
}

/// The VERIFIER authenticates every opened column against the commitment's root - at every position, and whatever it
/// has verified before.  For an honest proof of p: the authentication path at position j is replaced by the path of
/// the same position in the tree of another polynomial q (column and everything else genuine, so the two inner-product
/// tests hold) - for every j; and the whole opening is taken from q's matrices under p's root (the prover run on
/// q against commitment(p)).  All of them must be refused, cold (first thing the verifier sees) and warm (after the
/// verifier has accepted 24 honest openings of p: 6 points x 4 transcript pre-states).
pub fn authentication<S: RefOps + HashRef>(rec: &mut Rec)
where
    CK<S>: LinCodeParametersInfo<MT, ColH<Fr381>>,
    S: Sch<F = Fr381>,
{
    use ark_crypto_primitives::merkle_tree::MerkleTree;
    let cfg = slice_b::<S>();
    for state in ["cold", "warm"] {
        let id = format!("{}/authentication/{}/{}", S::NAME, cfg.id(), state);
        if !rec.take(&id) {
            continue;
        }
        rec.dim("scheme", S::NAME);
        let keys = match build_keys::<S>(&cfg, rec.seed) {
            Ok(k) => k,
            Err(_) => continue,
        };
        let shapes = S::shapes(&cfg, rec.seed);
        // q = p + 1: another polynomial with a matrix and a tree of the same shape
        let pp = match shapes.iter().rev().find(|(m, _)| m.starts_with("dense")) {
            Some(x) => x.1.clone(),
            None => shapes[shapes.len() - 1].1.clone(),
        };
        let qq = S::plus_one(&pp);
        let c = match commit_set::<S>(&keys, vec![lp::<S>("p", pp, None, None), lp::<S>("q", qq, None, None)], rec.seed, 0) {
            Ok(c) => c,
            Err(_) => continue,
        };
        let points = S::points(&cfg, rec.seed);
        if state == "warm" {
            let mut warm = 0u64;
            for (_, pt) in points.iter().take(6) {
                for pre in 0..4usize {
                    if let Ok(s) = open_single::<S>(&keys, &c, &[0], pt, pre, rec.seed, 0) {
                        if check_single::<S>(&keys, &[&c.comms[0]], pt, &s.values, &s.proof, pre, rec.seed, 0).accepted() {
                            warm += 1;
                        }
                    }
                }
            }
            rec.op(warm);
            if warm == 0 {
                rec.class("warm-up-none");
                continue;
            }
        }
        let z = points[0].1.clone();
        let pre = 5usize;
        let s = match open_single::<S>(&keys, &c, &[0], &z, pre, rec.seed, 0) {
            Ok(s) => s,
            Err(_) => continue,
        };
        let stq: MState<Fr381> = convert(&c.states[1]);
        let mut leaves_q = stq.leaves.clone();
        leaves_q.resize(leaves_q.len().next_power_of_two().max(2), Vec::new());
        let tree_q = match catch(|| MerkleTree::<MT>::new(&(), &(), leaves_q.clone())) {
            Ok(Ok(t)) => t,
            _ => continue,
        };
        let bp: BPf<S> = vec![s.proof.clone()].into();
        let honest: Vec<Vec<MProof<Fr381>>> = convert(&bp);
        let t = honest[0][0].opening.paths.len();
        let comms = [&c.comms[0]];
        // control: the untouched proof is accepted
        let d0 = check_single::<S>(&keys, &comms, &z, &s.values, &s.proof, pre, rec.seed, 0);
        rec.count_points(1);
        if !d0.accepted() {
            rec.class("source-not-accepted");
            continue;
        }
        let mut seen = std::collections::BTreeSet::new();
        for j in 0..t {
            let pos = honest[0][0].opening.paths[j].leaf_index;
            let mut m = honest.clone();
            m[0][0].opening.paths[j] = match catch(|| tree_q.generate_proof(pos)) {
                Ok(Ok(p)) => p,
                _ => continue,
            };
            let fb: BPf<S> = convert(&m);
            let list: Vec<Pf<S>> = fb.into();
            let d = check_single::<S>(&keys, &comms, &z, &s.values, &list[0], pre, rec.seed, 0);
            rec.count_points(1);
            rec.op(1);
            rec.class(&format!("foreign-path-{}", d.class()));
            if seen.insert(pos) {
                rec.obs(&format!("{}|auth|{}|{}", S::NAME, state, d.class()));
            }
            if d.accepted() {
                viol(rec, &format!("{}/check/column-not-authenticated", S::NAME), &id, format!("opened column {} (position {}) is accepted with the authentication path of another tree ({} verifier)", j, pos, state));
                break;
            }
        }
        // the whole opening from q's matrices under p's root
        let q_as_p = lp::<S>("p", c.polys[1].polynomial().clone(), None, None);
        let mut sponge = sponge_pre::<Fr381>(pre);
        let mut rng = seed_rng(rec.seed, 20);
        if let Ok(pf) = do_open::<S>(&keys.ck, &[&q_as_p], &[&c.comms[0]], &z, &mut sponge, &[&c.states[1]], Some(&mut rng as &mut dyn ark_std::rand::RngCore)) {
            let vq = ark_poly::Polynomial::evaluate(c.polys[1].polynomial(), &z);
            if vq != s.values[0] {
                let d = check_single::<S>(&keys, &comms, &z, &[vq], &pf, pre, rec.seed, 0);
                rec.count_points(1);
                rec.op(1);
                rec.class(&format!("foreign-opening-{}", d.class()));
                if d.accepted() {
                    viol(rec, &format!("{}/check/opening-of-another-tree", S::NAME), &id, format!("an opening computed from another polynomial's matrices (none of its {} columns belongs to the committed tree) is accepted for the false value ({} verifier)", t, state));
                }
            }
        }
        rec.sample(&format!("{}-auth", S::NAME), id.clone());
    }
}

pub fn run(rec: &mut Rec) {
    let full: Vec<usize> = (1..=256).collect();
    // includes the band lambda + log2(n) ~ log2|F| for n up to 2^40 on the 253/255-bit fields, where the n/|F| term matters
    let quick: Vec<usize> = vec![1, 2, 64, 80, 100, 127, 128, 129, 200, 210, 215, 220, 225, 230, 235, 240, 243, 245, 248, 250, 251, 252, 253, 254, 255, 256];
    let lambdas: &[usize] = if rec.thorough() { &full } else { &quick };
    grid_t::<Fr381>(rec, "bls12-381-Fr", lambdas, 40);
    grid_t::<Fr377>(rec, "bls12-377-Fr", lambdas, 40);
    grid_t::<FrJ>(rec, "jubjub-Fr", lambdas, 40);
    grid_t::<ark_bls12_377::Fq>(rec, "bls12-377-Fq", lambdas, 40);
    t_field_orders(rec);
    unusable_fields(rec);
    proofs::<SLig>(rec);
    proofs::<SMll>(rec);
    proofs::<SBrk>(rec);
    authentication::<SLig>(rec);
    authentication::<SMll>(rec);
    authentication::<SBrk>(rec);
    brakedown_custom(rec);
    multi_proofs(rec);
    encoders::<SLig>(rec);
    encoders::<SMll>(rec);
    encoders::<SBrk>(rec);
}
