//! C01 — completeness: honest proofs of true claims are accepted (E1 grid, slices A, B, C).
use crate::alpha::*;
use crate::rec::Rec;
use crate::schemes::*;
use crate::sch::*;
use crate::scope::*;
use crate::tr::*;
use crate::util::*;
use ark_poly_commit::QuerySet;

fn fail(rec: &mut Rec, sch: &str, entry: &str, what: &str, id: &str, detail: String) {
    rec.violation(&format!("C01/{}/{}/{}", sch, entry, what), id, detail);
}

/// One polynomial, one point: commit, open, check.
pub fn single_point<S: Sch>(rec: &mut Rec, keys: &Keys<S>, id: &str, poly: LP<S>, shape: &str, point: &S::Pt, seed_k: usize) {
    let sch = S::NAME;
    rec.op(3);
    let hb = poly.hiding_bound();
    let db = poly.degree_bound();
    let what = format!("shape={}{}{}", shape.split(|c| c == '(' || c == '[').next().unwrap(), if db.is_some() { "+bound" } else { "" }, if hb.is_some() { "+hiding" } else { "" });
    let c = match commit_set::<S>(keys, vec![poly], rec.seed, seed_k) {
        Ok(c) => c,
        Err(o) => {
            rec.class("commit-failed");
            fail(rec, sch, "commit", &what, id, format!("in-domain commit failed: {}", o.short()));
            return;
        }
    };
    let s = match open_single::<S>(keys, &c, &[0], point, 0, rec.seed, seed_k) {
        Ok(s) => s,
        Err(o) => {
            rec.class("open-failed");
            fail(rec, sch, "open", &what, id, format!("in-domain open failed: {}", o.short()));
            return;
        }
    };
    let comms: Vec<&LCm<S>> = c.comms.iter().collect();
    let d = check_single::<S>(keys, &comms, &s.point, &s.values, &s.proof, 0, rec.seed, 0);
    rec.class(d.class());
    rec.obs(&format!("{}|{}|{}", sch, what, d.class()));
    if !d.accepted() {
        fail(rec, sch, "check", &what, id, format!("honest proof not accepted: {}", d.short()));
    }
    rec.sample(&format!("{}-single", sch), format!("{} -> {}", id, d.short()));
}

pub fn slice_a_run<S: Sch>(rec: &mut Rec, dmax: usize) {
    let cfgs = slice_a::<S>(dmax);
    rec.scope(format!("{}: slice A, Dmax={}, {} key configurations", S::NAME, dmax, cfgs.len()));
    for cfg in cfgs {
        // cheap pre-pass so that keys are only built by the workers that need them
        let shapes = S::shapes(&cfg, rec.seed);
        let pts: Vec<_> = S::points(&cfg, rec.seed).into_iter().take(3).collect();
        let mut todo = Vec::new();
        for (sname, p) in shapes.iter() {
            let deg = S::degree(p);
            for (b, h) in lp_options::<S>(&cfg, deg, true) {
                for (zn, z) in pts.iter() {
                    let id = format!("{}/A/{}/{}/b={:?}/h={:?}/z={}", S::NAME, cfg.id(), sname, b, h, zn);
                    if rec.take(&id) {
                        todo.push((id, sname.clone(), p.clone(), b, h, z.clone()));
                    }
                }
            }
        }
        if todo.is_empty() {
            continue;
        }
        let keys = match build_keys::<S>(&cfg, rec.seed) {
            Ok(k) => k,
            Err(o) => {
                let first = todo[0].0.clone();
                fail(rec, S::NAME, "trim", "valid-config", &first, format!("setup/trim of a valid configuration failed: {}", o.short()));
                continue;
            }
        };
        rec.op(2);
        for (id, sname, p, b, h, z) in todo {
            rec.dim("scheme", S::NAME);
            rec.dim("shape", sname.split('(').next().unwrap());
            rec.dim("bound", if b.is_some() { "some" } else { "none" });
            rec.dim("hiding", &format!("{:?}", h.map(|x| x.min(3))));
            single_point::<S>(rec, &keys, &id, lp::<S>("p", p, b, h), &sname, &z, 0);
        }
    }
}

/// The three polynomials of slice B for a scheme.
pub fn slice_b_polys<S: Sch>(cfg: &KeyCfg, seed: u64) -> Vec<LP<S>> {
    let shapes = S::shapes(cfg, seed);
    let find = |n: &str| shapes.iter().find(|(m, _)| m == n).map(|(_, p)| p.clone());
    let dense = shapes.iter().rev().find(|(m, _)| m.starts_with("dense")).unwrap().1.clone();
    let zero = find("zero").unwrap();
    let bound = if S::BOUNDS {
        if S::NAME == "IPA" {
            Some(3)
        } else {
            cfg.bounds.as_ref().map(|b| b[0])
        }
    } else {
        None
    };
    let second = match S::FAM {
        Fam::Uni => find("dense(2)").or(find("dense(1)")).unwrap(),
        Fam::Ml => find("e1").unwrap_or(dense.clone()),
        Fam::Mv => shapes.iter().find(|(m, _)| m.starts_with("mono[1,1")).map(|(_, p)| p.clone()).unwrap_or(dense.clone()),
    };
    let hid = if S::HIDING { Some(1) } else { None };
    // the second bounded polynomial carries a DIFFERENT served bound: two shifts at one point
    let bound2 = if S::BOUNDS {
        if S::NAME == "IPA" {
            Some(5)
        } else {
            cfg.bounds.as_ref().map(|b| *b.last().unwrap())
        }
    } else {
        None
    };
    vec![
        lp::<S>("p0", dense, None, None),
        lp::<S>("p1", second, bound, hid),
        lp::<S>("p2", zero, bound2, None),
    ]
}

/// Slice D (degree-bound schemes): three non-zero polynomials with pairwise different degree bounds
/// (or none) opened together at one point, in every order of the prover's lists, every hiding
/// pattern, through `open`/`check` and through a one-label batch.
pub fn slice_d_run<S: Sch>(rec: &mut Rec)
where
    S: crate::checks::c04::UniSch,
{
    if !S::BOUNDS {
        return;
    }
    let cfg = if S::NAME == "IPA" { KeyCfg::uni(7, 7, 1, None) } else { KeyCfg::uni(7, 6, 1, Some(vec![2, 4, 6])) };
    let keys = match build_keys::<S>(&cfg, rec.seed) {
        Ok(k) => k,
        Err(_) => return,
    };
    let r = rho_stream::<S::F>(rec.seed, 31, 12);
    let z = S::point(rho::<S::F>(rec.seed, 6));
    let bsets: Vec<[Option<usize>; 3]> = vec![[Some(2), Some(4), Some(6)], [Some(6), Some(2), None], [Some(4), Some(4), Some(2)], [None, Some(6), Some(4)]];
    let perms = permutations(3);
    for (bi, bs) in bsets.iter().enumerate() {
        for hmask in 0..8u32 {
            for (pi, perm) in perms.iter().enumerate() {
                let id = format!("{}/D/{}/bounds={:?}/hiding={:03b}/order={}", S::NAME, cfg.id(), bs, hmask, pi).replace(' ', "");
                if !rec.take(&id) {
                    continue;
                }
                rec.dim("scheme", S::NAME);
                let _ = bi;
                let degs = [2usize, 1, 2];
                let polys: Vec<LP<S>> = (0..3)
                    .map(|i| {
                        let d = degs[i].min(bs[i].unwrap_or(usize::MAX));
                        lp::<S>(&format!("d{}", i), S::poly(&r[4 * i..4 * i + d + 1]), bs[i], if hmask >> i & 1 == 1 { Some(1) } else { None })
                    })
                    .collect();
                let c = match commit_set::<S>(&keys, polys, rec.seed, 0) {
                    Ok(c) => c,
                    Err(o) => {
                        fail(rec, S::NAME, "commit", "several-bounds", &id, format!("in-domain commit failed: {}", o.short()));
                        continue;
                    }
                };
                rec.op(3);
                match open_single::<S>(&keys, &c, perm, &z, 0, rec.seed, 0) {
                    Ok(s1) => {
                        let cr: Vec<&LCm<S>> = perm.iter().map(|i| &c.comms[*i]).collect();
                        let d = check_single::<S>(&keys, &cr, &z, &s1.values, &s1.proof, 0, rec.seed, 0);
                        rec.class(d.class());
                        rec.obs(&format!("{}|D|{}|{}", S::NAME, hmask, d.class()));
                        if !d.accepted() {
                            fail(rec, S::NAME, "check", "several-bounds-at-one-point", &id, format!("honest proof not accepted: {}", d.short()));
                        }
                    }
                    Err(o) => fail(rec, S::NAME, "open", "several-bounds-at-one-point", &id, format!("in-domain open failed: {}", o.short())),
                }
                let mut qs: QuerySet<S::Pt> = QuerySet::new();
                for p in c.polys.iter() {
                    qs.insert((p.label().clone(), ("z".to_string(), z.clone())));
                }
                match open_batch::<S>(&keys, &c, perm, &qs, 0, rec.seed, 0) {
                    Ok(b) => {
                        let cr: Vec<&LCm<S>> = c.comms.iter().collect();
                        let d = check_batch::<S>(&keys, &cr, &b.qs, &b.evals, &b.proof, 0, rec.seed, 0);
                        rec.class(d.class());
                        if !d.accepted() {
                            fail(rec, S::NAME, "batch_check", "several-bounds-at-one-point", &id, format!("honest batch proof not accepted: {}", d.short()));
                        }
                    }
                    Err(o) => fail(rec, S::NAME, "batch_open", "several-bounds-at-one-point", &id, format!("in-domain batch_open failed: {}", o.short())),
                }
            }
        }
    }
}

/// The three point labels of slice B: `a` and `b` share one value.
pub fn slice_b_labels<S: Sch>(cfg: &KeyCfg, seed: u64) -> Vec<(String, S::Pt)> {
    let pts = S::points(cfg, seed);
    let g1 = pts[0].1.clone();
    let g2 = pts.last().unwrap().1.clone();
    vec![("a".into(), g1.clone()), ("b".into(), g1), ("c".into(), g2)]
}

pub fn all_queries<S: Sch>(polys: &[LP<S>], labels: &[(String, S::Pt)]) -> Vec<(String, (String, S::Pt))> {
    let mut v = Vec::new();
    for p in polys {
        for (l, z) in labels {
            v.push((p.label().clone(), (l.clone(), z.clone())));
        }
    }
    v
}

pub fn slice_b_run<S: Sch>(rec: &mut Rec) {
    let cfg = slice_b::<S>();
    // the set-up of the slice is a point of its own, so that a failure is reported once and replays
    let setup_id = format!("{}/B/setup/{}", S::NAME, cfg.id());
    let report = rec.take(&setup_id);
    let keys = match build_keys::<S>(&cfg, rec.seed) {
        Ok(k) => k,
        Err(o) => {
            if report {
                fail(rec, S::NAME, "trim", "slice-B", &setup_id, format!("setup/trim failed: {}", o.short()));
            }
            return;
        }
    };
    let polys = slice_b_polys::<S>(&cfg, rec.seed);
    let labels = slice_b_labels::<S>(&cfg, rec.seed);
    let c = match commit_set::<S>(&keys, polys, rec.seed, 0) {
        Ok(c) => c,
        Err(o) => {
            if report {
                fail(rec, S::NAME, "commit", "slice-B", &setup_id, format!("commit of the slice-B set failed: {}", o.short()));
            }
            return;
        }
    };
    let allq = all_queries::<S>(&c.polys, &labels);
    let nq = allq.len();
    let max_size = if rec.thorough() { nq } else { 4 };
    rec.scope(format!("{}: slice B, key {}, query sets = non-empty subsets of {} (poly,label) pairs up to size {}", S::NAME, cfg.id(), nq, max_size));
    let perms = permutations(3);
    let id_perm: Vec<usize> = vec![0, 1, 2];
    for mask in 1u32..(1 << nq) {
        let size = mask.count_ones() as usize;
        if size > max_size {
            continue;
        }
        let qs: QuerySet<S::Pt> = (0..nq).filter(|i| mask >> i & 1 == 1).map(|i| allq[i].clone()).collect();
        let permute = size <= 2 || rec.thorough() && size <= 3;
        let pp: Vec<(&Vec<usize>, &Vec<usize>)> = if permute {
            perms.iter().flat_map(|a| perms.iter().map(move |b| (a, b))).collect()
        } else {
            vec![(&id_perm, &id_perm)]
        };
        for (pa, pb) in pp {
            let id = format!("{}/B/q={:09b}/prover={:?}/verifier={:?}", S::NAME, mask, pa, pb).replace(' ', "");
            if !rec.take(&id) {
                continue;
            }
            rec.op(2);
            rec.dim("scheme", S::NAME);
            rec.dim("qsize", &size.to_string());
            let what = if pa == &id_perm && pb == &id_perm { "canonical-order" } else { "permuted-order" };
            let b = match open_batch::<S>(&keys, &c, pa, &qs, 0, rec.seed, 0) {
                Ok(b) => b,
                Err(o) => {
                    rec.class("open-failed");
                    fail(rec, S::NAME, "batch_open", what, &id, format!("in-domain batch_open failed: {}", o.short()));
                    continue;
                }
            };
            let comms: Vec<&LCm<S>> = pb.iter().map(|i| &c.comms[*i]).collect();
            let d = check_batch::<S>(&keys, &comms, &b.qs, &b.evals, &b.proof, 0, rec.seed, 0);
            rec.class(d.class());
            rec.obs(&format!("{}|B|{}|{}|{}", S::NAME, size, what, d.class()));
            if !d.accepted() {
                fail(rec, S::NAME, "batch_check", what, &id, format!("honest batch proof not accepted: {}", d.short()));
            }
            if what == "canonical-order" {
                // the verifier holding only the commitments the query set refers to
                let needed: Vec<&LCm<S>> = c.comms.iter().filter(|cm| b.qs.iter().any(|(l, _)| l == cm.label())).collect();
                if needed.len() < c.comms.len() {
                    rec.count_points(1);
                    let d2 = check_batch::<S>(&keys, &needed, &b.qs, &b.evals, &b.proof, 0, rec.seed, 0);
                    rec.class(d2.class());
                    if !d2.accepted() {
                        fail(rec, S::NAME, "batch_check", "only-needed-commitments", &id, format!("honest batch proof not accepted when the verifier is given only the {} commitments queried: {}", needed.len(), d2.short()));
                    }
                }
            }
            rec.sample(&format!("{}-batch", S::NAME), format!("{} -> {}", id, d.short()));
        }
    }
    // single-point openings of 1, 2, 3 polynomials
    for k in 1..=3usize {
        for (ln, z) in labels.iter().skip(1) {
            let id = format!("{}/B/open{}@{}", S::NAME, k, ln);
            if !rec.take(&id) {
                continue;
            }
            rec.op(2);
            let sel: Vec<usize> = (0..k).collect();
            match open_single::<S>(&keys, &c, &sel, z, 0, rec.seed, 0) {
                Ok(s) => {
                    let comms: Vec<&LCm<S>> = sel.iter().map(|i| &c.comms[*i]).collect();
                    let d = check_single::<S>(&keys, &comms, &s.point, &s.values, &s.proof, 0, rec.seed, 0);
                    rec.class(d.class());
                    rec.obs(&format!("{}|open{}|{}", S::NAME, k, d.class()));
                    if !d.accepted() {
                        fail(rec, S::NAME, "check", "multi-poly", &id, format!("honest proof not accepted: {}", d.short()));
                    }
                }
                Err(o) => fail(rec, S::NAME, "open", "multi-poly", &id, format!("open failed: {}", o.short())),
            }
        }
    }
}

pub fn slice_c_run<S: Sch>(rec: &mut Rec) {
    let cfgs = slice_c::<S>(rec.thorough());
    if cfgs.is_empty() {
        return;
    }
    rec.scope(format!("{}: slice C, {} key configurations", S::NAME, cfgs.len()));
    for cfg in cfgs {
        let keys = match build_keys::<S>(&cfg, rec.seed) {
            Ok(k) => k,
            Err(o) => {
                fail(rec, S::NAME, "trim", "slice-C", &cfg.id(), format!("setup/trim failed: {}", o.short()));
                continue;
            }
        };
        let pts: Vec<_> = S::points(&cfg, rec.seed);
        let shapes: Vec<(String, S::P)> = S::shapes_c(&cfg, rec.seed, rec.thorough());
        for (sname, p) in shapes.iter() {
            let deg = S::degree(p);
            for (b, h) in lp_options::<S>(&cfg, deg, false) {
                for (zn, z) in pts.iter().take(if S::FAM == Fam::Uni { 2 } else { 4 }) {
                    let id = format!("{}/C/{}/{}/h={:?}/z={}", S::NAME, cfg.id(), sname, h, zn);
                    if !rec.take(&id) {
                        continue;
                    }
                    rec.dim("scheme", S::NAME);
                    rec.dim("shape", sname.split(|c| c == '(' || c == '[').next().unwrap());
                    single_point::<S>(rec, &keys, &id, lp::<S>("p", p.clone(), b, h), sname, z, 0);
                }
            }
        }
    }
}


/// Slice E: size ladder.  One polynomial, one point, at sizes well above the exhaustive slices: around every
/// power of two up to 128 (256 / 512 in the thorough tier), the key either exactly as large as the polynomial or a
/// little larger, with and without degree bound and hiding.  A handful of shapes per size (full degree, one below,
/// half, low zero, top monomial only, non-normalised).  This is what reaches size thresholds in the code
/// (chunking, windowing, buffer lengths) that the small grids cannot.
pub fn ladder_sizes(thorough: bool) -> Vec<usize> {
    let mut v = vec![15usize, 16, 17, 31, 32, 33, 63, 64, 65, 127, 128, 129];
    if thorough {
        v.extend([255, 256, 257, 511, 512, 513]);
    }
    v
}

pub fn slice_e_run<S: Sch>(rec: &mut Rec) {
    let mut cfgs: Vec<KeyCfg> = Vec::new();
    match S::FAM {
        Fam::Uni => {
            if S::NAME == "LIG" {
                return;
            }
            for s in ladder_sizes(rec.thorough()) {
                if S::NAME == "IPA" {
                    if (s + 1).is_power_of_two() {
                        cfgs.push(KeyCfg::uni(s, s, 1, None));
                        cfgs.push(KeyCfg::uni(2 * s + 1, s, 1, None));
                    }
                } else if S::BOUNDS {
                    cfgs.push(KeyCfg::uni(s, s, 2, Some(vec![s / 2, s])));
                    cfgs.push(KeyCfg::uni(s + 3, s, 2, Some(vec![s, s / 2])));
                } else {
                    cfgs.push(KeyCfg::uni(s, s, 2, None));
                }
            }
        }
        Fam::Ml => {
            if S::NAME == "HYR" {
                for nv in if rec.thorough() { vec![6usize, 8, 10] } else { vec![6usize, 8] } {
                    cfgs.push(KeyCfg::ml(nv));
                }
            } else {
                return;
            }
        }
        Fam::Mv => {
            for (nv, d) in if rec.thorough() { vec![(2usize, 8usize), (3, 5), (4, 4), (5, 3), (6, 2), (2, 12)] } else { vec![(2usize, 8usize), (3, 5), (4, 4), (6, 2)] } {
                cfgs.push(KeyCfg::mv(nv, d, d));
                cfgs.push(KeyCfg::mv(nv, d, d - 1));
            }
        }
    }
    rec.scope(format!("{}: slice E (size ladder), {} key configurations: {}", S::NAME, cfgs.len(), cfgs.iter().map(|c| c.id()).collect::<Vec<_>>().join(" ")));
    for cfg in cfgs {
        let s = cfg.sup;
        let keep: Vec<String> = match S::FAM {
            Fam::Uni => vec![format!("dense({})", s), format!("dense({})", s - 1), format!("dense({})", s / 2), format!("lowzero({})", s), format!("top({})", s), format!("padded({})", s - 1)],
            Fam::Ml => vec!["dense".into(), "e1".into(), "const".into()],
            Fam::Mv => vec!["dense".into()],
        };
        let mut shapes: Vec<(String, S::P)> = S::shapes(&cfg, rec.seed).into_iter().filter(|(n, _)| keep.contains(n)).collect();
        if S::FAM == Fam::Mv {
            // plus the monomials of full total degree (pure and mixed)
            let all = S::shapes(&cfg, rec.seed);
            let full: Vec<(String, S::P)> = all.into_iter().filter(|(n, p)| n.starts_with("mono") && S::degree(p) == s).collect();
            let k = full.len();
            for (i, x) in full.into_iter().enumerate() {
                if i == 0 || i == k - 1 || i == k / 2 || i == k / 3 {
                    shapes.push(x);
                }
            }
        }
        let pts: Vec<_> = S::points(&cfg, rec.seed);
        let mut todo = Vec::new();
        for (sname, p) in shapes.iter() {
            let deg = S::degree(p);
            for (b, h) in lp_options::<S>(&cfg, deg, false) {
                if S::NAME == "IPA" {
                    // IPA serves every bound: keep the extremes and one interior value
                    if let Some(d) = b {
                        if d != deg && d != s && d != (deg + s) / 2 {
                            continue;
                        }
                    }
                }
                for (zn, z) in pts.iter().take(2) {
                    let id = format!("{}/E/{}/{}/b={:?}/h={:?}/z={}", S::NAME, cfg.id(), sname, b, h, zn);
                    if rec.take(&id) {
                        todo.push((id, sname.clone(), p.clone(), b, h, z.clone()));
                    }
                }
            }
        }
        if todo.is_empty() {
            continue;
        }
        let keys = match build_keys::<S>(&cfg, rec.seed) {
            Ok(k) => k,
            Err(o) => {
                let first = todo[0].0.clone();
                fail(rec, S::NAME, "trim", "valid-config", &first, format!("setup/trim of a valid configuration failed: {}", o.short()));
                continue;
            }
        };
        rec.op(2);
        for (id, sname, p, b, h, z) in todo {
            rec.dim("scheme", S::NAME);
            rec.dim("slice", "E");
            single_point::<S>(rec, &keys, &id, lp::<S>("p", p, b, h), &sname, &z, 0);
        }
    }
}


/// Slice F: interleaved key universes.  Three key sets per scheme (the slice-B key, the same configuration from
/// another setup seed, and a different configuration) are used in one process in EVERY order of up to three flows
/// (keys built inside the flow: setup, trim, commit, single opening of all three polynomials, a batch with three
/// labels, both checks).  Every flow must accept and must produce bit-identical keys, commitments and proofs
/// wherever it stands in the sequence: the library has no state that outlives a call, so a flow's result may not
/// depend on what ran before it (a cache keyed too coarsely, a lazily built global).
pub fn slice_f_universes<S: Sch>() -> Vec<KeyCfg> {
    let a = slice_b::<S>();
    let mut b = a.clone();
    b.srng = 1;
    let c = match S::FAM {
        Fam::Uni => {
            if S::NAME == "IPA" {
                KeyCfg::uni(15, 15, 1, None)
            } else if S::BOUNDS {
                KeyCfg::uni(7, 4, 1, Some(vec![2, 4]))
            } else {
                let mut c = KeyCfg::uni(8, 8, 1, None);
                c.lc = Some((128, 4, false));
                c
            }
        }
        Fam::Ml => {
            if S::NAME == "HYR" {
                KeyCfg::ml(2)
            } else if S::NAME == "BRK" {
                KeyCfg::ml(5)
            } else {
                let mut c = KeyCfg::ml(3);
                c.lc = Some((128, 4, false));
                c
            }
        }
        Fam::Mv => KeyCfg::mv(3, 2, 2),
    };
    vec![a, b, c]
}

fn slice_f_flow<S: Sch>(rec: &mut Rec, cfg: &KeyCfg) -> Result<String, String> {
    use sha2::{Digest, Sha256};
    rec.op(6);
    let keys = build_keys::<S>(cfg, rec.seed).map_err(|o| format!("setup/trim failed: {}", o.short()))?;
    let polys = slice_b_polys::<S>(cfg, rec.seed);
    let labels = slice_b_labels::<S>(cfg, rec.seed);
    let c = commit_set::<S>(&keys, polys, rec.seed, 0).map_err(|o| format!("commit failed: {}", o.short()))?;
    let mut h = Sha256::new();
    h.update(ser(&keys.ck));
    h.update(ser(&keys.vk));
    for cm in c.comms.iter() {
        h.update(ser(cm.commitment()));
    }
    let s1 = open_single::<S>(&keys, &c, &[0, 1, 2], &labels[2].1, 0, rec.seed, 0).map_err(|o| format!("open failed: {}", o.short()))?;
    let as_batch: BPf<S> = vec![s1.proof.clone()].into();
    h.update(ser(&as_batch));
    let cr: Vec<&LCm<S>> = c.comms.iter().collect();
    let d = check_single::<S>(&keys, &cr, &s1.point, &s1.values, &s1.proof, 0, rec.seed, 0);
    if !d.accepted() {
        return Err(format!("honest single opening not accepted: {}", d.short()));
    }
    let qs: QuerySet<S::Pt> = vec![
        (c.polys[0].label().clone(), (labels[0].0.clone(), labels[0].1.clone())),
        (c.polys[1].label().clone(), (labels[1].0.clone(), labels[1].1.clone())),
        (c.polys[2].label().clone(), (labels[2].0.clone(), labels[2].1.clone())),
        (c.polys[0].label().clone(), (labels[2].0.clone(), labels[2].1.clone())),
    ]
    .into_iter()
    .collect();
    let b = open_batch::<S>(&keys, &c, &[0, 1, 2], &qs, 0, rec.seed, 0).map_err(|o| format!("batch_open failed: {}", o.short()))?;
    h.update(ser(&b.proof));
    let d = check_batch::<S>(&keys, &cr, &b.qs, &b.evals, &b.proof, 0, rec.seed, 0);
    if !d.accepted() {
        return Err(format!("honest batch not accepted: {}", d.short()));
    }
    Ok(hex(&h.finalize()[..8]))
}

pub fn slice_f_run<S: Sch>(rec: &mut Rec) {
    let us = slice_f_universes::<S>();
    rec.scope(format!("{}: slice F, every sequence of 1..3 flows over the key universes {}", S::NAME, us.iter().map(|c| format!("[{}]", c.id())).collect::<Vec<_>>().join(" ")));
    let mut base: Vec<Option<String>> = vec![None, None, None];
    let n = us.len();
    for len in 1..=3usize {
        for code in 0..n.pow(len as u32) {
            let seq: Vec<usize> = (0..len).map(|i| code / n.pow(i as u32) % n).collect();
            let id = format!("{}/F/{}", S::NAME, seq.iter().map(|i| format!("U{}", i)).collect::<Vec<_>>().join(">"));
            if !rec.take(&id) {
                continue;
            }
            rec.dim("scheme", S::NAME);
            rec.dim("slice", "F");
            for (pos, u) in seq.iter().enumerate() {
                if base[*u].is_none() {
                    // reference digest of this universe: the flow run on its own
                    match slice_f_flow::<S>(rec, &us[*u]) {
                        Ok(dg) => base[*u] = Some(dg),
                        Err(e) => {
                            fail(rec, S::NAME, "flow", "interleaved-keys/flow-fails", &id, format!("flow on universe U{} [{}] failed: {}", u, us[*u].id(), e));
                            base[*u] = Some("failed".into());
                        }
                    }
                }
                match slice_f_flow::<S>(rec, &us[*u]) {
                    Ok(dg) => {
                        let same = Some(&dg) == base[*u].as_ref();
                        rec.class(if same { "flow-reproduced" } else { "flow-differs" });
                        rec.obs(&format!("{}|F|{}|{}", S::NAME, u, same));
                        if !same {
                            fail(rec, S::NAME, "flow", "interleaved-keys/outputs-depend-on-history", &id, format!("flow on U{} at position {} of {:?} produced digest {} but {} before", u, pos, seq, dg, base[*u].clone().unwrap()));
                        }
                    }
                    Err(e) => {
                        rec.class("flow-failed");
                        fail(rec, S::NAME, "flow", "interleaved-keys/flow-fails", &id, format!("flow on universe U{} [{}] at position {} of {:?} failed: {}", u, us[*u].id(), pos, seq, e));
                    }
                }
            }
        }
    }
}


/// Slice G: twelve polynomials labelled w0..w11 (so that lexicographic label order, w0 w1 w10 w11 w2 ..., differs from
/// numeric / listing order) opened together at one point label, by `open`/`check` on the full list and by a batch
/// whose second label takes every other polynomial; prover lists in listing order and reversed.
pub fn slice_g_run<S: Sch>(rec: &mut Rec) {
    // group sizes on both sides of 16 and 32 (accumulation code may switch paths from some group size on)
    for n in [12usize, 20, 33] {
        slice_g_size::<S>(rec, n);
    }
}

fn slice_g_size<S: Sch>(rec: &mut Rec, n: usize) {
    let cfg = slice_b::<S>();
    let ids: Vec<String> = ["listing", "reversed"].iter().map(|o| format!("{}/G/{}-labels/{}", S::NAME, n, o)).collect();
    let mine: Vec<bool> = ids.iter().map(|id| rec.take(id)).collect();
    if !mine.iter().any(|m| *m) {
        return;
    }
    let keys = match build_keys::<S>(&cfg, rec.seed) {
        Ok(k) => k,
        Err(_) => return,
    };
    let shapes = crate::source::shapes_short::<S>(&cfg, rec.seed);
    let base = slice_b_polys::<S>(&cfg, rec.seed);
    let mut polys: Vec<LP<S>> = Vec::new();
    for k in 0..n {
        // members alternate between the three slice-B polynomials (plain, bounded + hiding, zero with a bound) and the short shapes
        let src = if k % 4 == 3 { lp::<S>("x", shapes[k % shapes.len()].1.clone(), None, None) } else { base[k % 3].clone() };
        polys.push(lp::<S>(&format!("w{}", k), src.polynomial().clone(), src.degree_bound(), src.hiding_bound()));
    }
    let labels = slice_b_labels::<S>(&cfg, rec.seed);
    let c = match commit_set::<S>(&keys, polys, rec.seed, 0) {
        Ok(c) => c,
        Err(o) => {
            fail(rec, S::NAME, "commit", "many-labels", &ids[0], format!("commit failed: {}", o.short()));
            return;
        }
    };
    for (oi, id) in ids.iter().enumerate() {
        if !mine[oi] {
            continue;
        }
        rec.dim("scheme", S::NAME);
        rec.dim("slice", "G");
        rec.op(4);
        let order: Vec<usize> = if oi == 0 { (0..n).collect() } else { (0..n).rev().collect() };
        match open_single::<S>(&keys, &c, &order, &labels[2].1, 0, rec.seed, 0) {
            Ok(s1) => {
                let comms: Vec<&LCm<S>> = order.iter().map(|i| &c.comms[*i]).collect();
                let d = check_single::<S>(&keys, &comms, &s1.point, &s1.values, &s1.proof, 0, rec.seed, 0);
                rec.class(d.class());
                if !d.accepted() {
                    fail(rec, S::NAME, "check", "many-labels", id, format!("honest opening of many polynomials at one point not accepted: {}", d.short()));
                }
            }
            Err(o) => fail(rec, S::NAME, "open", "many-labels", id, format!("open failed: {}", o.short())),
        }
        let mut qs = QuerySet::<S::Pt>::new();
        for k in 0..n {
            qs.insert((format!("w{}", k), (labels[0].0.clone(), labels[0].1.clone())));
            if k % 2 == 1 {
                qs.insert((format!("w{}", k), (labels[2].0.clone(), labels[2].1.clone())));
            }
        }
        match open_batch::<S>(&keys, &c, &order, &qs, 0, rec.seed, 0) {
            Ok(b) => {
                let comms: Vec<&LCm<S>> = c.comms.iter().collect();
                let d = check_batch::<S>(&keys, &comms, &b.qs, &b.evals, &b.proof, 0, rec.seed, 0);
                rec.class(d.class());
                if !d.accepted() {
                    fail(rec, S::NAME, "batch_check", "many-labels", id, format!("honest batch over many labelled polynomials not accepted: {}", d.short()));
                }
                // and one false claim in the lexicographically LAST group member is still caught
                let mut bad = b.evals.clone();
                if let Some(v) = bad.get_mut(&("w9".to_string(), labels[0].1.clone())) {
                    *v += <S::F as ark_ff::One>::one();
                    let d2 = check_batch::<S>(&keys, &comms, &b.qs, &bad, &b.proof, 0, rec.seed, 0);
                    if d2.accepted() {
                        fail(rec, S::NAME, "batch_check", "many-labels-false-claim-accepted", id, "value of w9 + 1 accepted".into());
                    }
                }
            }
            Err(o) => fail(rec, S::NAME, "batch_open", "many-labels", id, format!("batch_open failed: {}", o.short())),
        }
    }
}


/// One slice-F flow by scheme name and universe index (for the fresh-process oracle of slice H).
pub fn flow_digest_by_name(rec: &mut Rec, scheme: &str, u: usize) -> Option<Result<String, String>> {
    let mut out = None;
    crate::for_each_scheme!(S, {
        if S::NAME == scheme {
            let us = slice_f_universes::<S>();
            if u < us.len() {
                out = Some(slice_f_flow::<S>(rec, &us[u]));
            }
        }
    });
    // the same two schemes over a second curve (generic code instantiated twice in one process)
    if scheme == "MAR377" {
        let us = slice_f_universes::<SMar377>();
        if u < us.len() {
            out = Some(slice_f_flow::<SMar377>(rec, &us[u]));
        }
    }
    if scheme == "SON377" {
        let us = slice_f_universes::<SSon377>();
        if u < us.len() {
            out = Some(slice_f_flow::<SSon377>(rec, &us[u]));
        }
    }
    out
}

/// `pcmc f-digest <scheme> <universe>`: the digest of one flow computed in a process that has done nothing else.
pub fn print_flow_digest(seed: u64, scheme: &str, u: usize) {
    let mut rec = Rec::new("C01", "quick", seed, (0, 1));
    match flow_digest_by_name(&mut rec, scheme, u) {
        Some(Ok(d)) => println!("F-DIGEST\t{}\t{}\t{}", scheme, u, d),
        Some(Err(e)) => println!("F-DIGEST\t{}\t{}\tfailed: {}", scheme, u, e),
        None => println!("F-DIGEST\t{}\t{}\tunknown", scheme, u),
    }
}

/// Slice H: process state ACROSS schemes.  For every ordered pair (X, Y) of the eight trait schemes: the flow of X (universe
/// 0) and then the flow of Y (universe 0, and universe 2 = another configuration) in this process; Y's outputs must be
/// bit-identical to the outputs of the same flow computed by a FRESH process that has never run anything else
/// (`pcmc f-digest`, spawned once per flow and worker).  A lazily initialised static or thread-local shared by two
/// schemes (a scratch buffer, a cached generator or domain) shows up here whatever the order in which the checks of one
/// worker happen to run; slice F (same scheme, same process) cannot see it because its baseline is computed in the
/// already polluted process.
pub fn slice_h_run(rec: &mut Rec) {
    use std::collections::BTreeMap;
    let names = ["MAR", "SON", "IPA", "PST", "HYR", "LIG", "MLL", "BRK", "MAR377", "SON377"];
    let exe = match std::env::current_exe() {
        Ok(e) => e,
        Err(_) => return,
    };
    rec.scope(format!("slice H: every ordered pair of the {} trait-scheme instantiations (Marlin and Sonic also over BLS12-377), flow of the first then flows (universes 0 and 2) of the second, compared with fresh-process digests", names.len()));
    let mut fresh: BTreeMap<(String, usize), Option<String>> = BTreeMap::new();
    for x in names.iter() {
        for y in names.iter() {
            if x == y {
                continue;
            }
            let id = format!("H/{}-then-{}", x, y);
            if !rec.take(&id) {
                continue;
            }
            rec.dim("slice", "H");
            rec.dim("scheme", y);
            let _ = flow_digest_by_name(rec, x, 0);
            for u in [0usize, 2] {
                let key = (y.to_string(), u);
                if !fresh.contains_key(&key) {
                    let o = std::process::Command::new(&exe).args(["f-digest", "C01", y, &u.to_string(), "--seed", &rec.seed.to_string()]).env("RAYON_NUM_THREADS", "1").output();
                    let d = o.ok().and_then(|o| {
                        String::from_utf8_lossy(&o.stdout).lines().find(|l| l.starts_with("F-DIGEST")).map(|l| l.split('\t').nth(3).unwrap_or("").to_string())
                    });
                    fresh.insert(key.clone(), d);
                }
                let want = match &fresh[&key] {
                    Some(w) if !w.is_empty() && w != "unknown" => w.clone(),
                    _ => {
                        rec.note(format!("MACHINERY: no fresh-process digest for {} universe {}", y, u));
                        rec.class("fresh-digest-unavailable");
                        continue;
                    }
                };
                match flow_digest_by_name(rec, y, u) {
                    Some(Ok(d)) => {
                        let same = d == want;
                        rec.class(if same { "matches-fresh-process" } else { "differs-from-fresh-process" });
                        if !same {
                            fail(rec, y, "flow", "after-another-scheme/outputs-differ-from-fresh-process", &id, format!("flow of {} (universe {}) after a flow of {} in the same process gives digest {}, a fresh process gives {}", y, u, x, d, want));
                        }
                    }
                    Some(Err(e)) => {
                        rec.class("flow-failed");
                        if !want.starts_with("failed") {
                            fail(rec, y, "flow", "after-another-scheme/flow-fails", &id, format!("flow of {} (universe {}) after a flow of {} fails: {} (a fresh process succeeds)", y, u, x, e));
                        }
                    }
                    None => {}
                }
            }
        }
    }
}

/// Univariate Ligero: polynomials of different sizes (different column counts; equal column counts
/// with different row counts) opened by ONE open / check call and by a one-label batch, every ordered pair.
pub fn lig_one_call(rec: &mut Rec) {
    use ark_poly::DenseUVPolynomial;
    type S = SLig;
    let cfg = KeyCfg::uni(1 << 20, 1 << 20, 1, None);
    let degs = [3usize, 40, 199, 250, 399, 500, 1000];
    let keys = match build_keys::<S>(&cfg, rec.seed) {
        Ok(k) => k,
        Err(_) => return,
    };
    let r = rho_stream::<Fr381>(rec.seed, 9, 1001);
    let pts = <S as Sch>::points(&cfg, rec.seed);
    for i in 0..degs.len() {
        for j in 0..degs.len() {
            for (zn, z) in pts.iter().take(2) {
                let id = format!("LIG/one-call/degrees=[{},{}]/z={}", degs[i], degs[j], zn);
                if !rec.take(&id) {
                    continue;
                }
                rec.dim("scheme", "LIG");
                rec.op(3);
                let polys: Vec<LP<S>> = [degs[i], degs[j]].iter().enumerate().map(|(n, d)| lp::<S>(&format!("m{}", n), UP::<Fr381>::from_coefficients_slice(&r[..=*d]), None, None)).collect();
                let c = match commit_set::<S>(&keys, polys, rec.seed, 0) {
                    Ok(c) => c,
                    Err(o) => {
                        fail(rec, "LIG", "commit", "several-sizes", &id, format!("in-domain commit failed: {}", o.short()));
                        continue;
                    }
                };
                match open_single::<S>(&keys, &c, &[0, 1], z, 0, rec.seed, 0) {
                    Ok(s1) => {
                        let cr: Vec<&LCm<S>> = c.comms.iter().collect();
                        let d = check_single::<S>(&keys, &cr, z, &s1.values, &s1.proof, 0, rec.seed, 0);
                        rec.class(d.class());
                        if !d.accepted() {
                            fail(rec, "LIG", "check", "several-sizes-in-one-call", &id, format!("honest proof not accepted: {}", d.short()));
                        }
                    }
                    Err(o) => fail(rec, "LIG", "open", "several-sizes-in-one-call", &id, format!("in-domain open failed: {}", o.short())),
                }
            }
        }
    }
}

pub fn run(rec: &mut Rec) {
    let dmax = if rec.thorough() { 6 } else { 3 };
    crate::for_each_scheme!(S, {
        slice_a_run::<S>(rec, if S::NAME == "IPA" { if rec.thorough() { 15 } else { 7 } } else { dmax });
        slice_b_run::<S>(rec);
        slice_c_run::<S>(rec);
        slice_e_run::<S>(rec);
        slice_f_run::<S>(rec);
        slice_g_run::<S>(rec);
    });
    if rec.thorough() {
        slice_a_run::<SMar377>(rec, 3);
        slice_a_run::<SSon377>(rec, 3);
    }
    slice_d_run::<SMar>(rec);
    slice_d_run::<SSon>(rec);
    slice_d_run::<SIpa>(rec);
    lig_one_call(rec);
    crate::special::c01_special(rec);
    crate::special::c01_special_ladder(rec);
    crate::special::c01_special_stream(rec);
    crate::special::c01_special_universes(rec);
    // points on and near the Boolean hypercube
    crate::special::hypercube::<SPst>(rec, "C01", &[2, 3]);
    crate::special::hypercube::<SHyr>(rec, "C01", &[2, 4]);
    crate::special::hypercube::<SMll>(rec, "C01", &[2, 3, 4]);
    crate::special::hypercube::<SBrk>(rec, "C01", &[2, 3, 4]);
    slice_h_run(rec);
}
