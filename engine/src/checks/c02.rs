//! C02 — evaluation binding with an honest proof: any change of the statement (value, point,
//! commitment) must lead to non-acceptance (E3 over C01 transcripts).
use crate::alpha::*;
use crate::rec::Rec;
use crate::sch::*;
use crate::schemes::*;
use crate::source::*;
use crate::tr::*;
use crate::util::*;
use ark_ff::{One, Zero};
use ark_poly::Polynomial;
use ark_poly_commit::{Evaluations, LinearCombination, QuerySet};
use ark_std::rand::RngCore;

fn expect_reject(rec: &mut Rec, d: &Dec, sch: &str, entry: &str, op: &str, id: &str, detail: &str) {
    rec.count_points(1);
    rec.op(1);
    rec.class(&format!("fault-{}", d.class()));
    rec.obs(&format!("{}|{}|{}|{}", sch, entry, op, d.class()));
    if d.accepted() {
        rec.violation(&format!("C02/{}/{}/{}", sch, entry, op), id, format!("false statement accepted: {}", detail));
    }
}

pub fn deltas<F: ark_ff::PrimeField>(seed: u64) -> Vec<(&'static str, F)> {
    vec![("+1", F::one()), ("-1", -F::one()), ("+r1", rho::<F>(seed, 1))]
}

pub fn single<S: Sch>(rec: &mut Rec, w: Width) {
    for_single::<S>(rec, w, |rec, t| {
        let sch = S::NAME;
        let comms = t.comms();
        let polys = t.polys();
        let honest = check_single::<S>(t.keys, &comms, &t.s.point, &t.s.values, &t.s.proof, 0, rec.seed, 0);
        rec.dim("scheme", sch);
        if !honest.accepted() {
            rec.class("source-not-accepted");
            return;
        }
        rec.class("source-accepted");
        rec.sample(&format!("{}-single", sch), format!("{}: value/point/commitment faults", t.id));
        // (1) value + delta at every position
        for i in 0..t.s.values.len() {
            for (dn, d) in deltas::<S::F>(rec.seed) {
                let mut v = t.s.values.clone();
                v[i] += d;
                let dec = check_single::<S>(t.keys, &comms, &t.s.point, &v, &t.s.proof, 0, rec.seed, 0);
                expect_reject(rec, &dec, sch, "check", "value+delta", &t.id, &format!("value[{}]{} -> {}", i, dn, dec.short()));
            }
        }
        // (2) the point replaced
        for (zn, z2) in S::other_points(&t.keys.cfg, rec.seed, &t.s.point) {
            let still_true = polys.iter().zip(t.s.values.iter()).all(|(p, v)| p.polynomial().evaluate(&z2) == *v);
            if still_true {
                rec.class("still-true");
                continue;
            }
            let dec = check_single::<S>(t.keys, &comms, &z2, &t.s.values, &t.s.proof, 0, rec.seed, 0);
            expect_reject(rec, &dec, sch, "check", "point", &t.id, &format!("point -> {} : {}", zn, dec.short()));
        }
        // (3) commitment replaced by the commitment to another polynomial of the set
        for i in 0..t.sel.len() {
            for j in 0..t.c.polys.len() {
                if j == t.sel[i] {
                    continue;
                }
                let q = &t.c.polys[j];
                if q.polynomial().evaluate(&t.s.point) == t.s.values[i] {
                    rec.class("still-true");
                    continue;
                }
                let repl = relabel::<S>(&t.c.comms[j], comms[i].label(), t.c.comms[j].degree_bound());
                let mut cs = comms.clone();
                cs[i] = &repl;
                let dec = check_single::<S>(t.keys, &cs, &t.s.point, &t.s.values, &t.s.proof, 0, rec.seed, 0);
                expect_reject(rec, &dec, sch, "check", "commitment", &t.id, &format!("commitment[{}] := commitment of {} : {}", i, q.label(), dec.short()));
            }
            // fresh commitment to p + 1 under the same options
            let p = polys[i];
            let p1 = lp::<S>(p.label(), S::plus_one(p.polynomial()), p.degree_bound(), p.hiding_bound());
            let mut rng = seed_rng(rec.seed, 2);
            if let Ok((c1, _)) = do_commit::<S>(&t.keys.ck, &[p1], Some(&mut rng as &mut dyn RngCore)) {
                let mut cs = comms.clone();
                cs[i] = &c1[0];
                let dec = check_single::<S>(t.keys, &cs, &t.s.point, &t.s.values, &t.s.proof, 0, rec.seed, 0);
                expect_reject(rec, &dec, sch, "check", "commitment", &t.id, &format!("commitment[{}] := commit(p+1) : {}", i, dec.short()));
            }
        }
    });
}

pub fn batch<S: Sch>(rec: &mut Rec, max_size: usize) {
    for_batch::<S>(rec, max_size, None, |rec, t| {
        let sch = S::NAME;
        let comms: Vec<&LCm<S>> = t.c.comms.iter().collect();
        let honest = check_batch::<S>(t.keys, &comms, &t.b.qs, &t.b.evals, &t.b.proof, 0, rec.seed, 0);
        rec.dim("scheme", sch);
        if !honest.accepted() {
            rec.class("source-not-accepted");
            return;
        }
        rec.class("source-accepted");
        rec.sample(&format!("{}-batch", sch), format!("{}: value/point/commitment faults at every position", t.id));
        // (1) value + delta at every position of the batch
        let keys_e: Vec<_> = t.b.evals.keys().cloned().collect();
        for (pos, k) in keys_e.iter().enumerate() {
            for (dn, d) in deltas::<S::F>(rec.seed) {
                let mut ev = t.b.evals.clone();
                *ev.get_mut(k).unwrap() += d;
                let dec = check_batch::<S>(t.keys, &comms, &t.b.qs, &ev, &t.b.proof, 0, rec.seed, 0);
                expect_reject(rec, &dec, sch, "batch_check", "value+delta", &t.id, &format!("eval[{}:{}]{} -> {}", pos, k.0, dn, dec.short()));
            }
        }
        // (2) the point behind one point label replaced (claims keep their values)
        let labels: Vec<String> = {
            let mut l: Vec<String> = t.b.qs.iter().map(|(_, (pl, _))| pl.clone()).collect();
            l.sort();
            l.dedup();
            l
        };
        for pl in labels.iter() {
            let old = t.b.qs.iter().find(|(_, (l, _))| l == pl).unwrap().1 .1.clone();
            for (zn, z2) in S::other_points(&t.keys.cfg, rec.seed, &old).into_iter().take(2) {
                let mut qs = QuerySet::<S::Pt>::new();
                let mut ev: Evaluations<S::Pt, S::F> = Evaluations::new();
                let mut false_claim = false;
                let mut clash = false;
                for (label, (l, z)) in t.b.qs.iter() {
                    let v = *t.b.evals.get(&(label.clone(), z.clone())).unwrap();
                    let znew = if l == pl { z2.clone() } else { z.clone() };
                    qs.insert((label.clone(), (l.clone(), znew.clone())));
                    if let Some(prev) = ev.get(&(label.clone(), znew.clone())) {
                        if *prev != v {
                            clash = true;
                        }
                    }
                    ev.insert((label.clone(), znew.clone()), v);
                    if t.c.polys[t.c.idx(label)].polynomial().evaluate(&znew) != v {
                        false_claim = true;
                    }
                }
                if clash || !false_claim {
                    rec.class("still-true");
                    continue;
                }
                let dec = check_batch::<S>(t.keys, &comms, &qs, &ev, &t.b.proof, 0, rec.seed, 0);
                expect_reject(rec, &dec, sch, "batch_check", "point", &t.id, &format!("point label {} -> {} : {}", pl, zn, dec.short()));
            }
        }
        // (3) one commitment replaced by another polynomial's commitment
        let queried: Vec<String> = {
            let mut l: Vec<String> = t.b.qs.iter().map(|(l, _)| l.clone()).collect();
            l.sort();
            l.dedup();
            l
        };
        for label in queried.iter() {
            let i = t.c.idx(label);
            for j in 0..t.c.polys.len() {
                if j == i {
                    continue;
                }
                let q = &t.c.polys[j];
                let all_true = t.b.qs.iter().filter(|(l, _)| l == label).all(|(l, (_, z))| q.polynomial().evaluate(z) == *t.b.evals.get(&(l.clone(), z.clone())).unwrap());
                if all_true {
                    rec.class("still-true");
                    continue;
                }
                let repl = relabel::<S>(&t.c.comms[j], label, t.c.comms[j].degree_bound());
                let mut cs = comms.clone();
                cs[i] = &repl;
                let dec = check_batch::<S>(t.keys, &cs, &t.b.qs, &t.b.evals, &t.b.proof, 0, rec.seed, 0);
                expect_reject(rec, &dec, sch, "batch_check", "commitment", &t.id, &format!("commitment {} := commitment of {} : {}", label, q.label(), dec.short()));
            }
        }
        // (4) the same claims through check_combinations with trivial combinations
        let lcs: Vec<LinearCombination<S::F>> = queried.iter().map(|l| LinearCombination::new(l.clone(), vec![(S::F::one(), l.clone())])).collect();
        let (polys, cms, sts) = t.c.refs();
        let mut sponge = sponge_pre::<S::F>(0);
        let mut rng = seed_rng(rec.seed, 20);
        if let Ok(lcp) = do_open_comb::<S>(&t.keys.ck, &lcs, &polys, &cms, &t.b.qs, &mut sponge, &sts, Some(&mut rng as &mut dyn RngCore)) {
            rec.op(1);
            let run = |ev: &Evaluations<S::Pt, S::F>, seed: u64| {
                let mut sponge = sponge_pre::<S::F>(0);
                let mut rng = seed_rng(seed, 40);
                do_check_comb::<S>(&t.keys.vk, &lcs, &cms, &t.b.qs, ev, &lcp, &mut sponge, &mut rng)
            };
            let honest = run(&t.b.evals, rec.seed);
            if honest.accepted() {
                for (pos, k) in keys_e.iter().enumerate() {
                    for (dn, d) in deltas::<S::F>(rec.seed).into_iter().take(2) {
                        let mut ev = t.b.evals.clone();
                        *ev.get_mut(k).unwrap() += d;
                        let dec = run(&ev, rec.seed);
                        expect_reject(rec, &dec, sch, "check_combinations", "value+delta", &t.id, &format!("eval[{}:{}]{} -> {}", pos, k.0, dn, dec.short()));
                    }
                }
            } else {
                rec.class("source-comb-not-accepted");
            }
        }
    });
}


/// Batches with SIX point labels verified inside private rayon pools of 2, 3 and 4 threads (the library's own
/// `current_num_threads()` then reports that size): the honest batch accepted, every single claim falsified in
/// turn not accepted.  The other slices run single-threaded; a verifier that splits its work by thread count is
/// only visible here.
pub fn batch_pools<S: Sch>(rec: &mut Rec)
where
    Keys<S>: Sync,
    LCm<S>: Sync,
    BPf<S>: Sync,
{
    let cfg = crate::scope::slice_b::<S>();
    let keys = match build_keys::<S>(&cfg, rec.seed) {
        Ok(k) => k,
        Err(_) => return,
    };
    let polys: Vec<LP<S>> = crate::checks::c01::slice_b_polys::<S>(&cfg, rec.seed).into_iter().take(2).collect();
    let c = match commit_set::<S>(&keys, polys, rec.seed, 0) {
        Ok(c) => c,
        Err(_) => return,
    };
    let pts = S::points(&cfg, rec.seed);
    let mut qs = QuerySet::<S::Pt>::new();
    for j in 0..6usize {
        let z = pts[j % pts.len()].1.clone();
        qs.insert(("p0".to_string(), (format!("l{}", j), z.clone())));
        if j % 3 == 0 {
            qs.insert(("p1".to_string(), (format!("l{}", j), z)));
        }
    }
    let b = match open_batch::<S>(&keys, &c, &[0, 1], &qs, 0, rec.seed, 0) {
        Ok(b) => b,
        Err(_) => return,
    };
    for threads in [2usize, 3, 4] {
        let id = format!("{}/pools/threads={}/six-labels", S::NAME, threads);
        if !rec.take(&id) {
            continue;
        }
        rec.dim("scheme", S::NAME);
        let comms: Vec<&LCm<S>> = c.comms.iter().collect();
        let seed = rec.seed;
        let ks: Vec<_> = b.evals.keys().cloned().collect();
        let (kr, br, cr) = (&keys, &b, &comms);
        let (honest, faults): (Dec, Vec<Dec>) = with_threads(threads, || {
            let honest = check_batch::<S>(kr, cr, &br.qs, &br.evals, &br.proof, 0, seed, 0);
            let mut out = Vec::new();
            for k in ks.iter() {
                let mut ev = br.evals.clone();
                *ev.get_mut(k).unwrap() += S::F::one();
                out.push(check_batch::<S>(kr, cr, &br.qs, &ev, &br.proof, 0, seed, 0));
            }
            (honest, out)
        });
        rec.op(1 + faults.len() as u64);
        if !honest.accepted() {
            rec.class("source-not-accepted");
            rec.violation(&format!("C02/{}/batch_check/in-pool/honest-rejected", S::NAME), &id, format!("honest six-label batch not accepted inside a pool of {} threads: {}", threads, honest.short()));
            continue;
        }
        rec.class("source-accepted");
        for (pos, d) in faults.iter().enumerate() {
            expect_reject(rec, d, S::NAME, "batch_check/in-pool", "value+delta", &id, &format!("eval[{}:{}@{:?}]+1 inside a pool of {} threads -> {}", pos, ks[pos].0, pos, threads, d.short()));
        }
    }
}

pub fn run(rec: &mut Rec) {
    let (w, ms) = if rec.thorough() { (Width::Wide, 4) } else { (Width::Medium, 2) };
    crate::for_each_scheme!(S, {
        single::<S>(rec, w);
        batch::<S>(rec, ms);
        batch_pools::<S>(rec);
    });
    // points on and near the Boolean hypercube
    crate::special::hypercube::<SPst>(rec, "C02", &[2, 3]);
    crate::special::hypercube::<SHyr>(rec, "C02", &[2, 4]);
    crate::special::hypercube::<SMll>(rec, "C02", &[2, 3, 4]);
    crate::special::hypercube::<SBrk>(rec, "C02", &[2, 3, 4]);
    crate::special::c02_special(rec);
}
