//! C18 — results do not depend on thread count, on the `parallel` feature, or on the schedule.
//!
//! Three cooperating builds of this engine (see DESIGN section 5):
//!  * default build (`parallel` on): `run C18` enumerates the configuration grid by spawning itself
//!    with RAYON_NUM_THREADS in {1,2,3,8,16} and comparing digests with the no-`parallel` build;
//!  * no-`parallel` build: only answers `c18-digest` (the reference);
//!  * sim build (rayon-core patched with a controlled scheduler): `run C18` explores schedules.
use crate::alpha::*;
use crate::checks::c01::{slice_b_labels, slice_b_polys};
use crate::rec::Rec;
use crate::sch::*;
use crate::schemes::*;
use crate::special::*;
use crate::tr::*;
use crate::util::*;
use ark_ff::{One, Zero};
use ark_poly::{DenseUVPolynomial, Polynomial};
use ark_poly_commit::streaming_kzg as skzg;
use ark_poly_commit::QuerySet;
use ark_std::rand::RngCore;
use sha2::{Digest, Sha256};
use std::collections::BTreeMap;

pub type Outputs = Vec<(String, Vec<u8>)>;

/// Extended flows carry the large negative-decision blocks (every claim of a three-label batch falsified, the
/// twelve-member hiding commit).  They are what the configuration grid and the default tape of every simulated
/// pool execute; the single-deviation tapes re-run the CORE flow only (keys, commitments, proofs, the honest and
/// one false decision, doubly defective proofs, structured points), whose outputs are a subset.
static EXTENDED: std::sync::atomic::AtomicBool = std::sync::atomic::AtomicBool::new(true);
fn extended() -> bool {
    EXTENDED.load(std::sync::atomic::Ordering::Relaxed)
}
pub fn set_extended(on: bool) {
    EXTENDED.store(on, std::sync::atomic::Ordering::Relaxed);
}

/// Phase marker for the schedule simulation (no-op in the other builds): deviations are placed at the
/// first instances of every library loop *per phase*, so that every operation of a flow gets its own.
#[allow(unused_variables)]
fn phase(n: &mut u64) {
    *n += 1;
    #[cfg(feature = "sim")]
    rayon_core::sim::set_phase(*n);
}

fn sha(b: &[u8]) -> String {
    hex(&Sha256::digest(b))
}

/// One deterministic end-to-end flow of a trait scheme: keys, commitments, batch proof, decisions.
fn flow<S: Sch>(cfg: &KeyCfg, seed: u64, big: Option<S::P>) -> Result<Outputs, String> {
    let mut out: Outputs = Vec::new();
    let mut ph = 0u64;
    phase(&mut ph);
    let keys = build_keys::<S>(cfg, seed).map_err(|o| format!("keys: {}", o.short()))?;
    out.push(("params".into(), ser(&keys.pp)));
    out.push(("committer-key".into(), ser(&keys.ck)));
    out.push(("verifier-key".into(), ser(&keys.vk)));
    let mut polys = slice_b_polys::<S>(cfg, seed);
    if let Some(p) = big {
        polys[0] = lp::<S>("p0", p, None, None);
    }
    let labels = slice_b_labels::<S>(cfg, seed);
    phase(&mut ph);
    let c = commit_set::<S>(&keys, polys, seed, 0).map_err(|o| format!("commit: {}", o.short()))?;
    for (i, cm) in c.comms.iter().enumerate() {
        out.push((format!("commitment[{}]", i), ser(cm.commitment())));
        out.push((format!("state[{}]", i), ser(&c.states[i])));
    }
    // one commit call over MANY hiding polynomials (and a few non-hiding ones in between): with a seeded RNG the
    // blinding of member k must not depend on how the call is split over threads
    if S::HIDING && extended() {
        let shapes = crate::source::shapes_short::<S>(cfg, seed);
        let mut many: Vec<LP<S>> = Vec::new();
        for k in 0..12usize {
            let p = shapes[shapes.len() - 1 - (k % 2).min(shapes.len() - 1)].1.clone();
            let hid = if k % 5 == 4 { None } else { Some(1) };
            many.push(lp::<S>(&format!("h{:02}", k), p, None, hid));
        }
        phase(&mut ph);
        match commit_set::<S>(&keys, many, seed, 1) {
            Ok(cm) => {
                for (i, x) in cm.comms.iter().enumerate() {
                    out.push((format!("hiding-batch/commitment[{}]", i), ser(x.commitment())));
                    out.push((format!("hiding-batch/state[{}]", i), ser(&cm.states[i])));
                }
                phase(&mut ph);
                if let Ok(s) = open_single::<S>(&keys, &cm, &[0, 1, 4, 11], &labels[0].1, 0, seed, 1) {
                    let bp: BPf<S> = vec![s.proof.clone()].into();
                    out.push(("hiding-batch/proof".into(), ser(&bp)));
                }
            }
            Err(o) => out.push(("hiding-batch/commit-error".into(), o.short().into_bytes())),
        }
    }
    let mut qs = QuerySet::<S::Pt>::new();
    for p in c.polys.iter() {
        qs.insert((p.label().clone(), (labels[0].0.clone(), labels[0].1.clone())));
    }
    qs.insert((c.polys[0].label().clone(), (labels[2].0.clone(), labels[2].1.clone())));
    phase(&mut ph);
    let b = open_batch::<S>(&keys, &c, &[0, 1, 2], &qs, 0, seed, 0).map_err(|o| format!("open: {}", o.short()))?;
    out.push(("batch-proof".into(), ser(&b.proof)));
    let comms: Vec<&LCm<S>> = c.comms.iter().collect();
    phase(&mut ph);
    let d1 = check_batch::<S>(&keys, &comms, &qs, &b.evals, &b.proof, 0, seed, 0);
    let mut bad = b.evals.clone();
    *bad.values_mut().next().unwrap() += S::F::one();
    phase(&mut ph);
    let d2 = check_batch::<S>(&keys, &comms, &qs, &bad, &b.proof, 0, seed, 0);
    out.push(("decisions".into(), format!("{}/{}", d1.class(), d2.class()).into_bytes()));
    // every claim of a larger batch (three point labels, two of them sharing a point, all polynomials at each)
    // falsified in turn: the decisions of a verifier whose work is split by thread count or schedule must not
    // depend on either - in particular no position of a batch may go unchecked for some pool size
    if extended() {
        let mut q3 = QuerySet::<S::Pt>::new();
        for p in c.polys.iter() {
            for (ln, z) in labels.iter() {
                q3.insert((p.label().clone(), (ln.clone(), z.clone())));
            }
        }
        phase(&mut ph);
        if let Ok(b3) = open_batch::<S>(&keys, &c, &[0, 1, 2], &q3, 0, seed, 0) {
            out.push(("batch3-proof".into(), ser(&b3.proof)));
            phase(&mut ph);
            let mut ds = String::new();
            ds.push_str(check_batch::<S>(&keys, &comms, &q3, &b3.evals, &b3.proof, 0, seed, 0).class());
            let keys_of: Vec<_> = b3.evals.keys().cloned().collect();
            for k in keys_of.iter() {
                let mut bad = b3.evals.clone();
                *bad.get_mut(k).unwrap() += S::F::one();
                ds.push('/');
                ds.push_str(check_batch::<S>(&keys, &comms, &q3, &bad, &b3.proof, 0, seed, 0).class());
            }
            out.push(("batch3-decisions(true,each-claim-false)".into(), ds.into_bytes()));
        }
    }
    phase(&mut ph);
    if let Ok(s) = open_single::<S>(&keys, &c, &[0, 1], &labels[0].1, 0, seed, 0) {
        let bp: BPf<S> = vec![s.proof.clone()].into();
        out.push(("single-proof".into(), ser(&bp)));
        phase(&mut ph);
        let d = check_single::<S>(&keys, &comms[..2], &labels[0].1, &s.values, &s.proof, 0, seed, 0);
        out.push(("single-decision".into(), d.class().as_bytes().to_vec()));
    }
    // linear codes: a proof with TWO different defects (a column whose Merkle path does not verify and a
    // column opened at a wrong position): the verdict (Ok(false) or Err) must be the one of the first
    // defective column in list order, whatever the schedule
    if S::NAME == "LIG" || S::NAME == "MLL" || S::NAME == "BRK" {
        if let Ok(s) = open_single::<S>(&keys, &c, &[0], &labels[0].1, 0, seed, 0) {
            let bp: BPf<S> = vec![s.proof.clone()].into();
            let mps: Vec<Vec<crate::mirror::MProof<Fr381>>> = crate::mirror::convert(&bp);
            let t = mps[0][0].opening.paths.len();
            if t >= 4 {
                for (a, b) in [(0usize, t - 1), (t - 1, 0), (1, t / 2), (t / 2, 1)] {
                    let mut m = mps.clone();
                    {
                        let paths = &mut m[0][0].opening.paths;
                        // a: the authentication data of another column; b: another position
                        let donor = paths[(a + 1) % t].clone();
                        paths[a].leaf_sibling_hash = donor.leaf_sibling_hash.clone();
                        paths[a].auth_path = donor.auth_path.clone();
                        paths[b].leaf_index ^= 1;
                    }
                    let bad: BPf<S> = crate::mirror::convert(&m);
                    let list: Vec<Pf<S>> = bad.into();
                    phase(&mut ph);
                    let d = check_single::<S>(&keys, &comms[..1], &labels[0].1, &s.values, &list[0], 0, seed, 0);
                    out.push((format!("decision/two-defects({},{})", if a < b { "path-first" } else { "index-first" }, if a == 0 || b == 0 { "ends" } else { "inner" }), d.class().as_bytes().to_vec()));
                }
            }
        }
    }
    // structured points (coordinates 0 and 1): tensors and powers with zero entries
    for (pn, z) in S::points(cfg, seed).into_iter().filter(|(n, _)| n == "0" || n == "zeros" || n == "mixed" || n == "ones") {
        phase(&mut ph);
        if let Ok(s) = open_single::<S>(&keys, &c, &[0], &z, 0, seed, 0) {
            let bp: BPf<S> = vec![s.proof.clone()].into();
            out.push((format!("proof@{}", pn), ser(&bp)));
            phase(&mut ph);
            let d = check_single::<S>(&keys, &comms[..1], &z, &s.values, &s.proof, 0, seed, 0);
            out.push((format!("decision@{}", pn), d.class().as_bytes().to_vec()));
        }
    }
    Ok(out)
}

fn flow_special(which_full: &str, seed: u64) -> Result<Outputs, String> {
    let mut out: Outputs = Vec::new();
    let r = rho_stream::<Fr381>(seed, 1, 80);
    let odd = which_full.ends_with("-odd");
    let which = which_full.trim_end_matches("-odd");
    // (KZG max degree, polynomial length), (MLP setup/trim variables), (STR key, polynomial length)
    let (kd, kl) = if odd { (18usize, 19usize) } else { (33, 34) };
    let (mn, mt) = if odd { (3usize, 3usize) } else { (5, 4) };
    let (sk, sl) = if odd { (23usize, 19usize) } else { (40, 34) };
    match which {
        "KZG" => {
            let pp = kzg_setup(kd, true, seed, 0);
            out.push(("params".into(), ser(&pp)));
            let powers = kzg_powers(&pp, kl, 4);
            let vk = kzg_vk(&pp);
            let p = UP::<Fr381>::from_coefficients_slice(&r[..kl]);
            {
                let sp = sparse_poly::<Fr381>(seed, kl - 1);
                let (c, st) = Kzg::commit(&powers, &sp, None, None).map_err(|e| format!("{:?}", e))?;
                let pf = Kzg::open(&powers, &sp, r[40], &st).map_err(|e| format!("{:?}", e))?;
                out.push(("commitment/sparse".into(), ser(&c)));
                out.push(("proof/sparse".into(), ser(&pf)));
                out.push(("decision/sparse".into(), kzg_check(&vk, &c, r[40], sp.evaluate(&r[40]), &pf).class().as_bytes().to_vec()));
            }
            for h in [None, Some(2usize)] {
                let mut rng = seed_rng(seed, 0);
                let (c, st) = Kzg::commit(&powers, &p, h, Some(&mut rng as &mut dyn RngCore)).map_err(|e| format!("{:?}", e))?;
                let pf = Kzg::open(&powers, &p, r[40], &st).map_err(|e| format!("{:?}", e))?;
                out.push((format!("commitment/h={:?}", h), ser(&c)));
                out.push((format!("proof/h={:?}", h), ser(&pf)));
                let d = kzg_check(&vk, &c, r[40], p.evaluate(&r[40]), &pf);
                let d2 = kzg_batch_check(&vk, &[c, c], &[r[40], r[40]], &[p.evaluate(&r[40]), p.evaluate(&r[40]) + Fr381::one()], &[pf, pf], seed, 0);
                out.push((format!("decisions/h={:?}", h), format!("{}/{}", d.class(), d2.class()).into_bytes()));
                // batches of 5 and 7 openings at different points, every position falsified in turn
                for n in if extended() { vec![5usize, 7] } else { vec![] } {
                    let zs: Vec<Fr381> = (0..n).map(|i| r[41 + i]).collect();
                    let pfs: Vec<_> = zs.iter().map(|z| Kzg::open(&powers, &p, *z, &st)).collect::<Result<Vec<_>, _>>().map_err(|e| format!("{:?}", e))?;
                    let vs: Vec<Fr381> = zs.iter().map(|z| p.evaluate(z)).collect();
                    let cs = vec![c; n];
                    let mut ds = kzg_batch_check(&vk, &cs, &zs, &vs, &pfs, seed, 0).class().to_string();
                    for i in 0..n {
                        let mut bad = vs.clone();
                        bad[i] += Fr381::one();
                        ds.push('/');
                        ds.push_str(kzg_batch_check(&vk, &cs, &zs, &bad, &pfs, seed, 0).class());
                    }
                    out.push((format!("batch{}-decisions/h={:?}", n, h), ds.into_bytes()));
                }
            }
        }
        "KZGB" => {
            // batch verifier only: 10 (odd: 17) openings of one commitment at different points; the all-true batch,
            // every single position falsified, and every pair of positions carrying +d / -d (which cancels
            // exactly when two positions get the same weight).  A verifier that splits the batch by
            // `current_num_threads()` must take the same decisions for every pool size.
            let n = if odd { 17usize } else { 10 };
            let pp = kzg_setup(6, false, seed, 0);
            let powers = kzg_powers(&pp, 6, 3);
            let vk = kzg_vk(&pp);
            let p = UP::<Fr381>::from_coefficients_slice(&r[..6]);
            for h in [None, Some(1usize)] {
                let mut rng = seed_rng(seed, 0);
                let (c, st) = Kzg::commit(&powers, &p, h, Some(&mut rng as &mut dyn RngCore)).map_err(|e| format!("{:?}", e))?;
                let zs: Vec<Fr381> = (0..n).map(|i| r[41 + i]).collect();
                let pfs: Vec<_> = zs.iter().map(|z| Kzg::open(&powers, &p, *z, &st)).collect::<Result<Vec<_>, _>>().map_err(|e| format!("{:?}", e))?;
                let vs: Vec<Fr381> = zs.iter().map(|z| p.evaluate(z)).collect();
                let cs = vec![c; n];
                let mut ds = kzg_batch_check(&vk, &cs, &zs, &vs, &pfs, seed, 0).class().to_string();
                for i in 0..n {
                    let mut bad = vs.clone();
                    bad[i] += Fr381::one();
                    ds.push('/');
                    ds.push_str(kzg_batch_check(&vk, &cs, &zs, &bad, &pfs, seed, 0).class());
                }
                out.push((format!("decisions(true,each-false)/h={:?}", h), ds.into_bytes()));
                let mut ds = String::new();
                for i in 0..n {
                    for j in (i + 1)..n {
                        let mut bad = vs.clone();
                        bad[i] += r[3];
                        bad[j] -= r[3];
                        ds.push_str(&kzg_batch_check(&vk, &cs, &zs, &bad, &pfs, seed, 1).class()[..1]);
                    }
                }
                out.push((format!("decisions(cancelling-pairs)/h={:?}", h), ds.into_bytes()));
            }
        }
        "SCP" => {
            // the public IPA helper on long challenge lists (2^8 .. 2^11 coefficients; odd: 2^9 and 2^12): sizes at which an
            // implementation may expand the coefficients in parallel chunks
            use ark_poly_commit::ipa_pc::SuccinctCheckPolynomial;
            let rj = rho_stream::<FrJ>(seed, 77, 14);
            for k in if odd { vec![9usize, 12] } else { vec![8usize, 10, 11] } {
                let scp = SuccinctCheckPolynomial::<FrJ>(rj[..k].to_vec());
                out.push((format!("coefficients/k={}", k), ser(&scp.compute_coeffs())));
                out.push((format!("evaluation/k={}", k), ser(&scp.evaluate(rj[13]))));
            }
        }
        "MLP" => {
            let mut rng = seed_rng(seed, 10);
            let pp = Mlp::setup(mn, &mut rng);
            out.push(("params".into(), ser(&pp)));
            let (ck, vk) = Mlp::trim(&pp, mt);
            out.push(("committer-key".into(), ser(&ck)));
            out.push(("verifier-key".into(), ser(&vk)));
            let p = crate::sch::ml_shapes::<Fr381>(mt, seed).pop().unwrap().1;
            let z = crate::sch::ml_points::<Fr381>(mt, seed)[0].1.clone();
            let c = Mlp::commit(&ck, &p);
            let pf = Mlp::open(&ck, &p, &z);
            out.push(("commitment".into(), ser(&c)));
            out.push(("proof".into(), ser(&pf)));
            let d = mlp_check(&vk, &c, &z, p.evaluate(&z), &pf);
            let d2 = mlp_check(&vk, &c, &z, p.evaluate(&z) + Fr381::one(), &pf);
            out.push(("decisions".into(), format!("{}/{}", d.class(), d2.class()).into_bytes()));
        }
        "STR" => {
            let ck = str_key(sk, 3, seed);
            let vk = SVk::from(&ck);
            let coeffs = r[..sl].to_vec();
            let c = ck.commit(&coeffs);
            out.push(("commitment".into(), ser(&c.verif_inner())));
            let (v, pf) = ck.open(&coeffs, &r[40]);
            out.push(("proof".into(), ser(&pf.0)));
            let pts = vec![r[40], r[41], Fr381::one()];
            let mp = ck.open_multi_points(&coeffs, &pts);
            out.push(("multi-proof".into(), ser(&mp.0)));
            let sck = skzg::CommitterKeyStream::from(&ck);
            let rev: Vec<Fr381> = coeffs.iter().rev().cloned().collect();
            let (sv, spf) = sck.open(&rev.as_slice(), &r[40], 8);
            out.push(("space-proof".into(), ser(&spf.0)));
            out.push(("space-value".into(), ser(&sv)));
            let d = str_verify(&vk, &c, &r[40], &v, &pf);
            let d2 = str_verify(&vk, &c, &r[40], &(v + Fr381::one()), &pf);
            out.push(("decisions".into(), format!("{}/{}", d.class(), d2.class()).into_bytes()));
        }
        _ => return Err("unknown item".into()),
    }
    Ok(out)
}

/// Every flow at two sizes: the round one and (suffix `-odd`) one with odd / non-power-of-two lengths.
/// a*x^(d/2) + b*x^(d-2) + c*x^d : low-order zeros, interior zeros.
fn sparse_poly<F: ark_ff::PrimeField>(seed: u64, d: usize) -> UP<F> {
    let r = rho_stream::<F>(seed, 12, 3);
    let mut c = vec![F::zero(); d + 1];
    c[d / 2] = r[0];
    c[d - 2] = r[1];
    c[d] = r[2];
    UP::<F>::from_coefficients_vec(c)
}

pub const ITEMS: [&str; 28] = [
    "MAR", "SON", "IPA", "PST", "HYR", "LIG", "MLL", "BRK", "KZG", "MLP", "STR", "MAR-odd", "SON-odd", "IPA-odd", "PST-odd", "HYR-odd", "LIG-odd", "MLL-odd", "BRK-odd", "KZG-odd", "MLP-odd",
    "STR-odd", "KZGB", "KZGB-odd", "SCP", "SCP-odd", "LIG-big", "MLL-big",
];

pub fn run_item(item: &str, seed: u64) -> Result<Outputs, String> {
    let r = catch(|| match item {
        "MAR" => flow::<SMar>(&KeyCfg::uni(20, 16, 2, Some(vec![8, 16])), seed, None),
        "SON" => flow::<SSon>(&KeyCfg::uni(20, 16, 2, Some(vec![8, 16])), seed, None),
        "IPA" => flow::<SIpa>(&KeyCfg::uni(15, 15, 1, None), seed, None),
        "PST" => flow::<SPst>(&KeyCfg::mv(3, 3, 3), seed, None),
        "HYR" => flow::<SHyr>(&KeyCfg::ml(6), seed, None),
        "LIG" => flow::<SLig>(&KeyCfg::uni(64, 64, 1, None), seed, Some(UP::<Fr381>::from_coefficients_vec(rho_stream::<Fr381>(seed, 9, 41)))),
        "MLL" => flow::<SMll>(&KeyCfg::ml(6), seed, None),
        "BRK" => flow::<SBrk>(&KeyCfg::ml(6), seed, None),
        // the odd-size flows of the univariate schemes open a sparse polynomial (zero low-order
        // coefficients and zeros between the non-zero ones) in first position
        "MAR-odd" => flow::<SMar>(&KeyCfg::uni(13, 11, 3, Some(vec![5, 11])), seed, Some(sparse_poly::<Fr381>(seed, 11))),
        "SON-odd" => flow::<SSon>(&KeyCfg::uni(13, 11, 3, Some(vec![5, 11])), seed, Some(sparse_poly::<Fr381>(seed, 11))),
        "IPA-odd" => flow::<SIpa>(&KeyCfg::uni(7, 5, 1, None), seed, Some(sparse_poly::<FrJ>(seed, 7))),
        "PST-odd" => flow::<SPst>(&KeyCfg::mv(2, 5, 5), seed, None),
        "HYR-odd" => flow::<SHyr>(&KeyCfg::ml(4), seed, None),
        // large coefficient matrices (4096 coefficients: 8 x 512 with the default parameters): matrix shapes, row encodings
        // and column hashing of the linear codes at a size where per-thread work splitting becomes possible
        "LIG-big" => flow::<SLig>(&KeyCfg::uni(4096, 4096, 1, None), seed, Some(UP::<Fr381>::from_coefficients_vec(rho_stream::<Fr381>(seed, 9, 4096)))),
        "MLL-big" => flow::<SMll>(&KeyCfg::ml(12), seed, None),
        "LIG-odd" => flow::<SLig>(&KeyCfg::uni(37, 37, 1, None), seed, Some(UP::<Fr381>::from_coefficients_vec(rho_stream::<Fr381>(seed, 9, 23)))),
        "MLL-odd" => flow::<SMll>(&KeyCfg::ml(5), seed, None),
        "BRK-odd" => flow::<SBrk>(&KeyCfg::ml(7), seed, None),
        other => flow_special(other, seed),
    });
    match r {
        Ok(x) => x,
        Err(p) => Err(format!("panic: {}", p)),
    }
}

/// `pcmc c18-digest [--item X]`: one line per output: item <TAB> output <TAB> sha256
pub fn print_digests(seed: u64, only: Option<&str>) {
    for item in ITEMS.iter() {
        if let Some(o) = only {
            if o != *item {
                continue;
            }
        }
        match run_item(item, seed) {
            Ok(outs) => {
                for (n, b) in outs {
                    println!("{}\t{}\t{}", item, n, sha(&b));
                }
            }
            Err(e) => println!("{}\tERROR\t{}", item, sha(e.as_bytes())),
        }
    }
}

fn digests_of(outs: &Result<Outputs, String>) -> BTreeMap<String, String> {
    let mut m = BTreeMap::new();
    match outs {
        Ok(o) => {
            for (n, b) in o {
                m.insert(n.clone(), sha(b));
            }
        }
        Err(e) => {
            m.insert("ERROR".into(), sha(e.as_bytes()));
        }
    }
    m
}

/// digests of one item as produced by another executable / thread configuration
fn spawn_digests(exe: &str, item: &str, seed: u64, threads: Option<usize>) -> Result<BTreeMap<String, String>, String> {
    let mut cmd = std::process::Command::new(exe);
    cmd.args(["c18-digest", "C18", "--seed", &seed.to_string(), "--only", item]);
    match threads {
        Some(n) => {
            cmd.env("RAYON_NUM_THREADS", n.to_string());
        }
        None => {
            cmd.env("RAYON_NUM_THREADS", "1");
        }
    }
    let o = cmd.output().map_err(|e| format!("spawn {}: {}", exe, e))?;
    if !o.status.success() {
        return Err(format!("{} exited with {:?}", exe, o.status.code()));
    }
    let mut m = BTreeMap::new();
    for l in String::from_utf8_lossy(&o.stdout).lines() {
        let p: Vec<&str> = l.split('\t').collect();
        if p.len() == 3 && p[0] == item {
            m.insert(p[1].to_string(), p[2].to_string());
        }
    }
    if m.is_empty() {
        return Err(format!("{} printed no digests for {}", exe, item));
    }
    Ok(m)
}

fn reference(item: &str, seed: u64) -> Result<BTreeMap<String, String>, String> {
    let exe = std::env::var("PCMC_NOPAR_BIN").map_err(|_| "PCMC_NOPAR_BIN not set (the driver provides the no-parallel build)".to_string())?;
    spawn_digests(&exe, item, seed, None)
}

/// like `diff`, but outputs the run did not produce (core flow) are not compared
fn diff_core(reference: &BTreeMap<String, String>, run: &BTreeMap<String, String>) -> Vec<String> {
    let mut d = Vec::new();
    for (k, v) in run.iter() {
        if reference.get(k) != Some(v) {
            d.push(k.clone());
        }
    }
    d
}

fn diff(a: &BTreeMap<String, String>, b: &BTreeMap<String, String>) -> Vec<String> {
    let mut d = Vec::new();
    for (k, v) in a.iter() {
        if b.get(k) != Some(v) {
            d.push(k.clone());
        }
    }
    for k in b.keys() {
        if !a.contains_key(k) {
            d.push(k.clone());
        }
    }
    d
}

/// Configuration grid (default build): thread counts x items, against the no-parallel build.
#[cfg(not(feature = "sim"))]
pub fn run(rec: &mut Rec) {
    let me = std::env::current_exe().unwrap().to_string_lossy().to_string();
    let threads: Vec<(String, usize)> = vec![("1".into(), 1), ("2".into(), 2), ("3".into(), 3), ("8".into(), 8), ("16".into(), 16), ("16-again".into(), 16), ("16-third".into(), 16)];
    rec.scope(format!("configuration grid: {} items x thread counts {{1,2,3,8,16,16,16}} of the default build, each in its own process, digests compared with the build without the parallel feature", ITEMS.len()));
    for item in ITEMS.iter() {
        for (tn, t) in threads.iter() {
            let id = format!("config/{}/threads={}", item, tn);
            if !rec.take(&id) {
                continue;
            }
            rec.dim("item", item);
            rec.dim("threads", &t.to_string());
            let want = match reference(item, rec.seed) {
                Ok(m) => m,
                Err(e) => {
                    rec.note(format!("MACHINERY: {}", e));
                    rec.class("reference-unavailable");
                    continue;
                }
            };
            let got = match spawn_digests(&me, item, rec.seed, Some(*t)) {
                Ok(m) => m,
                Err(e) => {
                    rec.note(format!("MACHINERY: {}", e));
                    rec.class("run-unavailable");
                    continue;
                }
            };
            rec.op(2);
            let d = diff(&want, &got);
            rec.class(if d.is_empty() { "config-equal" } else { "config-differs" });
            rec.obs(&format!("config|{}|{}|{}", item, t, d.is_empty()));
            if want.contains_key("ERROR") {
                rec.violation(&format!("C18/{}/reference-flow-failed", item), &id, "the flow fails in the no-parallel build".into());
            }
            if !d.is_empty() {
                rec.violation(&format!("C18/{}/config/{}", item, d[0].split('[').next().unwrap().split('/').next().unwrap()), &id, format!("outputs {:?} with {} worker threads (parallel feature) differ from the build without the parallel feature", d, t));
            }
            rec.sample("config", format!("{}: {} outputs compared", id, want.len()));
        }
    }
}

/// Schedule exploration (sim build).
#[cfg(feature = "sim")]
pub fn run(rec: &mut Rec) {
    let owner = "ark_poly_commit";
    let run_tape5 = |item: &str, threads: usize, tape: Vec<u8>, seed: u64| -> (BTreeMap<String, String>, Vec<u8>, Vec<bool>, Vec<u64>, Vec<u8>) {
        rayon_core::sim::begin(threads, tape, owner);
        let outs = run_item(item, seed);
        let arity = rayon_core::sim::arities();
        let (trace, owned, sites) = rayon_core::sim::end();
        (digests_of(&outs), trace, owned, sites, arity)
    };
    let run_tape4 = |item: &str, threads: usize, tape: Vec<u8>, seed: u64| -> (BTreeMap<String, String>, Vec<u8>, Vec<bool>, Vec<u64>) {
        let (a, b, c, d, _) = run_tape5(item, threads, tape, seed);
        (a, b, c, d)
    };
    let run_tape = |item: &str, threads: usize, tape: Vec<u8>, seed: u64| -> (BTreeMap<String, String>, Vec<u8>, Vec<bool>) {
        let (a, b, c, _) = run_tape4(item, threads, tape, seed);
        (a, b, c)
    };
    // deviation targets: the first K dynamic instances of every distinct library loop (join site)
    let per_site = if rec.thorough() { 4 } else { 1 };
    let pools: Vec<usize> = if rec.thorough() { vec![2, 3, 4, 5] } else { vec![2, 3] };
    rec.scope(format!("schedule exploration under the simulated rayon scheduler: {} items x simulated pool sizes {:?}; default tape, then every tape deviating at one join ({} joins; the first {} dynamic instances of every distinct library loop - thorough: plus, for the pool of 2, the first instance of every loop of the dependencies with the choices swap / both migrated / all - in every phase (operation) of the flow) by each of the 7 non-default (order, migrated-a, migrated-b) choices{}", ITEMS.len(), pools, if rec.thorough() { "all" } else { "library-owned" }, per_site, if rec.thorough() { "; pairs of owned joins (k = 2, pool of 2)" } else { "" }));
    for item in ITEMS.iter() {
        let mut want: Option<BTreeMap<String, String>> = None;
        for threads in pools.iter().copied() {
            // probe run to learn the joins (every worker does it; it is one flow)
            // probe run of the CORE flow: the deviation tapes below index into its join trace
            set_extended(false);
            let (_dcore, trace0, owned0, sites0, arity0) = run_tape5(item, threads, vec![], rec.seed);
            set_extended(true);
            let n = trace0.len();
            let id0 = format!("sched/{}/pool={}/default", item, threads);
            if rec.take(&id0) {
                // the default tape runs the EXTENDED flow, twice
                let (d0, trace0, owned0, _, _) = run_tape5(item, threads, vec![], rec.seed);
                let n = trace0.len();
                rec.dim("item", item);
                rec.dim("pool", &threads.to_string());
                if want.is_none() {
                    want = reference(item, rec.seed).ok();
                }
                rec.op(2);
                let (d1, trace1, _) = run_tape(item, threads, vec![], rec.seed);
                if trace1 != trace0 || d1 != d0 {
                    rec.violation(&format!("C18/{}/schedule/replay-diverges", item), &id0, "two runs of the same tape give different join traces or outputs: nondeterminism that does not come from the scheduler".into());
                }
                match &want {
                    Some(w) => {
                        let d = diff(w, &d0);
                        rec.class(if d.is_empty() { "schedule-equal" } else { "schedule-differs" });
                        if !d.is_empty() {
                            rec.violation(&format!("C18/{}/schedule/default-tape", item), &id0, format!("outputs {:?} under the default schedule with a simulated pool of {} differ from the no-parallel build", d, threads));
                        }
                    }
                    None => rec.class("reference-unavailable"),
                }
                rec.note(format!("{} pool={}: {} joins, {} owned by the library", item, threads, n, owned0.iter().filter(|x| **x).count()));
                rec.sample("schedule", format!("{}: {} joins ({} owned)", id0, n, owned0.iter().filter(|x| **x).count()));
                if owned0.iter().filter(|x| **x).count() > 0 {
                    rec.class("owned-joins-seen");
                }
            }
            let mut seen_sites: BTreeMap<u64, usize> = BTreeMap::new();
            let mut targets: Vec<usize> = Vec::new();
            for i in 0..n {
                // joins of the dependencies: thorough tier, simulated pool of 2 only, first instance per site and phase
                if !(owned0[i] || (rec.thorough() && threads == 2)) {
                    continue;
                }
                let c = seen_sites.entry(sites0[i]).or_insert(0);
                *c += 1;
                let limit = if owned0[i] { per_site } else { 1 };
                if *c <= limit {
                    targets.push(i);
                }
            }
            for i in targets.iter().copied() {
                let id = format!("sched/{}/pool={}/join={}", item, threads, i);
                if !rec.take(&id) {
                    continue;
                }
                rec.dim("item", item);
                if want.is_none() {
                    want = reference(item, rec.seed).ok();
                }
                let w = match &want {
                    Some(w) => w.clone(),
                    None => {
                        rec.class("reference-unavailable");
                        continue;
                    }
                };
                // a join has 8 alternatives (order x two migrated flags); a scope pick as many as jobs are pending
                for v in 1u8..arity0[i].min(8).max(2) {
                    // dependency joins: the order swap, "both halves migrated" and all three bits
                    if !owned0[i] && !(v == 1 || v == 6 || v == 7) {
                        continue;
                    }
                    let mut tape = vec![0u8; i];
                    tape.push(v);
                    set_extended(false);
                    let (d, _, _) = run_tape(item, threads, tape, rec.seed);
                    set_extended(true);
                    rec.count_points(1);
                    rec.op(1);
                    let df = diff_core(&w, &d);
                    rec.class(if df.is_empty() { "schedule-equal" } else { "schedule-differs" });
                    rec.obs(&format!("sched|{}|{}|{}|{}", item, threads, v, df.is_empty()));
                    if !df.is_empty() {
                        rec.violation(&format!("C18/{}/schedule/deviation", item), &id, format!("outputs {:?} differ from the no-parallel build when join {} (owned: {}) takes choice {} (bit0 = second half first, bit1/bit2 = halves see 'migrated') in a simulated pool of {}", df, i, owned0[i], v, threads));
                        break;
                    }
                }
                // k = 2 over owned joins (thorough)
                // k = 2: pairs over the FIRST dynamic instance of every owned join site
                let first_of_site = |x: usize| -> bool { owned0[x] && sites0[..x].iter().zip(owned0[..x].iter()).all(|(s, o)| !(*o && *s == sites0[x])) };
                if rec.thorough() && threads == 2 && first_of_site(i) {
                    for j in targets.iter().copied().filter(|j| *j > i && first_of_site(*j)) {
                        for v in [1u8, 4, 7] {
                            for u in [1u8, 2, 7] {
                                let mut tape = vec![0u8; j + 1];
                                tape[i] = v;
                                tape[j] = u;
                                set_extended(false);
                                let (d, _, _) = run_tape(item, threads, tape, rec.seed);
                                set_extended(true);
                                rec.count_points(1);
                                rec.op(1);
                                let df = diff_core(&w, &d);
                                rec.class(if df.is_empty() { "schedule-equal" } else { "schedule-differs" });
                                if !df.is_empty() {
                                    rec.violation(&format!("C18/{}/schedule/deviation", item), &id, format!("outputs {:?} differ when joins {} and {} deviate ({}, {}) in a simulated pool of {}", df, i, j, v, u, threads));
                                }
                            }
                        }
                    }
                }
            }
        }
    }
}
