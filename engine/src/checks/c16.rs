//! C16 — public algebraic helpers satisfy their defining identities.
use crate::alpha::*;
use crate::rec::Rec;
use crate::refm::*;
use crate::schemes::*;
use crate::util::*;
use ark_ff::{Field, One, Zero};
use ark_poly::{DenseUVPolynomial, Polynomial};
use ark_poly_commit::ipa_pc::SuccinctCheckPolynomial;
use ark_poly_commit::{evaluate_query_set, LCTerm, LabeledPolynomial, LinearCombination, QuerySet};
use std::collections::BTreeMap;

type F = Fr381;

#[derive(Clone)]
struct RefLc {
    coeffs: BTreeMap<String, F>,
    constant: F,
}

impl RefLc {
    fn from(lc: &LinearCombination<F>) -> Self {
        let mut r = RefLc { coeffs: BTreeMap::new(), constant: F::zero() };
        for (c, t) in lc.terms.iter() {
            match t {
                LCTerm::One => r.constant += *c,
                LCTerm::PolyLabel(l) => *r.coeffs.entry(l.clone()).or_insert(F::zero()) += *c,
            }
        }
        r
    }
    fn add_scaled(&mut self, c: F, o: &RefLc) {
        for (l, k) in o.coeffs.iter() {
            *self.coeffs.entry(l.clone()).or_insert(F::zero()) += c * k;
        }
        self.constant += c * o.constant;
    }
    fn scale(&mut self, c: F) {
        for v in self.coeffs.values_mut() {
            *v *= c;
        }
        self.constant *= c;
    }
    fn value(&self, a: &BTreeMap<String, F>) -> F {
        let mut v = self.constant;
        for (l, c) in self.coeffs.iter() {
            v += *c * a[l];
        }
        v
    }
}

fn lc_value(lc: &LinearCombination<F>, a: &BTreeMap<String, F>) -> F {
    let mut v = F::zero();
    for (c, t) in lc.iter() {
        v += match t {
            LCTerm::One => *c,
            LCTerm::PolyLabel(l) => *c * a[l],
        };
    }
    v
}

#[derive(Clone, Copy, Debug)]
enum OpK {
    AddCLc,
    SubCLc,
    AddLc,
    SubLc,
    AddC,
    SubC,
    MulC,
}

#[derive(Clone, Copy, Debug)]
struct Op {
    k: OpK,
    c: usize,
    lc: usize,
}

fn all_ops() -> Vec<Op> {
    let mut v = Vec::new();
    for k in [OpK::AddCLc, OpK::SubCLc] {
        for c in 0..4 {
            for lc in 0..2 {
                v.push(Op { k, c, lc });
            }
        }
    }
    for k in [OpK::AddLc, OpK::SubLc] {
        for lc in 0..2 {
            v.push(Op { k, c: 0, lc });
        }
    }
    for k in [OpK::AddC, OpK::SubC, OpK::MulC] {
        for c in 0..4 {
            v.push(Op { k, c, lc: 0 });
        }
    }
    v
}

struct Env {
    cs: Vec<F>,
    operands: Vec<LinearCombination<F>>,
    operand_refs: Vec<RefLc>,
    assigns: Vec<BTreeMap<String, F>>,
    ops: Vec<Op>,
}

fn apply(env: &Env, op: &Op, lc: &mut LinearCombination<F>, r: &mut RefLc) {
    let c = env.cs[op.c];
    match op.k {
        OpK::AddCLc => {
            *lc += (c, &env.operands[op.lc]);
            r.add_scaled(c, &env.operand_refs[op.lc]);
        }
        OpK::SubCLc => {
            *lc -= (c, &env.operands[op.lc]);
            r.add_scaled(-c, &env.operand_refs[op.lc]);
        }
        OpK::AddLc => {
            *lc += &env.operands[op.lc];
            r.add_scaled(F::one(), &env.operand_refs[op.lc]);
        }
        OpK::SubLc => {
            *lc -= &env.operands[op.lc];
            r.add_scaled(-F::one(), &env.operand_refs[op.lc]);
        }
        OpK::AddC => {
            *lc += c;
            r.constant += c;
        }
        OpK::SubC => {
            *lc -= c;
            r.constant -= c;
        }
        OpK::MulC => {
            *lc *= c;
            r.scale(c);
        }
    }
}

fn agree(env: &Env, lc: &LinearCombination<F>, r: &RefLc) -> bool {
    env.assigns.iter().all(|a| lc_value(lc, a) == r.value(a))
}

fn opname(env: &Env, op: &Op) -> String {
    let cn = ["0", "1", "-1", "r1"][op.c];
    match op.k {
        OpK::AddCLc => format!("+=({},L{})", cn, op.lc),
        OpK::SubCLc => format!("-=({},L{})", cn, op.lc),
        OpK::AddLc => format!("+=L{}", op.lc),
        OpK::SubLc => format!("-=L{}", op.lc),
        OpK::AddC => format!("+={}", cn),
        OpK::SubC => format!("-={}", cn),
        OpK::MulC => {
            let _ = env;
            format!("*={}", cn)
        }
    }
}

fn dfs(env: &Env, rec: &mut Rec, id: &str, path: &mut Vec<usize>, lc: &LinearCombination<F>, r: &RefLc, left: usize, bad: &mut Option<String>) {
    if left == 0 {
        return;
    }
    for (oi, op) in env.ops.iter().enumerate() {
        let mut lc2 = lc.clone();
        let mut r2 = r.clone();
        apply(env, op, &mut lc2, &mut r2);
        rec.count_points(1);
        path.push(oi);
        if !agree(env, &lc2, &r2) {
            rec.class("lc-node-bad");
            if bad.is_none() {
                *bad = Some(path.iter().map(|i| opname(env, &env.ops[*i])).collect::<Vec<_>>().join(" ; "));
            }
        } else {
            rec.class("lc-node-ok");
        }
        dfs(env, rec, id, path, &lc2, &r2, left - 1, bad);
        path.pop();
    }
}

pub fn lc_ops(rec: &mut Rec, depth: usize) {
    let r1 = rho::<F>(rec.seed, 1);
    let lc_a = LinearCombination::<F>::new("A", vec![(F::from(2u64), LCTerm::PolyLabel("p0".into())), (F::from(3u64), LCTerm::One), (-F::one(), LCTerm::PolyLabel("p0".into())), (r1, LCTerm::PolyLabel("p1".into()))]);
    let lc_b = LinearCombination::<F>::new("B", vec![(F::one(), LCTerm::PolyLabel("p2".into())), (F::from(5u64), LCTerm::One)]);
    let mut a1 = BTreeMap::new();
    let mut a2 = BTreeMap::new();
    let mut a3 = BTreeMap::new();
    for (i, l) in ["p0", "p1", "p2"].iter().enumerate() {
        a1.insert(l.to_string(), rho::<F>(rec.seed, 2 + i));
        a2.insert(l.to_string(), [F::zero(), F::one(), -F::one()][i]);
        a3.insert(l.to_string(), F::one());
    }
    let env = Env {
        cs: vec![F::zero(), F::one(), -F::one(), r1],
        operand_refs: vec![RefLc::from(&lc_a), RefLc::from(&lc_b)],
        operands: vec![lc_a.clone(), lc_b.clone()],
        assigns: vec![a1, a2, a3],
        ops: all_ops(),
    };
    let starts: Vec<(&str, LinearCombination<F>)> = vec![
        ("empty", LinearCombination::<F>::empty("S")),
        ("three-terms", LinearCombination::<F>::new("S", vec![(r1, LCTerm::PolyLabel("p0".into())), (F::one(), LCTerm::One), (-F::one(), LCTerm::PolyLabel("p2".into()))])),
    ];
    rec.scope(format!("LC operators: {} operations, all sequences to depth {} from 2 start combinations, invariant at every node for 3 assignments", env.ops.len(), depth));
    for (sn, start) in starts.iter() {
        // shard units: the first two operations
        for o1 in 0..env.ops.len() {
            for o2 in 0..env.ops.len() {
                let id = format!("LC/start={}/{};{}", sn, opname(&env, &env.ops[o1]), opname(&env, &env.ops[o2]));
                if !rec.take(&id) {
                    continue;
                }
                rec.dim("family", "lc-ops");
                let mut lc = start.clone();
                let mut r = RefLc::from(start);
                let mut bad: Option<String> = None;
                let mut path = vec![];
                for oi in [o1, o2] {
                    apply(&env, &env.ops[oi], &mut lc, &mut r);
                    path.push(oi);
                    // depth-1 nodes are counted by the unit whose second operation is the first one
                    if path.len() == 2 || o2 == 0 {
                        rec.count_points(1);
                        if !agree(&env, &lc, &r) {
                            rec.class("lc-node-bad");
                            if bad.is_none() {
                                bad = Some(path.iter().map(|i| opname(&env, &env.ops[*i])).collect::<Vec<_>>().join(" ; "));
                            }
                        } else {
                            rec.class("lc-node-ok");
                        }
                    }
                }
                dfs(&env, rec, &id, &mut path, &lc, &r, depth - 2, &mut bad);
                rec.op(1);
                rec.obs(&format!("lc|{}|{:?}|{:?}|{}", sn, env.ops[o1].k, env.ops[o2].k, bad.is_none()));
                if let Some(b) = bad {
                    rec.violation("C16/LC/operators/value-differs", &id, format!("value of the combination differs from the reference arithmetic after: {}", b));
                }
                if o1 == 0 && o2 == 0 {
                    rec.sample("lc-ops", id.clone());
                }
            }
        }
        // deviation-bounded sweep at depth 12: a fixed base sequence with <= 2 positions replaced
        let base: Vec<usize> = (0..12).map(|i| (i * 7 + 3) % env.ops.len()).collect();
        let n = env.ops.len();
        for p1 in 0..12usize {
            let id = format!("LC/start={}/depth12/deviate@{}", sn, p1);
            if !rec.take(&id) {
                continue;
            }
            rec.dim("family", "lc-ops");
            let mut bad: Option<String> = None;
            for p2 in p1..12usize {
                for a in 0..n {
                    for b in 0..(if p2 == p1 { 1 } else { n }) {
                        let mut seq = base.clone();
                        seq[p1] = a;
                        if p2 != p1 {
                            seq[p2] = b;
                        }
                        let mut lc = start.clone();
                        let mut r = RefLc::from(start);
                        for oi in seq.iter() {
                            apply(&env, &env.ops[*oi], &mut lc, &mut r);
                        }
                        rec.count_points(1);
                        if !agree(&env, &lc, &r) {
                            rec.class("lc-node-bad");
                            if bad.is_none() {
                                bad = Some(seq.iter().map(|i| opname(&env, &env.ops[*i])).collect::<Vec<_>>().join(" ; "));
                            }
                        } else {
                            rec.class("lc-node-ok");
                        }
                    }
                }
            }
            rec.op(1);
            if let Some(b) = bad {
                rec.violation("C16/LC/operators/value-differs", &id, format!("value differs after the length-12 sequence: {}", b));
            }
        }
    }
}

pub fn query_sets(rec: &mut Rec) {
    let r = rho_stream::<F>(rec.seed, 30, 12);
    let polys: Vec<LabeledPolynomial<F, UP<F>>> = vec![
        LabeledPolynomial::new("p0".into(), UP::<F>::from_coefficients_slice(&r[..4]), None, None),
        LabeledPolynomial::new("p1".into(), UP::<F>::from_coefficients_slice(&r[4..6]), Some(3), Some(1)),
        LabeledPolynomial::new("p2".into(), UP::<F>::from_coefficients_slice(&[]), None, None),
    ];
    let z1 = rho::<F>(rec.seed, 1);
    let z2 = rho::<F>(rec.seed, 2);
    let labels = [("a", z1), ("b", z1), ("c", z2)];
    let mut all = Vec::new();
    for p in polys.iter() {
        for (l, z) in labels.iter() {
            all.push((p.label().clone(), (l.to_string(), *z)));
        }
    }
    for mask in 1u32..(1 << all.len()) {
        let id = format!("EQS/q={:09b}", mask);
        if !rec.take(&id) {
            continue;
        }
        rec.dim("family", "evaluate_query_set");
        rec.op(1);
        let qs: QuerySet<F> = (0..all.len()).filter(|i| mask >> i & 1 == 1).map(|i| all[i].clone()).collect();
        // listing order of the polynomials must not matter
        let mut ok = true;
        for order in [[0usize, 1, 2], [2, 0, 1]] {
            let ps: Vec<&LabeledPolynomial<F, UP<F>>> = order.iter().map(|i| &polys[*i]).collect();
            match catch(|| evaluate_query_set(ps.iter().copied(), &qs)) {
                Ok(ev) => {
                    let mut want = BTreeMap::new();
                    for (l, (_, z)) in qs.iter() {
                        let p = polys.iter().find(|p| p.label() == l).unwrap();
                        want.insert((l.clone(), *z), horner(&p.polynomial().coeffs, *z));
                    }
                    if ev != want {
                        ok = false;
                    }
                }
                Err(_) => ok = false,
            }
        }
        rec.class(if ok { "eqs-ok" } else { "eqs-bad" });
        rec.obs(&format!("eqs|{}|{}", mask.count_ones(), ok));
        if !ok {
            rec.violation("C16/evaluate_query_set/wrong-evaluations", &id, "evaluate_query_set does not return exactly the evaluations of the queried (label, point) pairs".into());
        }
    }
    rec.sample("eqs", "EQS: all 511 query sets over 3 polynomials x 3 point labels (two labels share a value)".into());
}

pub fn succinct(rec: &mut Rec, kmax: usize) {
    // zero is a legal challenge value for the public helper (the sponge never produces it, callers may)
    let alpha = [F::one(), -F::one(), rho::<F>(rec.seed, 1), F::zero()];
    let pts: Vec<F> = field_alphabet::<F>(rec.seed).into_iter().map(|(_, f)| f).collect();
    for k in 0..=kmax {
        let total = alpha.len().pow(k as u32);
        let chunk = 1024usize;
        let mut start = 0;
        while start < total {
            let end = (start + chunk).min(total);
            let lo = start;
            let id = format!("SCP/k={}/{}..{}", k, start, end);
            start = end;
            if !rec.take(&id) {
                continue;
            }
            rec.dim("family", "succinct-check-polynomial");
            let mut bad: Option<String> = None;
            for code in lo..end {
                let mut c = code;
                let mut ch = Vec::new();
                for _ in 0..k {
                    ch.push(alpha[c % alpha.len()]);
                    c /= alpha.len();
                }
                let scp = SuccinctCheckPolynomial::<F>(ch.clone());
                let coeffs = scp.compute_coeffs();
                rec.count_points(1);
                rec.op(1 + pts.len() as u64);
                let mut ok = coeffs.len() == 1 << k && coeffs == check_poly_coeffs(&ch);
                for z in pts.iter() {
                    ok &= scp.evaluate(*z) == horner(&coeffs, *z);
                }
                rec.class(if ok { "scp-ok" } else { "scp-bad" });
                if !ok && bad.is_none() {
                    bad = Some(format!("challenge vector code {} (base 4 over {{1,-1,r1,0}}, first challenge = lowest digit)", code));
                }
            }
            rec.obs(&format!("scp|{}|{}", k, bad.is_none()));
            if let Some(b) = bad {
                rec.violation("C16/SuccinctCheckPolynomial/evaluate-vs-coefficients", &id, format!("evaluate(z) != Horner(compute_coeffs(), z), or wrong coefficient vector, for {}", b));
            }
        }
    }
    rec.sample("scp", format!("SCP: every challenge vector in {{1,-1,r1,0}}^k, k = 0..{}, at 7 points", kmax));
}


/// Long challenge lists (k = 8..12, 14 in the thorough tier: 2^k coefficients) with a few structured challenge vectors,
/// computed on the calling thread and inside private rayon pools of 2..16 threads: sizes at which an implementation may
/// switch to a chunked / parallel expansion, and pool sizes that are not powers of two.
pub fn succinct_large(rec: &mut Rec, kmax: usize) {
    let pts: Vec<F> = field_alphabet::<F>(rec.seed).into_iter().map(|(_, f)| f).collect();
    let r = rho_stream::<F>(rec.seed, 77, kmax + 1);
    for k in 8..=kmax {
        for (vn, ch) in [
            ("generic", r[..k].to_vec()),
            ("alternating", (0..k).map(|i| if i % 2 == 0 { F::one() } else { -F::one() }).collect::<Vec<F>>()),
            ("with-zero", (0..k).map(|i| if i == k / 2 { F::zero() } else { r[i] }).collect::<Vec<F>>()),
        ] {
            for threads in [0usize, 2, 3, 4, 5, 6, 7, 8, 12, 16] {
                let id = format!("SCP/large/k={}/{}/threads={}", k, vn, threads);
                if !rec.take(&id) {
                    continue;
                }
                rec.dim("family", "succinct-check-polynomial");
                rec.op(2);
                let want = check_poly_coeffs(&ch);
                let scp = SuccinctCheckPolynomial::<F>(ch.clone());
                let ptsr = &pts;
                let scpr = &scp;
                let work = move || (scpr.compute_coeffs(), ptsr.iter().map(|z| scpr.evaluate(*z)).collect::<Vec<F>>());
                let (coeffs, evals) = if threads == 0 { work() } else { with_threads(threads, work) };
                let mut ok = coeffs.len() == 1 << k && coeffs == want;
                for (z, e) in pts.iter().zip(evals.iter()) {
                    ok &= *e == horner(&want, *z);
                }
                rec.class(if ok { "scp-ok" } else { "scp-bad" });
                if !ok {
                    let first = coeffs.iter().zip(want.iter()).position(|(a, b)| a != b);
                    rec.violation("C16/SuccinctCheckPolynomial/evaluate-vs-coefficients", &id, format!("k = {}, {} challenges, {}: compute_coeffs() / evaluate() differ from the naive expansion (first differing coefficient: {:?}, length {})", k, vn, if threads == 0 { "calling thread".to_string() } else { format!("pool of {} threads", threads) }, first, coeffs.len()));
                }
            }
        }
    }
}

pub fn run(rec: &mut Rec) {
    let t = rec.thorough();
    lc_ops(rec, if t { 5 } else { 4 });
    query_sets(rec);
    succinct(rec, if t { 9 } else { 7 });
    succinct_large(rec, if t { 14 } else { 12 });
}
