//! C19 — succinctness: commitment and proof sizes follow each scheme's law.
use crate::alpha::*;
use crate::mirror::*;
use crate::rec::Rec;
use crate::refm::*;
use crate::sch::*;
use crate::schemes::*;
use crate::special::*;
use crate::tr::*;
use crate::util::*;
use ark_ec::pairing::Pairing;
use ark_ec::AffineRepr;
use ark_ff::{One, Zero};
use ark_poly::{DenseUVPolynomial, Polynomial};
use ark_poly_commit::linear_codes::LinCodeParametersInfo;
use ark_poly_commit::QuerySet;
use ark_serialize::{CanonicalSerialize, Compress};
use std::collections::BTreeMap;

fn sz<T: CanonicalSerialize>(x: &T) -> (usize, usize) {
    let mut b = Vec::new();
    x.serialize_with_mode(&mut b, Compress::Yes).unwrap();
    (b.len(), x.serialized_size(Compress::Yes))
}

fn viol(rec: &mut Rec, sch: &str, what: &str, id: &str, detail: String) {
    rec.violation(&format!("C19/{}/{}", sch, what), id, detail);
}

const G1_381: usize = 48;
const G2_381: usize = 96;
const FR: usize = 32;
const GJUB: usize = 32;

/// Size law of a scheme: expected commitment size and expected per-point-label proof size.
pub trait SizeLaw: Sch {
    fn commitment_size(cfg: &KeyCfg, p: &LP<Self>) -> usize;
    /// proof for one point label at which `polys` are opened
    fn proof_size(cfg: &KeyCfg, polys: &[&LP<Self>]) -> usize;
}

impl SizeLaw for SMar {
    fn commitment_size(_cfg: &KeyCfg, p: &LP<Self>) -> usize {
        G1_381 + 1 + if p.degree_bound().is_some() { G1_381 } else { 0 }
    }
    fn proof_size(_cfg: &KeyCfg, polys: &[&LP<Self>]) -> usize {
        G1_381 + 1 + if polys.iter().any(|p| p.hiding_bound().is_some()) { FR } else { 0 }
    }
}
impl SizeLaw for SSon {
    fn commitment_size(_cfg: &KeyCfg, _p: &LP<Self>) -> usize {
        G1_381
    }
    fn proof_size(_cfg: &KeyCfg, polys: &[&LP<Self>]) -> usize {
        G1_381 + 1 + if polys.iter().any(|p| p.hiding_bound().is_some()) { FR } else { 0 }
    }
}
impl SizeLaw for SPst {
    fn commitment_size(_cfg: &KeyCfg, _p: &LP<Self>) -> usize {
        G1_381 + 1
    }
    fn proof_size(cfg: &KeyCfg, polys: &[&LP<Self>]) -> usize {
        8 + cfg.nv.unwrap() * G1_381 + 1 + if polys.iter().any(|p| p.hiding_bound().is_some()) { FR } else { 0 }
    }
}
impl SizeLaw for SIpa {
    fn commitment_size(_cfg: &KeyCfg, p: &LP<Self>) -> usize {
        GJUB + 1 + if p.degree_bound().is_some() { GJUB } else { 0 }
    }
    fn proof_size(cfg: &KeyCfg, polys: &[&LP<Self>]) -> usize {
        let n = (cfg.sup + 1).next_power_of_two();
        let k = n.trailing_zeros() as usize;
        let hid = polys.iter().any(|p| p.hiding_bound().is_some());
        2 * (8 + k * GJUB) + GJUB + FR + 1 + 1 + if hid { GJUB + FR } else { 0 }
    }
}
impl SizeLaw for SHyr {
    fn commitment_size(cfg: &KeyCfg, _p: &LP<Self>) -> usize {
        8 + (1usize << (cfg.nv.unwrap() / 2)) * GJUB
    }
    fn proof_size(cfg: &KeyCfg, polys: &[&LP<Self>]) -> usize {
        let dim = 1usize << (cfg.nv.unwrap() / 2);
        8 + polys.len() * (3 * GJUB + 8 + dim * FR + 3 * FR)
    }
}

pub fn group_scheme<S: SizeLaw>(rec: &mut Rec, cfgs: Vec<KeyCfg>) {
    for cfg in cfgs {
        let id = format!("{}/size/{}", S::NAME, cfg.id());
        if !rec.take(&id) {
            continue;
        }
        rec.dim("scheme", S::NAME);
        let keys = match build_keys::<S>(&cfg, rec.seed) {
            Ok(k) => k,
            Err(_) => continue,
        };
        let shapes = crate::source::shapes_short::<S>(&cfg, rec.seed);
        let dense = shapes.iter().rev().find(|(n, _)| n.starts_with("dense")).unwrap().1.clone();
        let other = shapes[shapes.len() / 2].1.clone();
        let bound = if S::BOUNDS {
            if S::NAME == "IPA" {
                Some((cfg.sup + 1).next_power_of_two() - 1)
            } else {
                cfg.bounds.as_ref().and_then(|b| b.iter().copied().max())
            }
        } else {
            None
        };
        let hid = if S::HIDING { Some(1) } else { None };
        let polys = vec![lp::<S>("p0", dense.clone(), None, None), lp::<S>("p1", other, bound, hid), lp::<S>("p2", dense, bound, None)];
        let c = match commit_set::<S>(&keys, polys, rec.seed, 0) {
            Ok(c) => c,
            Err(o) => {
                viol(rec, S::NAME, "commit/in-domain", &id, format!("commit failed: {}", o.short()));
                continue;
            }
        };
        let mut ok = true;
        for (p, cm) in c.polys.iter().zip(c.comms.iter()) {
            let (bytes, reported) = sz(cm.commitment());
            let want = S::commitment_size(&cfg, p);
            rec.count_points(1);
            rec.op(1);
            if bytes != want || reported != bytes {
                ok = false;
                viol(rec, S::NAME, "commitment-size", &id, format!("commitment of {} has {} bytes (serialized_size {}), the scheme's law gives {}", p.label(), bytes, reported, want));
            }
        }
        let pts = S::points(&cfg, rec.seed);
        // every polynomial shape on its own: the size law does not depend on the content of the polynomial
        // (zero, constant, polynomials that do not use all variables, sparse and dense ones)
        for (sname, sp) in shapes.iter() {
            // every (degree bound, hiding) setting the key serves
            let settings: Vec<(Option<usize>, Option<usize>)> = vec![(None, None), (None, hid), (bound, None), (bound, hid)];
            let mut seen: Vec<(Option<usize>, Option<usize>)> = Vec::new();
            for (bd, h) in settings {
                if h.is_some() && !S::HIDING {
                    continue;
                }
                if let Some(d) = bd {
                    if S::degree(sp) > d {
                        continue;
                    }
                }
                if seen.contains(&(bd, h)) {
                    continue;
                }
                seen.push((bd, h));
                let one = lp::<S>("s", sp.clone(), bd, h);
                let cs = match commit_set::<S>(&keys, vec![one], rec.seed, 0) {
                    Ok(c) => c,
                    Err(_) => continue,
                };
                if let Ok(s1) = open_single::<S>(&keys, &cs, &[0], &pts[0].1, 0, rec.seed, 0) {
                    rec.count_points(1);
                    rec.op(2);
                    let bp: BPf<S> = vec![s1.proof.clone()].into();
                    let (bytes, reported) = sz(&bp);
                    let want = 8 + S::proof_size(&cfg, &[&cs.polys[0]]);
                    rec.obs(&format!("{}|shape|{}|{}", S::NAME, sname.split(|c| c == '(' || c == '[').next().unwrap(), bytes == want));
                    if bytes != want || reported != bytes {
                        ok = false;
                        viol(rec, S::NAME, "proof-size", &id, format!("proof for the single polynomial '{}' (degree bound {:?}, hiding {:?}) has {} bytes (serialized_size {}), the scheme's law gives {}", sname, bd, h, bytes, reported, want));
                    }
                }
            }
        }
        for m in 1..=3usize {
            for k in 1..=3usize.min(pts.len()) {
                let mut qs = QuerySet::<S::Pt>::new();
                for j in 0..k {
                    for i in 0..m {
                        // a staircase: label j opens the first m - (j % m) polynomials
                        if i < m - (j % m) {
                            qs.insert((c.polys[i].label().clone(), (format!("z{}", j), pts[j].1.clone())));
                        }
                    }
                }
                let b = match open_batch::<S>(&keys, &c, &[0, 1, 2], &qs, 0, rec.seed, 0) {
                    Ok(b) => b,
                    Err(o) => {
                        viol(rec, S::NAME, "batch_open/in-domain", &id, format!("batch_open failed: {}", o.short()));
                        continue;
                    }
                };
                rec.count_points(1);
                rec.op(1);
                let (bytes, reported) = sz(&b.proof);
                let mut want = 8;
                for j in 0..k {
                    let ps: Vec<&LP<S>> = (0..m).filter(|i| *i < m - (j % m)).map(|i| &c.polys[i]).collect();
                    want += S::proof_size(&cfg, &ps);
                }
                rec.obs(&format!("{}|{}|{}|{}", S::NAME, m, k, bytes == want));
                if bytes != want || reported != bytes {
                    ok = false;
                    viol(rec, S::NAME, "proof-size", &id, format!("batch proof for {} polynomials at {} points has {} bytes (serialized_size {}), the scheme's law gives {}", m, k, bytes, reported, want));
                }
            }
        }
        // combination proofs (schemes with their own open_combinations): a combination proof is a batch proof over
        // the combinations' point labels plus an absent evaluation list; a combination of non-hiding polynomials
        // carries no blinding, one with a hiding term does
        if !S::DEFAULT_BATCH {
            use ark_poly_commit::{LCTerm, LinearCombination};
            let r2 = rho::<S::F>(rec.seed, 2);
            let mut l0 = LinearCombination::<S::F>::empty("L0");
            l0.push((S::F::one(), LCTerm::PolyLabel("p0".into())));
            let mut l1 = LinearCombination::<S::F>::empty("L1");
            l1.push((r2, LCTerm::PolyLabel("p0".into())));
            l1.push((S::F::one(), LCTerm::One));
            let mut l2 = LinearCombination::<S::F>::empty("L2");
            l2.push((S::F::one(), LCTerm::PolyLabel("p1".into())));
            for variant in 0..3usize {
                let lcs: Vec<LinearCombination<S::F>> = match variant {
                    0 => vec![l0.clone(), l1.clone()],
                    1 => vec![l0.clone(), l1.clone(), l2.clone()],
                    _ => vec![l2.clone()],
                };
                let mut qs = QuerySet::<S::Pt>::new();
                let mut want = 8 + 1;
                let (polys, comms, states) = c.refs();
                match variant {
                    0 => {
                        qs.insert(("L0".into(), ("z0".into(), pts[0].1.clone())));
                        qs.insert(("L1".into(), ("z0".into(), pts[0].1.clone())));
                        qs.insert(("L1".into(), ("z1".into(), pts[1].1.clone())));
                        want += 2 * S::proof_size(&cfg, &[&c.polys[0]]);
                    }
                    1 => {
                        qs.insert(("L0".into(), ("z0".into(), pts[0].1.clone())));
                        qs.insert(("L1".into(), ("z0".into(), pts[0].1.clone())));
                        qs.insert(("L2".into(), ("z1".into(), pts[1].1.clone())));
                        want += S::proof_size(&cfg, &[&c.polys[0]]) + S::proof_size(&cfg, &[&c.polys[1]]);
                    }
                    _ => {
                        qs.insert(("L2".into(), ("z0".into(), pts[0].1.clone())));
                        want += S::proof_size(&cfg, &[&c.polys[1]]);
                    }
                }
                let mut sponge = sponge_pre::<S::F>(0);
                let mut rng = seed_rng(rec.seed, 20);
                match do_open_comb::<S>(&keys.ck, &lcs, &polys, &comms, &qs, &mut sponge, &states, Some(&mut rng as &mut dyn ark_std::rand::RngCore)) {
                    Ok(pf) => {
                        rec.count_points(1);
                        rec.op(1);
                        let (bytes, reported) = sz(&pf);
                        rec.obs(&format!("{}|lc|{}|{}", S::NAME, variant, bytes == want));
                        if bytes != want || reported != bytes {
                            ok = false;
                            viol(rec, S::NAME, "proof-size", &id, format!("combination proof (variant {}: {} combinations) has {} bytes (serialized_size {}), the scheme's law gives {}", variant, lcs.len(), bytes, reported, want));
                        }
                    }
                    Err(o) => viol(rec, S::NAME, "open_combinations/in-domain", &id, format!("open_combinations failed: {}", o.short())),
                }
            }
        }
        rec.class(if ok { "size-law-holds" } else { "size-law-broken" });
        rec.sample(&format!("{}-size", S::NAME), id.clone());
    }
}

/// size of a serialized Merkle path for a tree over `n_ext` leaves (padded to a power of two)
fn path_size(n_ext: usize) -> usize {
    let h = n_ext.next_power_of_two().trailing_zeros() as usize; // tree height in edges
    (8 + 32) + 8 + h.saturating_sub(1) * (8 + 32) + 8
}

/// model(n_rows) = |F| n_cols (1 + wf) + t (|F| n_rows + path(n_ext)), minimised over power-of-two row counts
fn best_model(len: usize, rate: (usize, usize), sec: usize, dist: (usize, usize), wf: bool, pow2_ext: bool) -> usize {
    let q = modulus_of::<Fr381>();
    let mut best = usize::MAX;
    let mut n_rows = 1usize;
    while n_rows <= len.max(1).next_power_of_two() {
        let n_cols = (len + n_rows - 1) / n_rows;
        let mut n_ext = (n_cols * rate.0 + rate.1 - 1) / rate.1;
        if pow2_ext {
            n_ext = n_ext.next_power_of_two();
        }
        if let Some(t) = ref_t(&q, sec, dist, n_ext) {
            // only shapes in the regime the law speaks about: fewer column openings than codeword symbols
            if t >= n_ext {
                n_rows *= 2;
                continue;
            }
            let m = 8 + FR * n_cols * if wf { 2 } else { 1 } + 8 + t * (8 + FR * n_rows + path_size(n_ext));
            best = best.min(m);
        }
        n_rows *= 2;
    }
    best
}

pub fn hash_scheme<S: Sch<F = Fr381>>(rec: &mut Rec, thorough: bool)
where
    CK<S>: LinCodeParametersInfo<MT, ColH<Fr381>>,
{
    let sizes: Vec<usize> = if S::FAM == Fam::Uni {
        // degrees 2^k (an odd number of coefficients) and 2^k - 1 (a power of two)
        (1..=if thorough { 16 } else { 15 }).flat_map(|k| [(1usize << k) - 1, 1usize << k]).filter(|d| *d >= 2).collect()
    } else {
        (2..=if thorough { 16 } else { 13 }).collect()
    };
    // the last ones: keys WITHOUT the well-formedness check at a low security level (few column openings: the sqrt regime starts early)
    let lcs: Vec<Option<(usize, usize, bool)>> = if S::NAME == "BRK" { vec![None, Some((128, 2, false))] } else { vec![None, Some((80, 4, true)), Some((128, 8, false)), Some((40, 2, false)), Some((40, 2, true))] };
    let mut comm_sizes: Vec<usize> = Vec::new();
    for (s, lc) in sizes.iter().flat_map(|s| lcs.iter().map(move |l| (*s, *l))) {
        let id = format!("{}/size/N={}/lc={:?}", S::NAME, if S::FAM == Fam::Uni { s } else { 1 << s }, lc);
        // every worker walks the ladder (commitment-size constancy is judged across it) but only the owner reports
        let mine = rec.take(&id);
        if !mine && comm_sizes.len() >= 2 {
            continue;
        }
        let mut cfg = if S::FAM == Fam::Uni { KeyCfg::uni(s, s, 1, None) } else { KeyCfg::ml(s) };
        cfg.lc = lc;
        let keys = match build_keys::<S>(&cfg, rec.seed) {
            Ok(k) => k,
            Err(_) => continue,
        };
        let p = if S::FAM == Fam::Uni {
            dense_uni::<S>(s, rec.seed)
        } else {
            S::shapes(&cfg, rec.seed).into_iter().rev().find(|(n, _)| n.starts_with("dense")).map(|x| x.1)
        };
        let p = match p {
            Some(p) => p,
            None => continue,
        };
        let z = S::points(&cfg, rec.seed)[0].1.clone();
        let c = match commit_set::<S>(&keys, vec![lp::<S>("p", p, None, None)], rec.seed, 0) {
            Ok(c) => c,
            Err(_) => continue,
        };
        let (cb, cr) = sz(c.comms[0].commitment());
        comm_sizes.push(cb);
        if !mine {
            continue;
        }
        rec.dim("scheme", S::NAME);
        rec.op(2);
        let mut ok = cb == cr && cb == 3 * 8 + 8 + 32;
        if !ok {
            viol(rec, S::NAME, "commitment-size", &id, format!("commitment has {} bytes (serialized_size {}), expected the constant {}", cb, cr, 3 * 8 + 8 + 32));
        }
        if let Ok(s1) = open_single::<S>(&keys, &c, &[0], &z, 0, rec.seed, 0) {
            let bp: BPf<S> = vec![s1.proof.clone()].into();
            let (pb, pr) = sz(&bp);
            let len = if S::FAM == Fam::Uni { s + 1 } else { 1 << s };
            let dist = keys.ck.distance();
            let (rate, pow2) = if S::NAME == "BRK" { ((1521, 1000), false) } else { ((dist.1, 1), true) };
            let best = best_model(len, rate, keys.ck.sec_param(), dist, keys.ck.check_well_formedness(), pow2) + 16;
            rec.obs(&format!("{}|N={}|ratio={}", S::NAME, len, pb * 10 / best.max(1)));
            if pb != pr {
                ok = false;
                viol(rec, S::NAME, "proof-size", &id, format!("proof has {} bytes but serialized_size reports {}", pb, pr));
            }
            // the square-root law is stated for the regime where the required number of column openings is
            // below the codeword length; below it every shape opens the whole codeword
            let cmm: MComm = convert(c.comms[0].commitment());
            let q = modulus_of::<Fr381>();
            let t_lib = ref_t(&q, keys.ck.sec_param(), dist, cmm.metadata.n_ext_cols).unwrap_or(usize::MAX);
            let in_regime = t_lib < cmm.metadata.n_ext_cols;
            rec.class(if in_regime { "sqrt-regime" } else { "capped-regime" });
            if in_regime && pb > 4 * best {
                ok = false;
                viol(rec, S::NAME, "proof-size", &id, format!("proof has {} bytes, more than 4x the best coefficient-matrix shape for this code and security level ({} bytes)", pb, best));
            }
            // in every regime: a proof never opens more columns than the codeword has
            let md = &cmm.metadata;
            let mps: Vec<Vec<MProof<Fr381>>> = convert(&bp);
            let opened = mps.iter().flatten().map(|m| m.opening.columns.len().max(m.opening.paths.len())).max().unwrap_or(0);
            if opened > md.n_ext_cols {
                ok = false;
                viol(rec, S::NAME, "proof-size", &id, format!("proof of {} bytes opens {} columns of a {}-symbol codeword ({}x{} coefficient matrix)", pb, opened, md.n_ext_cols, md.n_rows, md.n_cols));
            }
            rec.sample(&format!("{}-size", S::NAME), format!("{}: commitment {} B, proof {} B, best-shape model {} B", id, cb, pb, best));
        }
        rec.class(if ok { "size-law-holds" } else { "size-law-broken" });
    }
}


/// Univariate Ligero: several polynomials of different sizes in ONE commit call.  The proof for a member has the size it
/// has when the polynomial is committed on its own (sizes are a function of the opened polynomial, not of its
/// neighbours in the call), for every ordered pair of five sizes, opened member first / second.
pub fn lig_one_call_sizes(rec: &mut Rec) {
    type S = SLig;
    let cfg = KeyCfg::uni(1 << 20, 1 << 20, 1, None);
    let degs = [3usize, 255, 1000, 4095, 16383];
    let keys = match build_keys::<S>(&cfg, rec.seed) {
        Ok(k) => k,
        Err(_) => return,
    };
    let z = <S as Sch>::points(&cfg, rec.seed)[0].1.clone();
    let mut alone: BTreeMap<usize, usize> = BTreeMap::new();
    for i in 0..degs.len() {
        for j in 0..degs.len() {
            if i == j {
                continue;
            }
            let id = format!("LIG/size/one-call/degrees=[{},{}]", degs[i], degs[j]);
            if !rec.take(&id) {
                continue;
            }
            rec.dim("scheme", "LIG");
            rec.op(4);
            let mk = |d: usize, l: &str| lp::<S>(l, dense_uni::<S>(d, rec.seed).unwrap(), None, None);
            for d in [degs[i], degs[j]] {
                if !alone.contains_key(&d) {
                    if let Ok(c) = commit_set::<S>(&keys, vec![mk(d, "p")], rec.seed, 0) {
                        if let Ok(s1) = open_single::<S>(&keys, &c, &[0], &z, 0, rec.seed, 0) {
                            let bp: BPf<S> = vec![s1.proof.clone()].into();
                            alone.insert(d, sz(&bp).0);
                        }
                    }
                }
            }
            let c = match commit_set::<S>(&keys, vec![mk(degs[i], "a"), mk(degs[j], "b")], rec.seed, 0) {
                Ok(c) => c,
                Err(o) => {
                    viol(rec, "LIG", "commit/in-domain", &id, format!("commit failed: {}", o.short()));
                    continue;
                }
            };
            let mut ok = true;
            for (k, d) in [(0usize, degs[i]), (1, degs[j])] {
                if let Ok(s1) = open_single::<S>(&keys, &c, &[k], &z, 0, rec.seed, 0) {
                    let bp: BPf<S> = vec![s1.proof.clone()].into();
                    let got = sz(&bp).0;
                    if Some(&got) != alone.get(&d) {
                        ok = false;
                        viol(rec, "LIG", "proof-size", &id, format!("the proof for the degree-{} member of a call over degrees [{},{}] has {} bytes; committed on its own the same polynomial gets a proof of {:?} bytes", d, degs[i], degs[j], got, alone.get(&d)));
                    }
                }
            }
            rec.class(if ok { "size-law-holds" } else { "size-law-broken" });
        }
    }
}


/// Ligero sizes inside private rayon pools: commitment and proof of a polynomial have the size (and the matrix shape)
/// they have on the calling thread, whatever the size of the pool the commit / open calls run in (2, 16 and 256
/// threads; 1024, 4096 and 16384 coefficients), and stay within 4x of the best shape.
pub fn lig_pool_sizes(rec: &mut Rec) {
    type S = SLig;
    let cfg = KeyCfg::uni(1 << 20, 1 << 20, 1, None);
    let keys = match build_keys::<S>(&cfg, rec.seed) {
        Ok(k) => k,
        Err(_) => return,
    };
    let z = <S as Sch>::points(&cfg, rec.seed)[0].1.clone();
    for n in [1024usize, 4096, 16384] {
        for threads in [2usize, 16, 256] {
            let id = format!("LIG/size/pool/N={}/threads={}", n, threads);
            if !rec.take(&id) {
                continue;
            }
            rec.dim("scheme", "LIG");
            rec.op(4);
            let p = dense_uni::<S>(n - 1, rec.seed).unwrap();
            let seed = rec.seed;
            let (kr, zr) = (&keys, &z);
            let work = move || -> Option<(usize, MMeta)> {
                let c = commit_set::<S>(kr, vec![lp::<S>("p", p, None, None)], seed, 0).ok()?;
                let s1 = open_single::<S>(kr, &c, &[0], zr, 0, seed, 0).ok()?;
                let bp: BPf<S> = vec![s1.proof.clone()].into();
                let cm: MComm = convert(c.comms[0].commitment());
                Some((sz(&bp).0, cm.metadata))
            };
            let alone = {
                let w = work.clone();
                w()
            };
            let inpool = with_threads(threads, work);
            let ok = match (&alone, &inpool) {
                (Some((a, ma)), Some((b, mb))) => a == b && ma.n_rows == mb.n_rows && ma.n_cols == mb.n_cols,
                _ => false,
            };
            rec.class(if ok { "size-law-holds" } else { "size-law-broken" });
            if !ok {
                viol(rec, "LIG", "proof-size", &id, format!("{} coefficients: proof size / matrix shape on the calling thread {:?}, inside a pool of {} threads {:?}", n, alone.as_ref().map(|x| (x.0, x.1.n_rows, x.1.n_cols)), threads, inpool.as_ref().map(|x| (x.0, x.1.n_rows, x.1.n_cols))));
            }
        }
    }
}

/// a dense univariate polynomial of the given degree for the (only) univariate hash-based adapter
fn dense_uni<S: Sch<F = Fr381>>(deg: usize, seed: u64) -> Option<S::P> {
    let r = rho_stream::<Fr381>(seed, 9, deg + 1);
    let p = UP::<Fr381>::from_coefficients_vec(r);
    let b: Box<dyn core::any::Any> = Box::new(p);
    b.downcast::<S::P>().ok().map(|x| *x)
}

pub fn special(rec: &mut Rec) {
    let id = "special/size".to_string();
    if !rec.take(&id) {
        return;
    }
    rec.dim("scheme", "special");
    let r = rho_stream::<Fr381>(rec.seed, 1, 260);
    let mut ok = true;
    // KZG10 direct
    let pp = kzg_setup(256, false, rec.seed, 0);
    for k in 1..=8usize {
        let deg = 1usize << k;
        let p = UP::<Fr381>::from_coefficients_slice(&r[..=deg]);
        for h in [None, Some(1usize)] {
            let powers = kzg_powers(&pp, deg + 1, 3);
            let mut rng = seed_rng(rec.seed, 0);
            if let Ok((c, st)) = Kzg::commit(&powers, &p, h, Some(&mut rng as &mut dyn ark_std::rand::RngCore)) {
                if let Ok(pf) = Kzg::open(&powers, &p, r[0], &st) {
                    rec.count_points(1);
                    let (cb, cr) = sz(&c);
                    let (pb, pr) = sz(&pf);
                    let want = G1_381 + 1 + if h.is_some() { FR } else { 0 };
                    if cb != G1_381 || cr != cb || pb != want || pr != pb {
                        ok = false;
                        viol(rec, "KZG", "size", &id, format!("degree {}, hiding {:?}: commitment {} B, proof {} B; expected {} and {}", deg, h, cb, pb, G1_381, want));
                    }
                }
            }
        }
    }
    // MultilinearPC: one G2 element per variable
    for nv in 1..=8usize {
        let mut rng = seed_rng(rec.seed, 10);
        let mpp = Mlp::setup(nv, &mut rng);
        let (ck, _vk) = Mlp::trim(&mpp, nv);
        let p = crate::sch::ml_shapes::<Fr381>(nv, rec.seed).pop().unwrap().1;
        let z = crate::sch::ml_points::<Fr381>(nv, rec.seed)[0].1.clone();
        let c = Mlp::commit(&ck, &p);
        let pf = Mlp::open(&ck, &p, &z);
        rec.count_points(1);
        let (cb, cr) = sz(&c);
        let (pb, pr) = sz(&pf);
        if cb != 8 + G1_381 || cr != cb || pb != 8 + nv * G2_381 || pr != pb {
            ok = false;
            viol(rec, "MLP", "size", &id, format!("{} variables: commitment {} B, proof {} B; expected {} and {}", nv, cb, pb, 8 + G1_381, 8 + nv * G2_381));
        }
    }
    // streaming: one G1 each, whatever the degree
    let ck = str_key(256, 2, rec.seed);
    for k in 1..=8usize {
        let deg = 1usize << k;
        let c = ck.commit(&r[..=deg]);
        let (_, pf) = ck.open(&r[..=deg], &r[0]);
        rec.count_points(1);
        let (pb, pr) = sz(&pf.0);
        if c.size_in_bytes() != G1_381 || sz(&c.verif_inner()).0 != G1_381 || pb != G1_381 || pr != pb {
            ok = false;
            viol(rec, "STR", "size", &id, format!("degree {}: commitment {} B, proof {} B; expected one G1 element each", deg, c.size_in_bytes(), pb));
        }
    }
    rec.class(if ok { "size-law-holds" } else { "size-law-broken" });
    rec.obs("special");
    rec.obs("special2");
}

/// Combination proofs of the schemes that use the trait's DEFAULT `open_combinations` (Hyrax and the linear codes): the
/// proof is a batch proof over the polynomial queries the combinations NEED - (polynomial, point) for every polynomial
/// term of a combination queried at that point - plus one evaluation per needed query.  Families: k = 2, 3, 4
/// single-polynomial combinations each at a point label of its own; the same sharing one point; two-term combinations at
/// their own points; a chain (L0 = p0, L1 = p0 + p1, L2 = p1 + p2) at three points.  The batch part must have exactly
/// the size of `batch_open` over the needed queries, and `evals` exactly their number.
pub fn default_combination_sizes<S: Sch>(rec: &mut Rec) {
    use ark_poly_commit::{LCTerm, LinearCombination};
    let cfg = crate::scope::slice_b::<S>();
    let mut keys: Option<Keys<S>> = None;
    let families: Vec<(&str, Vec<Vec<usize>>, Vec<usize>)> = vec![
        // (name, polynomial indices per combination, point index per combination)
        ("2-own-points", vec![vec![0], vec![1]], vec![0, 1]),
        ("3-own-points", vec![vec![0], vec![1], vec![2]], vec![0, 1, 2]),
        ("4-own-points", vec![vec![0], vec![1], vec![2], vec![3]], vec![0, 1, 2, 3]),
        ("4-own-points-reversed", vec![vec![3], vec![2], vec![1], vec![0]], vec![0, 1, 2, 3]),
        ("3-one-point", vec![vec![0], vec![1], vec![2]], vec![0, 0, 0]),
        ("2-pairs-own-points", vec![vec![0, 1], vec![2, 3]], vec![0, 1]),
        ("chain", vec![vec![0], vec![0, 1], vec![1, 2]], vec![0, 1, 2]),
    ];
    for (fname, members, at) in families {
        let id = format!("{}/lc-size/{}/{}", S::NAME, cfg.id(), fname);
        if !rec.take(&id) {
            continue;
        }
        if keys.is_none() {
            keys = build_keys::<S>(&cfg, rec.seed).ok();
        }
        let keys = match &keys {
            Some(k) => k,
            None => return,
        };
        rec.dim("scheme", S::NAME);
        let shapes = S::shapes(&cfg, rec.seed);
        let polys: Vec<LP<S>> = (0..4).map(|i| lp::<S>(&format!("p{}", i), shapes[shapes.len() - 1 - (i % shapes.len().min(2))].1.clone(), None, None)).collect();
        let c = match commit_set::<S>(keys, polys, rec.seed, 0) {
            Ok(c) => c,
            Err(_) => continue,
        };
        let pts = S::points(&cfg, rec.seed);
        if pts.len() < 4 {
            continue;
        }
        let mut lcs = Vec::new();
        let mut qs = QuerySet::<S::Pt>::new();
        let mut need = QuerySet::<S::Pt>::new();
        for (k, m) in members.iter().enumerate() {
            let mut l = LinearCombination::<S::F>::empty(format!("L{}", k));
            for i in m {
                l.push((S::F::one(), LCTerm::PolyLabel(format!("p{}", i))));
                need.insert((format!("p{}", i), (format!("z{}", at[k]), pts[at[k]].1.clone())));
            }
            lcs.push(l);
            qs.insert((format!("L{}", k), (format!("z{}", at[k]), pts[at[k]].1.clone())));
        }
        let (pr, cr, sr) = c.refs();
        let mut sponge = sponge_pre::<S::F>(0);
        let mut rng = seed_rng(rec.seed, 20);
        let lc_proof = do_open_comb::<S>(&keys.ck, &lcs, &pr, &cr, &qs, &mut sponge, &sr, Some(&mut rng as &mut dyn ark_std::rand::RngCore));
        let all: Vec<usize> = (0..4).collect();
        let plain = open_batch::<S>(keys, &c, &all, &need, 0, rec.seed, 0);
        rec.count_points(1);
        rec.op(2);
        match (lc_proof, plain) {
            (Ok(pf), Ok(b)) => {
                let (lb, _) = sz(&pf.proof);
                let (pb, _) = sz(&b.proof);
                let ne = pf.evals.as_ref().map(|e| e.len());
                rec.obs(&format!("{}|default-lc|{}|{}", S::NAME, fname, lb == pb));
                if lb != pb || ne != Some(need.len()) {
                    rec.class("size-law-broken");
                    viol(rec, S::NAME, "combination-proof-size", &id, format!("combination proof: batch part {} bytes and {:?} evaluations; the {} needed polynomial queries take {} bytes", lb, ne, need.len(), pb));
                } else {
                    rec.class("size-law-holds");
                }
            }
            (Err(o), _) => viol(rec, S::NAME, "open_combinations/in-domain", &id, format!("open_combinations failed: {}", o.short())),
            (_, Err(o)) => viol(rec, S::NAME, "batch_open/in-domain", &id, format!("batch_open failed: {}", o.short())),
        }
        rec.sample(&format!("{}-lc-size", S::NAME), id.clone());
    }
}

pub fn run(rec: &mut Rec) {
    let t = rec.thorough();
    let ladder: Vec<usize> = (1..=8).map(|k| 1usize << k).collect();
    let mut uni = Vec::new();
    for d in ladder.iter() {
        uni.push(KeyCfg::uni(*d, *d, 1, Some(vec![*d / 2, *d])));
        uni.push(KeyCfg::uni(*d + 3, *d - 1, 1, None));
    }
    group_scheme::<SMar>(rec, uni.clone());
    group_scheme::<SSon>(rec, uni.clone());
    let mut ipa = Vec::new();
    for d in ladder.iter() {
        for s in [*d - 1, *d, *d + 1] {
            if s >= 1 {
                ipa.push(KeyCfg::uni(300, s, 1, None));
            }
        }
    }
    // keys trimmed WITH a list of enforced bounds (IPA ignores the list; sizes must still follow the supported degree)
    for d in [4usize, 15, 16, 100] {
        ipa.push(KeyCfg::uni(300, d, 1, Some(vec![(d / 2).max(1)])));
        ipa.push(KeyCfg::uni(300, d, 1, Some(vec![1, d])));
    }
    group_scheme::<SIpa>(rec, ipa);
    let mut pst = Vec::new();
    for nv in 2..=if t { 6 } else { 5 } {
        for d in [1usize, 2, 3] {
            pst.push(KeyCfg::mv(nv, d, d));
        }
    }
    group_scheme::<SPst>(rec, pst);
    group_scheme::<SHyr>(rec, (1..=if t { 6 } else { 5 }).map(|k| KeyCfg::ml(2 * k)).collect());
    hash_scheme::<SLig>(rec, t);
    lig_one_call_sizes(rec);
    default_combination_sizes::<SHyr>(rec);
    default_combination_sizes::<SLig>(rec);
    default_combination_sizes::<SMll>(rec);
    default_combination_sizes::<SBrk>(rec);
    lig_pool_sizes(rec);
    hash_scheme::<SMll>(rec, t);
    hash_scheme::<SBrk>(rec, t);
    special(rec);
}
