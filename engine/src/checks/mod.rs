pub mod c01;
pub mod c02;
pub mod c03;
pub mod c05;
pub mod c10;
pub mod c11;
pub mod c04;
