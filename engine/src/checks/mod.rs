pub mod c01;
