//! C04 — degree bounds are enforced by committer and verifier (MAR, SON, IPA).
use crate::alpha::*;
use crate::checks::c10::RefOps;
use crate::rec::Rec;
use crate::sch::*;
use crate::schemes::*;
use crate::scope::*;
use crate::tr::*;
use crate::util::*;
use ark_ff::{Field, One, Zero};
use ark_poly::Polynomial;
use ark_poly_commit::LabeledCommitment;
use ark_std::rand::RngCore;

/// The effective key parameters: (supported degree, sorted distinct bounds the key serves or None = any in range)
pub fn eff<S: Sch>(cfg: &KeyCfg) -> (usize, Option<Vec<usize>>) {
    if S::NAME == "IPA" {
        ((cfg.sup + 1).next_power_of_two() - 1, None)
    } else {
        let mut b = cfg.bounds.clone().unwrap_or_default();
        b.sort();
        b.dedup();
        (cfg.sup, Some(b))
    }
}

/// Is (deg, bound) admissible under the key?
pub fn admissible<S: Sch>(cfg: &KeyCfg, deg: usize, bound: Option<usize>) -> bool {
    let (s, served) = eff::<S>(cfg);
    if deg > s {
        return false;
    }
    match bound {
        None => true,
        Some(d) => {
            if d < deg {
                return false;
            }
            match served {
                None => d <= s,
                Some(b) => b.contains(&d) && d <= cfg.max,
            }
        }
    }
}

fn key_cfgs<S: Sch>(dmax: usize) -> Vec<KeyCfg> {
    let mut out = Vec::new();
    if S::NAME == "IPA" {
        let mut d = 1;
        while d <= dmax.max(3) {
            out.push(KeyCfg::uni(d, d, 1, None));
            d = 2 * d + 1;
        }
        out.push(KeyCfg::uni(7, 3, 1, None));
        return out;
    }
    for d in 1..=dmax {
        for s in 1..=d {
            // Marlin serves enforced bounds up to max_degree; Sonic's trim must refuse a bound above the
            // supported degree - those lists are enumerated too and the refusal is what is expected
            for b in bound_lists(0, d, true) {
                out.push(KeyCfg::uni(d, s, 1, b));
            }
        }
    }
    out
}

pub fn admission<S: UniSch>(rec: &mut Rec, dmax: usize) {
    for cfg in key_cfgs::<S>(dmax) {
        let (s, _) = eff::<S>(&cfg);
        let r = rho_stream::<S::F>(rec.seed, 1, s + 3);
        let mut todo = Vec::new();
        for deg in 0..=(s + 1) {
            let top_d = if S::NAME == "IPA" { s + 1 } else { cfg.max + 1 };
            let mut bounds: Vec<Option<usize>> = vec![None];
            bounds.extend((0..=top_d).map(Some));
            for b in bounds {
                for h in [None, Some(1usize)] {
                    // Sonic's shifted gamma-window serves hiding bounds up to min(bound, key limit): a
                    // hiding bound above the declared degree bound is a (legitimate) hiding refusal,
                    // not a degree-bound matter
                    if S::NAME.starts_with("SON") && h.is_some() && b.map(|d| d < 1).unwrap_or(false) {
                        continue;
                    }
                    let id = format!("{}/adm/{}/deg={}/bound={:?}/h={:?}", S::NAME, cfg.id(), deg, b, h);
                    if rec.take(&id) {
                        todo.push((id, deg, b, h));
                    }
                }
            }
        }
        if todo.is_empty() {
            continue;
        }
        let keys = match build_keys::<S>(&cfg, rec.seed) {
            Ok(k) => k,
            Err(o) => {
                let above = cfg.bounds.as_ref().map(|b| b.iter().any(|d| *d > cfg.sup)).unwrap_or(false);
                if S::NAME.starts_with("SON") && above {
                    // Sonic cannot serve a bound above the supported degree: refusing at trim is the right answer
                    rec.class("trim-refused-bound-above-supported");
                    rec.count_points(1);
                } else {
                    rec.violation(&format!("C04/{}/trim/valid-config", S::NAME), &todo[0].0, format!("trim failed: {}", o.short()));
                }
                continue;
            }
        };
        // a valid committed polynomial per bound-ness, whose state is lent to inadmissible `open` calls
        for (id, deg, b, h) in todo {
            rec.dim("scheme", S::NAME);
            rec.op(2);
            let coeffs: Vec<S::F> = r[..=deg].to_vec();
            let p = uni_poly::<S>(&coeffs);
            let ok = admissible::<S>(&cfg, deg, b);
            let lpoly = lp::<S>("p", p.clone(), b, h);
            let mut rng = seed_rng(rec.seed, 0);
            let res = do_commit::<S>(&keys.ck, &[lpoly.clone()], Some(&mut rng as &mut dyn RngCore));
            rec.class(match (&res, ok) {
                (Ok(_), true) => "admitted",
                (Err(_), false) => "refused",
                (Ok(_), false) => "wrongly-admitted",
                (Err(_), true) => "wrongly-refused",
            });
            rec.obs(&format!("{}|adm|{}|{}|{}", S::NAME, ok, b.is_some(), res.is_ok()));
            let why = if deg > s { "deg>supported" } else if b.map(|d| d < deg).unwrap_or(false) { "deg>bound" } else { "bound-not-served" };
            match (&res, ok) {
                (Ok(_), false) => rec.violation(&format!("C04/{}/commit/admits/{}", S::NAME, why), &id, format!("commit succeeded although {} (deg={}, bound={:?}, supported={})", why, deg, b, s)),
                (Err(o), true) => rec.violation(&format!("C04/{}/commit/refuses-admissible", S::NAME), &id, format!("commit of an admissible polynomial failed: {}", o.short())),
                _ => {}
            }
            if !ok {
                // `open` with the inadmissible labelled polynomial and a borrowed commitment/state
                let lend_deg = deg.min(s);
                let lend_bound = if S::NAME == "IPA" { b.map(|_| s) } else { b.and_then(|_| cfg.bounds.as_ref().and_then(|bs| bs.iter().copied().filter(|d| *d >= lend_deg && *d <= cfg.max).max())) };
                if b.is_some() != lend_bound.is_some() {
                    continue;
                }
                let lend = lp::<S>("p", uni_poly::<S>(&r[..=lend_deg]), lend_bound, h);
                let mut rng = seed_rng(rec.seed, 0);
                if let Ok((cm, st)) = do_commit::<S>(&keys.ck, &[lend], Some(&mut rng as &mut dyn RngCore)) {
                    let cm0 = LabeledCommitment::new("p".to_string(), cm[0].commitment().clone(), b);
                    let mut sponge = sponge_pre::<S::F>(0);
                    let mut rng = seed_rng(rec.seed, 20);
                    let z = rho::<S::F>(rec.seed, 1);
                    let r2 = do_open::<S>(&keys.ck, &[&lpoly], &[&cm0], &pt::<S>(z), &mut sponge, &[&st[0]], Some(&mut rng as &mut dyn RngCore));
                    rec.op(1);
                    rec.count_points(1);
                    rec.class(if r2.is_ok() { "open-wrongly-admitted" } else { "open-refused" });
                    if r2.is_ok() {
                        rec.violation(&format!("C04/{}/open/admits/{}", S::NAME, why), &id, format!("open succeeded although {} (deg={}, bound={:?}, supported={})", why, deg, b, s));
                    }
                }
            }
        }
    }
}

// helpers to build univariate polynomials / points generically over the three univariate adapters
pub trait UniSch: Sch {
    fn poly(c: &[Self::F]) -> Self::P;
    fn point(z: Self::F) -> Self::Pt;
    fn scalar(p: &Self::Pt) -> Self::F;
}
macro_rules! unisch {
    ($S:ty, $F:ty) => {
        impl UniSch for $S {
            fn poly(c: &[$F]) -> Self::P {
                <UP<$F> as ark_poly::DenseUVPolynomial<$F>>::from_coefficients_slice(c)
            }
            fn point(z: $F) -> $F {
                z
            }
            fn scalar(p: &$F) -> $F {
                *p
            }
        }
    };
}
unisch!(SMar, Fr381);
unisch!(SSon, Fr381);
unisch!(SIpa, FrJ);
unisch!(SLig, Fr381);

fn uni_poly<S: UniSch>(c: &[S::F]) -> S::P {
    S::poly(c)
}

fn pt<S: UniSch>(z: S::F) -> S::Pt {
    S::point(z)
}

fn run_pair<S: RefOps>(
    rec: &mut Rec,
    id: &str,
    op: &str,
    keys: &Keys<S>,
    comms: &[&LCm<S>],
    z: &S::Pt,
    values: &[S::F],
    proof: &Pf<S>,
    degenerate_ok: &dyn Fn() -> bool,
    detail: &str,
) {
    let mut sp = sponge_pre::<S::F>(0);
    let want = catch(|| S::ref_check(&keys.vk, comms, z, values, proof, &mut sp)).unwrap_or(false);
    let got = check_single::<S>(keys, comms, z, values, proof, 0, rec.seed, 0);
    rec.count_points(1);
    rec.op(2);
    rec.obs(&format!("{}|{}|{}|{}", S::NAME, op, want, got.class()));
    if want {
        // the published relation itself accepts: allowed only on the scheme-specific degenerate set
        rec.class("degenerate");
        if !degenerate_ok() {
            rec.violation(&format!("C04/{}/check/{}/unexpected-degenerate", S::NAME, op), id, format!("{}: reference relation accepts outside the known degenerate set (library: {})", detail, got.short()));
        } else if !got.accepted() {
            rec.violation(&format!("C04/{}/check/{}/degenerate-disagree", S::NAME, op), id, format!("{}: reference relation accepts (degenerate point) but the library does not: {}", detail, got.short()));
        }
    } else {
        rec.class(&format!("presented-{}", got.class()));
        if got.accepted() {
            rec.violation(&format!("C04/{}/check/{}/accepted", S::NAME, op), id, format!("{}: {}", detail, got.short()));
        }
    }
}

pub fn mislabel<S: RefOps + UniSch>(rec: &mut Rec, dmax: usize) {
    let cfgs: Vec<KeyCfg> = if S::NAME == "IPA" {
        vec![KeyCfg::uni(7, 7, 1, None), KeyCfg::uni(3, 3, 1, None)]
    } else {
        let mut v = Vec::new();
        for d in 3..=dmax.max(3) {
            v.push(KeyCfg::uni(d, d.min(4).max(3).min(d), 1, Some((0..=d.min(4).min(if S::NAME.starts_with("MAR") { d } else { d.min(4).max(3).min(d) })).collect())));
            if d >= 4 {
                // a bound list with gaps: 1 and 2 are never enforced
                v.push(KeyCfg::uni(d, 4.min(d), 1, Some(vec![0, 3, 4.min(d)])));
            }
        }
        v
    };
    let one = S::F::one();
    for cfg in cfgs {
        let (s, served) = eff::<S>(&cfg);
        let bounds: Vec<usize> = served.unwrap_or_else(|| (0..=s).collect());
        let r = rho_stream::<S::F>(rec.seed, 1, s + 3);
        let zs: Vec<(&str, S::F)> = vec![("r1", rho::<S::F>(rec.seed, 1)), ("r2", rho::<S::F>(rec.seed, 2)), ("1", one), ("-1", -one), ("0", S::F::zero())];
        let mut todo = Vec::new();
        for deg_kind in ["zero", "const", "deg1", "deg2", "root-at-z"] {
            // the commitment is made under a trimmed bound dp and shown under ANY other bound d, trimmed or not
            // (bounds in the gaps of the trimmed list and one beyond the key's range included)
            let shown: Vec<usize> = (0..=(if S::NAME == "IPA" { s + 1 } else { cfg.max + 1 })).collect();
            for dp in bounds.iter() {
                for d in shown.iter() {
                    if d == dp {
                        continue;
                    }
                    for h in [None, Some(1usize)] {
                        for (zn, z) in zs.iter() {
                            let id = format!("{}/mislabel/{}/{}/made={}/shown={}/h={:?}/z={}", S::NAME, cfg.id(), deg_kind, dp, d, h, zn);
                            if rec.take(&id) {
                                todo.push((id, deg_kind, *dp, *d, h, *zn, *z));
                            }
                        }
                    }
                }
            }
        }
        if todo.is_empty() {
            continue;
        }
        let keys = match build_keys::<S>(&cfg, rec.seed) {
            Ok(k) => k,
            Err(_) => continue,
        };
        for (id, kind, dp, d, h, zn, z) in todo {
            let coeffs: Vec<S::F> = match kind {
                "zero" => vec![],
                "const" => vec![r[0]],
                "deg1" => vec![r[0], r[1]],
                "deg2" => vec![r[0], r[1], r[2]],
                _ => vec![-z * r[1], r[1]], // r1*(X - z): vanishes at z
            };
            let p = uni_poly::<S>(&coeffs);
            let deg = S::degree(&p);
            if deg > dp.min(d) || !admissible::<S>(&cfg, deg, Some(dp)) {
                rec.class("skipped-inadmissible");
                continue;
            }
            rec.dim("scheme", S::NAME);
            let zp = pt::<S>(z);
            let c = match commit_set::<S>(&keys, vec![lp::<S>("p", p.clone(), Some(dp), h)], rec.seed, 0) {
                Ok(c) => c,
                Err(_) => continue,
            };
            let s1 = match open_single::<S>(&keys, &c, &[0], &zp, 0, rec.seed, 0) {
                Ok(s) => s,
                Err(_) => continue,
            };
            rec.op(2);
            let v = p.evaluate(&zp);
            let shown = LabeledCommitment::new("p".to_string(), c.comms[0].commitment().clone(), Some(d));
            let is_zero_poly = coeffs.iter().all(|c| c.is_zero());
            let diff = if d > dp { d - dp } else { dp - d };
            let shown_served = admissible::<S>(&cfg, deg, Some(d));
            let degenerate = move || -> bool {
                if !shown_served {
                    // a bound the keys do not serve has no shift element: the relation cannot hold
                    return false;
                }
                match S::NAME {
                    "MAR" | "MAR377" => v.is_zero(),
                    "SON" | "SON377" => is_zero_poly,
                    _ => v.is_zero() || z.pow([diff as u64]).is_one() || (z.is_zero() && d < s && dp < s),
                }
            };
            run_pair::<S>(rec, &id, "mislabel", &keys, &[&shown], &zp, &s1.values, &s1.proof, &degenerate, &format!("commitment made under bound {} shown under bound {} (honest proof under {}), z={}", dp, d, dp, zn));
            // proof produced under the shown label with the state of the original commitment
            let relabelled = lp::<S>("p", p.clone(), Some(d), h);
            let mut sponge = sponge_pre::<S::F>(0);
            let mut rng = seed_rng(rec.seed, 20);
            if let Ok(pf2) = do_open::<S>(&keys.ck, &[&relabelled], &[&shown], &zp, &mut sponge, &[&c.states[0]], Some(&mut rng as &mut dyn RngCore)) {
                run_pair::<S>(rec, &id, "mislabel-reproved", &keys, &[&shown], &zp, &s1.values, &pf2, &degenerate, &format!("commitment made under bound {} shown under bound {} (proof re-made under {} with the old state), z={}", dp, d, d, zn));
            }
            rec.sample(&format!("{}-mislabel", S::NAME), format!("{}", id));
        }
    }
}

/// Surgery on the degree-bound part of honest transcripts.
pub trait Surgery: RefOps {
    /// (name, commitment) variants of `c` using parts of `other`; `unbounded` is a commitment to the
    /// same polynomial made without a bound.
    fn surgeries(c: &Cm<Self>, other: &Cm<Self>) -> Vec<(String, Cm<Self>)>;
}
impl Surgery for SMar {
    fn surgeries(c: &Cm<Self>, other: &Cm<Self>) -> Vec<(String, Cm<Self>)> {
        let mut v = Vec::new();
        let mut x = c.clone();
        x.shifted_comm = None;
        v.push(("shifted-dropped".to_string(), x));
        let mut x = c.clone();
        x.shifted_comm = other.shifted_comm;
        v.push(("shifted-from-other".to_string(), x));
        let mut x = c.clone();
        x.shifted_comm = Some(c.comm);
        v.push(("shifted:=unshifted".to_string(), x));
        v
    }
}
impl Surgery for SIpa {
    fn surgeries(c: &Cm<Self>, other: &Cm<Self>) -> Vec<(String, Cm<Self>)> {
        let mut v = Vec::new();
        let mut x = c.clone();
        x.shifted_comm = None;
        v.push(("shifted-dropped".to_string(), x));
        let mut x = c.clone();
        x.shifted_comm = other.shifted_comm;
        v.push(("shifted-from-other".to_string(), x));
        let mut x = c.clone();
        x.shifted_comm = Some(c.comm);
        v.push(("shifted:=unshifted".to_string(), x));
        v
    }
}
impl Surgery for SSon {
    fn surgeries(_c: &Cm<Self>, other: &Cm<Self>) -> Vec<(String, Cm<Self>)> {
        // Sonic's commitment is a single element; "taken from another polynomial" is the only surgery
        vec![("commitment-from-other".to_string(), other.clone())]
    }
}

pub fn surgery<S: Surgery + UniSch>(rec: &mut Rec) {
    let cfg = if S::NAME == "IPA" { KeyCfg::uni(7, 7, 1, None) } else { KeyCfg::uni(5, 4, 1, Some(vec![2, 3, 4])) };
    let keys = match build_keys::<S>(&cfg, rec.seed) {
        Ok(k) => k,
        Err(_) => return,
    };
    let r = rho_stream::<S::F>(rec.seed, 1, 8);
    let never = || false;
    for (pn, pc, qc) in [("deg2/deg1", r[..3].to_vec(), r[3..5].to_vec()), ("deg1/deg2", r[..2].to_vec(), r[2..5].to_vec()), ("deg3/deg3", r[..4].to_vec(), r[4..8].to_vec())] {
        for (bp, bq) in [(3usize, 3usize), (3, 4), (4, 3)] {
            for h in [None, Some(1usize)] {
                for (zn, z) in [("r1", rho::<S::F>(rec.seed, 1)), ("r2", rho::<S::F>(rec.seed, 2))] {
                    let id = format!("{}/surgery/{}/{}/bp={}/bq={}/h={:?}/z={}", S::NAME, cfg.id(), pn, bp, bq, h, zn);
                    if !rec.take(&id) {
                        continue;
                    }
                    rec.dim("scheme", S::NAME);
                    let zp = pt::<S>(z);
                    let polys = vec![
                        lp::<S>("p", uni_poly::<S>(&pc), Some(bp), h),
                        lp::<S>("q", uni_poly::<S>(&qc), Some(bq), h),
                        lp::<S>("u", uni_poly::<S>(&pc), None, h),
                    ];
                    let c = match commit_set::<S>(&keys, polys, rec.seed, 0) {
                        Ok(c) => c,
                        Err(_) => continue,
                    };
                    let sp = match open_single::<S>(&keys, &c, &[0], &zp, 0, rec.seed, 0) {
                        Ok(s) => s,
                        Err(_) => continue,
                    };
                    let su = match open_single::<S>(&keys, &c, &[2], &zp, 0, rec.seed, 0) {
                        Ok(s) => s,
                        Err(_) => continue,
                    };
                    rec.op(3);
                    let cp = c.comms[0].commitment();
                    let cq = c.comms[1].commitment();
                    for (name, cm) in S::surgeries(cp, cq) {
                        let shown = LabeledCommitment::new("p".to_string(), cm, Some(bp));
                        run_pair::<S>(rec, &id, &name, &keys, &[&shown], &zp, &sp.values, &sp.proof, &never, &format!("bounded transcript with {}", name));
                    }
                    // label dropped, shifted part kept
                    let shown = LabeledCommitment::new("p".to_string(), cp.clone(), None);
                    run_pair::<S>(rec, &id, "label-dropped", &keys, &[&shown], &zp, &sp.values, &sp.proof, &never, "bounded commitment shown without its degree-bound label");
                    // committed without a bound, presented with one (with and without a borrowed shifted part)
                    let cu = c.comms[2].commitment();
                    let shown = LabeledCommitment::new("u".to_string(), cu.clone(), Some(bp));
                    run_pair::<S>(rec, &id, "unbounded-shown-bounded", &keys, &[&shown], &zp, &su.values, &su.proof, &never, "commitment made without a bound shown under a bound (unbounded proof)");
                    for (name, cm) in S::surgeries(cu, cp) {
                        if name == "shifted-dropped" || name == "commitment-from-other" {
                            continue;
                        }
                        let shown = LabeledCommitment::new("u".to_string(), cm, Some(bp));
                        run_pair::<S>(rec, &id, &format!("unbounded+{}", name), &keys, &[&shown], &zp, &su.values, &su.proof, &never, "unbounded commitment given a borrowed shifted part and a bound label");
                    }
                    // the two bounded commitments opened TOGETHER at the point, their shifted parts exchanged (a verifier
                    // that weighs the shifted parts of equal-bound commitments with one common challenge cannot tell)
                    if let Ok(spq) = open_single::<S>(&keys, &c, &[0, 1], &zp, 0, rec.seed, 0) {
                        let from_q: Vec<(String, Cm<S>)> = S::surgeries(cp, cq).into_iter().filter(|(n, _)| n == "shifted-from-other").collect();
                        let from_p: Vec<(String, Cm<S>)> = S::surgeries(cq, cp).into_iter().filter(|(n, _)| n == "shifted-from-other").collect();
                        if let (Some((_, p_sw)), Some((_, q_sw))) = (from_q.first(), from_p.first()) {
                            let shown_p = LabeledCommitment::new("p".to_string(), p_sw.clone(), Some(bp));
                            let shown_q = LabeledCommitment::new("q".to_string(), q_sw.clone(), Some(bq));
                            run_pair::<S>(rec, &id, "shifted-parts-exchanged-in-group", &keys, &[&shown_p, &shown_q], &zp, &spq.values, &spq.proof, &never, "two bounded commitments opened together, their shifted parts exchanged");
                            // and only one of them carrying the other's shifted part
                            let honest_q = LabeledCommitment::new("q".to_string(), cq.clone(), Some(bq));
                            run_pair::<S>(rec, &id, "shifted-from-other-in-group", &keys, &[&shown_p, &honest_q], &zp, &spq.values, &spq.proof, &never, "two bounded commitments opened together, the first carrying the shifted part of the second");
                        }
                    }
                    rec.sample(&format!("{}-surgery", S::NAME), format!("{}", id));
                }
            }
        }
    }
}

/// Mislabelled commitments inside a GROUP opened at one point: two bounded polynomials, the first or
/// the second one shown under another served bound than it was made under, for every triple of served
/// bounds, with and without hiding.  (A verifier that resolves shift elements per group, not per
/// commitment, is only visible here.)
pub fn mislabel_group<S: RefOps + UniSch>(rec: &mut Rec) {
    let (cfg, served): (KeyCfg, Vec<usize>) = if S::NAME == "IPA" { (KeyCfg::uni(7, 7, 1, None), vec![2, 4, 6]) } else { (KeyCfg::uni(7, 6, 1, Some(vec![2, 4, 6])), vec![2, 4, 6]) };
    let keys = match build_keys::<S>(&cfg, rec.seed) {
        Ok(k) => k,
        Err(_) => return,
    };
    let r = rho_stream::<S::F>(rec.seed, 33, 8);
    let z = pt::<S>(rho::<S::F>(rec.seed, 7));
    for b1 in served.iter().copied() {
        for b2 in served.iter().copied() {
            for b3 in served.iter().copied() {
                if b3 == b2 {
                    continue;
                }
                for h in [None, Some(1usize)] {
                    for pos in [0usize, 1] {
                        let id = format!("{}/mislabel-group/{}/other={}/made={}/shown={}/h={:?}/position={}", S::NAME, cfg.id(), b1, b2, b3, h, pos);
                        if !rec.take(&id) {
                            continue;
                        }
                        rec.dim("scheme", S::NAME);
                        // "x" sorts after "a": position 0 mislabels the first polynomial of the group, 1 the second
                        let (l_other, l_bad) = if pos == 1 { ("a", "x") } else { ("x", "a") };
                        let other = lp::<S>(l_other, uni_poly::<S>(&r[..2]), Some(b1), h);
                        let bad = lp::<S>(l_bad, uni_poly::<S>(&r[2..5]), Some(b2), h);
                        let polys = if pos == 1 { vec![other, bad] } else { vec![bad, other] };
                        let c = match commit_set::<S>(&keys, polys, rec.seed, 0) {
                            Ok(c) => c,
                            Err(_) => continue,
                        };
                        let s1 = match open_single::<S>(&keys, &c, &[0, 1], &z, 0, rec.seed, 0) {
                            Ok(s) => s,
                            Err(_) => continue,
                        };
                        rec.op(2);
                        let shown = LabeledCommitment::new(c.comms[pos].label().clone(), c.comms[pos].commitment().clone(), Some(b3));
                        let cs: Vec<&LCm<S>> = if pos == 1 { vec![&c.comms[0], &shown] } else { vec![&shown, &c.comms[1]] };
                        run_pair::<S>(rec, &id, "mislabel-in-group", &keys, &cs, &z, &s1.values, &s1.proof, &|| false, &format!("group of two bounded commitments at one point: the {} one, made under bound {}, shown under bound {} (the other one honest under {})", if pos == 0 { "first" } else { "second" }, b2, b3, b1));
                    }
                }
            }
        }
    }
}


/// Mislabel ACROSS TRIMS: the prover's keys and the verifier's keys are two different trims of one parameter set
/// (supported degrees sA, sB in 3..=6, one enforced bound each).  A commitment made under bound dA with the
/// prover's key, shown to the verifier under its own bound dB != dA, must be rejected - in particular when the
/// committed polynomial has degree dA > dB.  (Within ONE trim the shift elements of committer and verifier
/// always agree with each other; only a second trim shows whether they are anchored at the parameters' maximum
/// degree, as the scheme requires, or at something the trim request chose.)
pub fn mislabel_cross_trim<S: RefOps + UniSch>(rec: &mut Rec) {
    let dmax = 8usize;
    let r = rho_stream::<S::F>(rec.seed, 35, 8);
    let z = pt::<S>(rho::<S::F>(rec.seed, 7));
    let mut cache: std::collections::BTreeMap<(usize, usize), Option<Keys<S>>> = std::collections::BTreeMap::new();
    let mut todo = Vec::new();
    for sa in 3..=6usize {
        for sb in 3..=6usize {
            for da in 1..=sa {
                for db in 1..=sb {
                    if da == db {
                        continue;
                    }
                    for kind in ["deg1", "full"] {
                        for h in [None, Some(1usize)] {
                            let id = format!("{}/mislabel-cross-trim/D={}/prover=(s={},d={})/verifier=(s={},d={})/{}/h={:?}", S::NAME, dmax, sa, da, sb, db, kind, h);
                            if rec.take(&id) {
                                todo.push((id, sa, da, sb, db, kind, h));
                            }
                        }
                    }
                }
            }
        }
    }
    for (id, sa, da, sb, db, kind, h) in todo {
        for (s, d) in [(sa, da), (sb, db)] {
            if !cache.contains_key(&(s, d)) {
                cache.insert((s, d), build_keys::<S>(&KeyCfg::uni(dmax, s, 1, Some(vec![d])), rec.seed).ok());
            }
        }
        let (ka, kb) = match (cache[&(sa, da)].as_ref(), cache[&(sb, db)].as_ref()) {
            (Some(a), Some(b)) => (a, b),
            _ => continue,
        };
        rec.dim("scheme", S::NAME);
        let coeffs: Vec<S::F> = if kind == "deg1" { r[..2].to_vec() } else { r[..=da].to_vec() };
        let p = uni_poly::<S>(&coeffs);
        let c = match commit_set::<S>(ka, vec![lp::<S>("p", p.clone(), Some(da), h)], rec.seed, 0) {
            Ok(c) => c,
            Err(_) => continue,
        };
        let s1 = match open_single::<S>(ka, &c, &[0], &z, 0, rec.seed, 0) {
            Ok(s) => s,
            Err(_) => continue,
        };
        rec.op(2);
        let shown = LabeledCommitment::new("p".to_string(), c.comms[0].commitment().clone(), Some(db));
        run_pair::<S>(rec, &id, "mislabel-cross-trim", kb, &[&shown], &z, &s1.values, &s1.proof, &|| false, &format!("commitment to a degree-{} polynomial made under bound {} with a key trimmed to degree {}, shown under bound {} to a verifier key trimmed to degree {} of the same parameters", S::degree(&p), da, sa, db, sb));
        // the honest case across trims (same bound on both sides) must keep working: keys interoperate
        if cache.get(&(sb, da)).map(|k| k.is_some()).unwrap_or(false) || da <= sb {
            if !cache.contains_key(&(sb, da)) {
                cache.insert((sb, da), build_keys::<S>(&KeyCfg::uni(dmax, sb, 1, Some(vec![da])), rec.seed).ok());
            }
            if let Some(kc) = cache[&(sb, da)].as_ref() {
                let dd = check_single::<S>(kc, &[&c.comms[0]], &z, &s1.values, &s1.proof, 0, rec.seed, 0);
                rec.count_points(1);
                rec.class(if dd.accepted() { "cross-trim-honest-accepted" } else { "cross-trim-honest-rejected" });
                if !dd.accepted() {
                    rec.violation(&format!("C04/{}/check/cross-trim-honest/rejected", S::NAME), &id, format!("an honest bound-{} opening made with a key trimmed to degree {} is not accepted by a verifier key trimmed to degree {} for the same bound: {}", da, sa, sb, dd.short()));
                }
            }
        }
    }
}

/// Degenerate points in a batch.  At a point z with z^(|d-d'|) = 1, z = 0, or p(z) = 0 the shift identity cannot
/// tell the bound d' a Marlin commitment was made under from the bound d it is shown under: a crafted witness (built
/// here from a replay of the verifier's challenges and a naive commitment to the quotient) is accepted at that point
/// alone, by the scheme's relation and by the library alike.  The scheme relies on the OTHER points of a batch: a
/// batch over such a point and a random point must be rejected whatever the prover sends for the random point (a
/// plain opening that ignores the bound, the opening under the bound of the committer, the opening under the bound
/// shown), in both label orders.  Controls: the same constructive prover under the honest label is accepted.
pub fn mar_degenerate_batch(rec: &mut Rec) {
    use crate::refm::{challenge, naive_msm};
    use ark_ec::CurveGroup;
    use ark_poly_commit::{kzg10, Evaluations, QuerySet};
    type S = SMar;
    type F = Fr381;
    let cfg = KeyCfg::uni(8, 6, 1, Some(vec![3, 5]));
    let keys = match build_keys::<S>(&cfg, rec.seed) {
        Ok(k) => k,
        Err(_) => return,
    };
    let max = keys.pp.powers_of_g.len() - 1;
    let r = rho_stream::<F>(rec.seed, 51, 8);
    // quotient witness of  c1*p + c2*(X^(max-made)*p - v*X^(max-shown))  at z (None when the shifted part does not vanish)
    let witness = |p: &[F], z: F, v: F, c1: F, c2: Option<F>, made: usize, shown: usize| -> Option<kzg10::Proof<E381>> {
        let top = 2 * max + 1;
        let mut comb = vec![F::zero(); top + 1];
        for (i, a) in p.iter().enumerate() {
            comb[i] += c1 * *a;
            if let Some(c2) = c2 {
                comb[max - made + i] += c2 * *a;
            }
        }
        if let Some(c2) = c2 {
            comb[max - shown] -= c2 * v;
        }
        comb[0] -= c1 * v;
        // synthetic division by (X - z)
        let mut q = vec![F::zero(); top];
        let mut carry = F::zero();
        for i in (0..=top).rev() {
            let cur = comb[i] + carry * z;
            if i > 0 {
                q[i - 1] = cur;
            } else if !cur.is_zero() {
                return None;
            }
            carry = cur;
        }
        if q[max..].iter().any(|x| !x.is_zero()) {
            // the parameters have no power for this quotient
            return None;
        }
        let w = naive_msm(&keys.pp.powers_of_g[..max], &q[..max]).into_affine();
        Some(kzg10::Proof { w, random_v: None })
    };
    let root = r[7];
    for (kind, coeffs) in [
        ("deg4", vec![r[0], r[1], r[2], r[3], r[4]]),
        ("deg2", vec![r[0], r[1], r[2]]),
        // (X - root) * (r0 + r1 X + r2 X^2 + r3 X^3): degree 4, vanishes at `root`
        ("deg4-with-root", vec![-root * r[0], r[0] - root * r[1], r[1] - root * r[2], r[2] - root * r[3], r[3]]),
    ] {
        for (made, shown) in [(5usize, 3usize), (3, 5)] {
            if coeffs.len() - 1 > made {
                continue;
            }
            for (zn, za) in [("1", F::one()), ("0", F::zero()), ("-1", -F::one()), ("root", root)] {
                if zn == "root" && kind != "deg4-with-root" {
                    continue;
                }
                for first in ["degenerate-first", "degenerate-second"] {
                    let id = format!("MAR/degenerate-batch/{}/made={}/shown={}/z={}/{}", kind, made, shown, zn, first);
                    if !rec.take(&id) {
                        continue;
                    }
                    rec.dim("scheme", "MAR");
                    let p = uni_poly::<S>(&coeffs);
                    let c = match commit_set::<S>(&keys, vec![lp::<S>("p", p.clone(), Some(made), None)], rec.seed, 0) {
                        Ok(c) => c,
                        Err(_) => continue,
                    };
                    rec.op(1);
                    let zb = rho::<F>(rec.seed, 9);
                    let (va, vb) = (p.evaluate(&za), p.evaluate(&zb));
                    let mislabelled = LabeledCommitment::new("p".to_string(), c.comms[0].commitment().clone(), Some(shown));
                    // 1. the degenerate point alone: relation and library accept the crafted witness
                    let mut sp = sponge_pre::<F>(0);
                    let (c1, c2): (F, F) = (challenge(&mut sp), challenge(&mut sp));
                    let wa = match witness(&coeffs, za, va, c1, Some(c2), made, shown) {
                        Some(w) => w,
                        None => panic!("MACHINERY: the point {} is not degenerate for bounds {} and {}", zn, made, shown),
                    };
                    run_pair::<S>(rec, &id, "degenerate-point-alone", &keys, &[&mislabelled], &za, &[va], &wa, &|| true, &format!("commitment made under bound {} shown under bound {} at the degenerate point {} with a crafted witness", made, shown, zn));
                    // 2. batches over the degenerate point and a random one
                    let (la, lb) = if first == "degenerate-first" { ("a", "b") } else { ("b", "a") };
                    let mut qs = QuerySet::new();
                    qs.insert(("p".to_string(), (la.to_string(), za)));
                    qs.insert(("p".to_string(), (lb.to_string(), zb)));
                    let mut ev = Evaluations::new();
                    ev.insert(("p".to_string(), za), va);
                    ev.insert(("p".to_string(), zb), vb);
                    for label_kind in ["mislabelled", "honest-label(control)"] {
                        let shown_now = if label_kind == "mislabelled" { shown } else { made };
                        let lcm = LabeledCommitment::new("p".to_string(), c.comms[0].commitment().clone(), Some(shown_now));
                        for bproof in ["plain", "under-made-bound", "under-shown-bound"] {
                            if label_kind != "mislabelled" && bproof != "under-made-bound" {
                                continue;
                            }
                            let mut sp = sponge_pre::<F>(0);
                            let mut proofs = Vec::new();
                            let mut ok = true;
                            for (z, v, degenerate) in if first == "degenerate-first" { [(za, va, true), (zb, vb, false)] } else { [(zb, vb, false), (za, va, true)] } {
                                let (c1, c2): (F, F) = (challenge(&mut sp), challenge(&mut sp));
                                let w = if degenerate || label_kind != "mislabelled" {
                                    witness(&coeffs, z, v, c1, Some(c2), made, shown_now)
                                } else {
                                    match bproof {
                                        "plain" => witness(&coeffs, z, v, c1, None, made, shown),
                                        "under-made-bound" => witness(&coeffs, z, v, c1, Some(c2), made, made),
                                        _ => witness(&coeffs, z, v, c1, Some(c2), shown, shown),
                                    }
                                };
                                match w {
                                    Some(w) => proofs.push(w),
                                    None => ok = false,
                                }
                            }
                            if !ok {
                                if bproof == "under-shown-bound" {
                                    rec.class("opening-not-constructible");
                                    continue;
                                }
                                panic!("MACHINERY: constructive Marlin prover failed");
                            }
                            let got = check_batch::<S>(&keys, &[&lcm], &qs, &ev, &proofs, 0, rec.seed, 0);
                            rec.count_points(1);
                            rec.op(1);
                            rec.obs(&format!("MAR|degenerate-batch|{}|{}|{}", label_kind, bproof, got.class()));
                            if label_kind == "mislabelled" {
                                rec.class(&format!("presented-{}", got.class()));
                                if got.accepted() {
                                    rec.violation(
                                        "C04/MAR/batch_check/mislabel-with-degenerate-point/accepted",
                                        &id,
                                        format!("commitment made under bound {} shown under bound {} is accepted in a batch over the degenerate point {} and a random point (opening at the random point: {})", made, shown, zn, bproof),
                                    );
                                }
                            } else {
                                rec.class("control-constructive-prover");
                                if !got.accepted() {
                                    rec.violation("C04/MAR/batch_check/constructive-honest-proof-refused", &id, format!("honest batch built by the constructive prover is refused: {}", got.short()));
                                }
                            }
                        }
                    }
                }
            }
        }
    }
}

/// Verifier keys that serve NO bound (trimmed with `None` or with an empty list): a commitment made without a bound and
/// presented with the label `Some(d)` - any d, below, at and above the polynomial's degree and the key's range - cannot be
/// checked against that bound and must not be accepted, by `check` and by `batch_check`, with the committer's own
/// verifier key and with the verifier key of a second trim of the same parameters.
pub fn keys_without_bounds<S: RefOps + UniSch>(rec: &mut Rec) {
    use ark_poly_commit::{Evaluations, QuerySet};
    let r = rho_stream::<S::F>(rec.seed, 57, 8);
    for (bn, breq) in [("None", None), ("empty", Some(Vec::<usize>::new()))] {
        let cfg_nb = KeyCfg::uni(8, 6, 2, breq.clone());
        let cfg_b = KeyCfg::uni(8, 6, 2, Some(vec![3, 5]));
        let mut keys: Option<(Keys<S>, Keys<S>)> = None;
        for deg in [2usize, 5, 6] {
            for h in [None, Some(1usize), Some(2)] {
                let id = format!("{}/keys-without-bounds/B={}/deg={}/h={:?}", S::NAME, bn, deg, h);
                if !rec.take(&id) {
                    continue;
                }
                if keys.is_none() {
                    keys = match (build_keys::<S>(&cfg_nb, rec.seed), build_keys::<S>(&cfg_b, rec.seed)) {
                        (Ok(a), Ok(b)) => Some((a, b)),
                        _ => return,
                    };
                }
                let (knb, kb) = keys.as_ref().unwrap();
                rec.dim("scheme", S::NAME);
                let p = uni_poly::<S>(&r[..=deg]);
                let z = pt::<S>(rho::<S::F>(rec.seed, 4));
                // committed and opened without a bound: once with the key that serves no bounds, once with the key that does
                for (who, kk) in [("own-key", knb), ("key-with-bounds", kb)] {
                    let c = match commit_set::<S>(kk, vec![lp::<S>("p", p.clone(), None, h)], rec.seed, 0) {
                        Ok(c) => c,
                        Err(_) => continue,
                    };
                    let s1 = match open_single::<S>(kk, &c, &[0], &z, 0, rec.seed, 0) {
                        Ok(s) => s,
                        Err(_) => continue,
                    };
                    rec.op(2);
                    let base = check_single::<S>(knb, &[&c.comms[0]], &z, &s1.values, &s1.proof, 0, rec.seed, 0);
                    rec.count_points(1);
                    rec.class(if base.accepted() { "unbounded-baseline-accepted" } else { "unbounded-baseline-rejected" });
                    for shown in [1usize, 3, 5, 6, 7, 9] {
                        let lab = LabeledCommitment::new("p".to_string(), c.comms[0].commitment().clone(), Some(shown));
                        let d = check_single::<S>(knb, &[&lab], &z, &s1.values, &s1.proof, 0, rec.seed, 0);
                        rec.count_points(1);
                        rec.op(1);
                        rec.class(&format!("presented-{}", d.class()));
                        rec.obs(&format!("{}|no-bounds|check|{}", S::NAME, d.class()));
                        if d.accepted() {
                            rec.violation(&format!("C04/{}/check/bound-label-under-key-without-bounds/accepted", S::NAME), &id, format!("a degree-{} polynomial committed without a bound ({}) is accepted under the label Some({}) by a verifier key trimmed with bounds = {}", deg, who, shown, bn));
                        }
                        let mut qs = QuerySet::new();
                        qs.insert(("p".to_string(), ("z".to_string(), z.clone())));
                        let mut ev = Evaluations::new();
                        ev.insert(("p".to_string(), z.clone()), s1.values[0]);
                        let bp: BPf<S> = vec![s1.proof.clone()].into();
                        let d = check_batch::<S>(knb, &[&lab], &qs, &ev, &bp, 0, rec.seed, 0);
                        rec.count_points(1);
                        rec.op(1);
                        rec.obs(&format!("{}|no-bounds|batch_check|{}", S::NAME, d.class()));
                        if d.accepted() {
                            rec.violation(&format!("C04/{}/batch_check/bound-label-under-key-without-bounds/accepted", S::NAME), &id, format!("a degree-{} polynomial committed without a bound ({}) is accepted under the label Some({}) by batch_check with a verifier key trimmed with bounds = {}", deg, who, shown, bn));
                        }
                    }
                }
            }
        }
    }
}

pub fn run(rec: &mut Rec) {
    let dmax = if rec.thorough() { 6 } else { 4 };
    admission::<SMar>(rec, dmax);
    admission::<SSon>(rec, dmax);
    admission::<SIpa>(rec, if rec.thorough() { 15 } else { 7 });
    mislabel::<SMar>(rec, dmax);
    mislabel::<SSon>(rec, dmax);
    mislabel::<SIpa>(rec, dmax);
    mislabel_group::<SMar>(rec);
    mislabel_group::<SSon>(rec);
    mislabel_group::<SIpa>(rec);
    mislabel_cross_trim::<SMar>(rec);
    mar_degenerate_batch(rec);
    keys_without_bounds::<SMar>(rec);
    keys_without_bounds::<SSon>(rec);
    mislabel_cross_trim::<SSon>(rec);
    surgery::<SMar>(rec);
    surgery::<SSon>(rec);
    surgery::<SIpa>(rec);
}
