//! C12 — keys, commitments, states and proofs survive canonical serialization.
use crate::alpha::*;
use crate::checks::c01::{slice_b_labels, slice_b_polys};
use crate::rec::Rec;
use crate::sch::*;
use crate::schemes::*;
use crate::scope::*;
use crate::special::*;
use crate::tr::*;
use crate::util::*;
use ark_ff::One;
use ark_poly_commit::{BatchLCProof, Evaluations, LabeledCommitment, LinearCombination, QuerySet};
use ark_serialize::{CanonicalDeserialize, CanonicalSerialize, Compress, Validate};
use ark_std::rand::RngCore;

const MODES: [(Compress, Validate, &str); 4] = [
    (Compress::No, Validate::No, "unc/noval"),
    (Compress::No, Validate::Yes, "unc/val"),
    (Compress::Yes, Validate::No, "cmp/noval"),
    (Compress::Yes, Validate::Yes, "cmp/val"),
];

/// The key sweep checks round trips only (prefixes are covered on the transcript configurations).
static SKIP_PREFIXES: std::sync::atomic::AtomicBool = std::sync::atomic::AtomicBool::new(false);

fn viol(rec: &mut Rec, sch: &str, art: &str, what: &str, id: &str, detail: String) {
    rec.violation(&format!("C12/{}/{}/{}", sch, art, what), id, detail);
}

/// A reader that returns at most `chunk` bytes per `read` call.
pub struct ChunkReader<'a> {
    pub data: &'a [u8],
    pub pos: usize,
    pub chunk: usize,
}
impl<'a> ark_serialize::Read for ChunkReader<'a> {
    fn read(&mut self, buf: &mut [u8]) -> ark_std::io::Result<usize> {
        let k = buf.len().min(self.chunk).min(self.data.len() - self.pos);
        buf[..k].copy_from_slice(&self.data[self.pos..self.pos + k]);
        self.pos += k;
        Ok(k)
    }
}

/// A reader over a byte string that records the offset at which every read call starts.
pub struct RecReader<'a> {
    pub data: &'a [u8],
    pub pos: usize,
    pub starts: Vec<usize>,
}
impl<'a> ark_serialize::Read for RecReader<'a> {
    fn read(&mut self, buf: &mut [u8]) -> ark_std::io::Result<usize> {
        if self.starts.last() != Some(&self.pos) {
            self.starts.push(self.pos);
        }
        let k = buf.len().min(self.data.len() - self.pos);
        buf[..k].copy_from_slice(&self.data[self.pos..self.pos + k]);
        self.pos += k;
        Ok(k)
    }
}

/// Round trip, size and prefix checks of one artefact in all four modes. Returns the value
/// deserialized in each mode (for the decision-equality part).
pub fn roundtrip<T: CanonicalSerialize + CanonicalDeserialize>(rec: &mut Rec, sch: &str, art: &str, id: &str, x: &T, full_prefix: bool) -> Vec<Option<T>> {
    let mut out = Vec::new();
    for (c, v, mn) in MODES.iter() {
        rec.count_points(1);
        rec.op(3);
        let mut bytes = Vec::new();
        if let Err(e) = x.serialize_with_mode(&mut bytes, *c) {
            viol(rec, sch, art, "serialize-failed", id, format!("{}: {:?}", mn, e));
            out.push(None);
            continue;
        }
        let sz = x.serialized_size(*c);
        if sz != bytes.len() {
            viol(rec, sch, art, "serialized-size", id, format!("{}: serialized_size() = {} but {} bytes were written", mn, sz, bytes.len()));
        }
        let y = match catch(|| T::deserialize_with_mode(&bytes[..], *c, *v)) {
            Ok(Ok(y)) => y,
            Ok(Err(e)) => {
                rec.class("roundtrip-failed");
                viol(rec, sch, art, "deserialize-failed", id, format!("{}: own serialization rejected: {:?}", mn, e));
                out.push(None);
                continue;
            }
            Err(p) => {
                rec.class("roundtrip-failed");
                viol(rec, sch, art, "deserialize-panicked", id, format!("{}: {}", mn, p));
                out.push(None);
                continue;
            }
        };
        // the same bytes delivered by a reader that hands out short reads (1, 7 and 100 bytes per call, as a pipe or a
        // buffered file may): the result must be the same value
        for chunk in [1usize, 7, 100] {
            if chunk == 1 && bytes.len() > 4096 {
                continue;
            }
            let mut cr = ChunkReader { data: &bytes[..], pos: 0, chunk };
            match catch(|| T::deserialize_with_mode(&mut cr, *c, *v)) {
                Ok(Ok(y2)) => {
                    let mut b2 = Vec::new();
                    let _ = y2.serialize_with_mode(&mut b2, *c);
                    if b2 != bytes {
                        viol(rec, sch, art, "short-reads-change-the-value", id, format!("{}: deserializing from a reader that returns at most {} bytes per call gives a different value", mn, chunk));
                    }
                }
                Ok(Err(e)) => viol(rec, sch, art, "short-reads-rejected", id, format!("{}: own serialization rejected when the reader returns at most {} bytes per call: {:?}", mn, chunk, e)),
                Err(p) => viol(rec, sch, art, "deserialize-panicked", id, format!("{}: reader with {}-byte reads: {}", mn, chunk, p)),
            }
        }
        let mut again = Vec::new();
        let _ = y.serialize_with_mode(&mut again, *c);
        if again != bytes {
            rec.class("roundtrip-differs");
            viol(rec, sch, art, "roundtrip-differs", id, format!("{}: ser(deser(ser(x))) != ser(x)", mn));
        } else {
            rec.class("roundtrip-ok");
        }
        rec.obs(&format!("{}|{}|{}|{}", sch, art, mn, again == bytes));
        if SKIP_PREFIXES.load(std::sync::atomic::Ordering::Relaxed) {
            out.push(Some(y));
            continue;
        }
        // every proper prefix must be an error
        let n = bytes.len();
        let cheap = matches!((c, v), (Compress::No, Validate::No));
        let lens: Vec<usize> = if cheap || n <= 512 || full_prefix {
            (0..n).collect()
        } else {
            let mut l: Vec<usize> = (0..n.min(16)).collect();
            l.extend((16..n).step_by(16));
            l.extend(n.saturating_sub(64)..n);
            // plus every FIELD BOUNDARY of this encoding (and the byte before / after it): the offsets at which
            // the deserializer itself starts a read when it is fed the complete byte string
            let mut rr = RecReader { data: &bytes[..], pos: 0, starts: Vec::new() };
            if T::deserialize_with_mode(&mut rr, *c, *v).is_ok() {
                rec.class_n("field-boundaries-probed", rr.starts.len() as u64);
                for b in rr.starts {
                    for k in [b.saturating_sub(1), b, b + 1] {
                        if k < n {
                            l.push(k);
                        }
                    }
                }
            }
            l.sort();
            l.dedup();
            l
        };
        let mut accepted_prefix: Option<usize> = None;
        let mut panicked: Option<usize> = None;
        for k in lens.iter() {
            match catch(|| T::deserialize_with_mode(&bytes[..*k], *c, *v).is_ok()) {
                Ok(true) => {
                    accepted_prefix = Some(*k);
                    break;
                }
                Ok(false) => {}
                Err(_) => panicked = Some(*k),
            }
        }
        rec.op(lens.len() as u64);
        rec.class_n("prefix-rejected", lens.len() as u64);
        if let Some(k) = accepted_prefix {
            rec.class("prefix-accepted");
            viol(rec, sch, art, "truncated-input-accepted", id, format!("{}: the first {} of {} bytes deserialize successfully", mn, k, n));
        }
        if let Some(k) = panicked {
            viol(rec, sch, art, "truncated-input-panics", id, format!("{}: deserializing the first {} of {} bytes panics instead of returning an error", mn, k, n));
        }
        out.push(Some(y));
    }
    out
}

pub fn scheme<S: Sch>(rec: &mut Rec, full_prefix: bool) {
    let mut cfgs = vec![slice_b::<S>()];
    if S::BOUNDS && S::NAME != "IPA" {
        cfgs.push(KeyCfg::uni(3, 2, 1, None));
        cfgs.push(KeyCfg::uni(4, 4, 2, Some(vec![4, 1, 4])));
    }
    for (ci, cfg) in cfgs.into_iter().enumerate() {
        let id = format!("{}/ser/{}", S::NAME, cfg.id());
        if !rec.take(&id) {
            continue;
        }
        rec.dim("scheme", S::NAME);
        let keys = match build_keys::<S>(&cfg, rec.seed) {
            Ok(k) => k,
            Err(_) => continue,
        };
        let mut polys = slice_b_polys::<S>(&cfg, rec.seed);
        if ci > 0 {
            // keep the polynomials within the smaller keys
            let shapes = S::shapes(&cfg, rec.seed);
            let b = cfg.bounds.as_ref().map(|b| *b.iter().max().unwrap());
            polys = vec![
                lp::<S>("p0", shapes.iter().rev().find(|(n, _)| n.starts_with("dense")).unwrap().1.clone(), None, None),
                lp::<S>("p1", shapes.iter().find(|(n, _)| n == "dense(1)").unwrap().1.clone(), b, Some(1)),
                lp::<S>("p2", shapes.iter().find(|(n, _)| n == "zero").unwrap().1.clone(), b, None),
            ];
        }
        let labels = slice_b_labels::<S>(&cfg, rec.seed);
        let c = match commit_set::<S>(&keys, polys, rec.seed, 0) {
            Ok(c) => c,
            Err(_) => continue,
        };
        let mut qs = QuerySet::<S::Pt>::new();
        for p in c.polys.iter() {
            qs.insert((p.label().clone(), (labels[0].0.clone(), labels[0].1.clone())));
        }
        qs.insert((c.polys[0].label().clone(), (labels[2].0.clone(), labels[2].1.clone())));
        let b = match open_batch::<S>(&keys, &c, &[0, 1, 2], &qs, 0, rec.seed, 0) {
            Ok(b) => b,
            Err(_) => continue,
        };
        rec.op(4);
        let comms: Vec<&LCm<S>> = c.comms.iter().collect();
        let honest = check_batch::<S>(&keys, &comms, &qs, &b.evals, &b.proof, 0, rec.seed, 0);
        let mut bad = b.evals.clone();
        *bad.values_mut().next().unwrap() += S::F::one();
        let tampered = check_batch::<S>(&keys, &comms, &qs, &bad, &b.proof, 0, rec.seed, 0);
        rec.sample(&format!("{}-ser", S::NAME), format!("{}: params, ck, vk, 3 commitments, 3 states, batch proof, LC proof, labelled polynomials x 4 modes; decisions with deserialized artefacts ({} / {})", id, honest.class(), tampered.class()));
        // --- artefacts
        let _ = roundtrip(rec, S::NAME, "params", &id, &keys.pp, full_prefix);
        let _ = roundtrip(rec, S::NAME, "committer-key", &id, &keys.ck, full_prefix);
        let vks = roundtrip(rec, S::NAME, "verifier-key", &id, &keys.vk, full_prefix);
        let mut cms: Vec<Vec<Option<Cm<S>>>> = Vec::new();
        for lc in c.comms.iter() {
            cms.push(roundtrip(rec, S::NAME, "commitment", &id, lc.commitment(), true));
        }
        for st in c.states.iter() {
            let _ = roundtrip(rec, S::NAME, "commitment-state", &id, st, full_prefix);
        }
        for p in c.polys.iter() {
            let _ = roundtrip(rec, S::NAME, "labeled-polynomial", &id, p, full_prefix);
        }
        let pfs = roundtrip(rec, S::NAME, "batch-proof", &id, &b.proof, full_prefix);
        // --- decisions with deserialized verifier key / commitments / proof
        for m in 0..4 {
            let vk2 = match &vks[m] {
                Some(v) => v,
                None => continue,
            };
            let pf2 = match &pfs[m] {
                Some(p) => p,
                None => continue,
            };
            let mut cm2: Vec<LCm<S>> = Vec::new();
            let mut all = true;
            for (i, lc) in c.comms.iter().enumerate() {
                match &cms[i][m] {
                    Some(x) => cm2.push(LabeledCommitment::new(lc.label().clone(), x.clone(), lc.degree_bound())),
                    None => all = false,
                }
            }
            if !all {
                continue;
            }
            let keys2 = Keys::<S> { cfg: keys.cfg.clone(), pp: keys.pp.clone(), ck: keys.ck.clone(), vk: vk2.clone() };
            let r2: Vec<&LCm<S>> = cm2.iter().collect();
            let h2 = check_batch::<S>(&keys2, &r2, &qs, &b.evals, pf2, 0, rec.seed, 0);
            let t2 = check_batch::<S>(&keys2, &r2, &qs, &bad, pf2, 0, rec.seed, 0);
            rec.count_points(1);
            rec.op(2);
            let same = h2.accepted() == honest.accepted() && t2.accepted() == tampered.accepted();
            rec.class(if same { "decisions-equal" } else { "decisions-differ" });
            if !same {
                viol(rec, S::NAME, "verifier-key+commitment+proof", "decision-changes", &id, format!("{}: decisions with deserialized artefacts (honest {}, tampered {}) differ from the originals (honest {}, tampered {})", MODES[m].2, h2.short(), t2.short(), honest.short(), tampered.short()));
            }
            // single-point check as well (it may use other key fields than the batch path)
            let z = &labels[0].1;
            if let Ok(s) = open_single::<S>(&keys, &c, &[0, 1], z, 0, rec.seed, 0) {
                let d1 = check_single::<S>(&keys, &comms[..2], z, &s.values, &s.proof, 0, rec.seed, 0);
                let d2 = check_single::<S>(&keys2, &r2[..2], z, &s.values, &s.proof, 0, rec.seed, 0);
                rec.op(3);
                if d1.accepted() != d2.accepted() {
                    viol(rec, S::NAME, "verifier-key+commitment", "decision-changes", &id, format!("{}: single check {} with deserialized key/commitments vs {} with the originals", MODES[m].2, d2.short(), d1.short()));
                }
            }
        }
        // --- combination proof
        let lcs: Vec<LinearCombination<S::F>> = vec![LinearCombination::new("L0", vec![(S::F::one(), "p0".to_string())])];
        let mut lqs = QuerySet::<S::Pt>::new();
        lqs.insert(("L0".into(), (labels[0].0.clone(), labels[0].1.clone())));
        let (polys, cmr, sts) = c.refs();
        let mut sponge = sponge_pre::<S::F>(0);
        let mut rng = seed_rng(rec.seed, 20);
        if let Ok(lcp) = do_open_comb::<S>(&keys.ck, &lcs, &polys, &cmr, &lqs, &mut sponge, &sts, Some(&mut rng as &mut dyn RngCore)) {
            let lps = roundtrip(rec, S::NAME, "combination-proof", &id, &lcp, full_prefix);
            let mut ev: Evaluations<S::Pt, S::F> = Evaluations::new();
            use ark_poly::Polynomial;
            ev.insert(("L0".to_string(), labels[0].1.clone()), c.polys[0].polynomial().evaluate(&labels[0].1));
            let run = |p: &BatchLCProof<S::F, BPf<S>>, seed: u64| {
                let mut sponge = sponge_pre::<S::F>(0);
                let mut rng = seed_rng(seed, 40);
                do_check_comb::<S>(&keys.vk, &lcs, &cmr, &lqs, &ev, p, &mut sponge, &mut rng)
            };
            let d0 = run(&lcp, rec.seed);
            for m in 0..4 {
                if let Some(p2) = &lps[m] {
                    let d2 = run(p2, rec.seed);
                    rec.op(1);
                    if d0.accepted() != d2.accepted() {
                        viol(rec, S::NAME, "combination-proof", "decision-changes", &id, format!("{}: {} with the deserialized proof vs {} with the original", MODES[m].2, d2.short(), d0.short()));
                    }
                }
            }
        }
    }
}

/// Keys of every small configuration (supported < max, bound lists of every shape, every number of
/// variables): committer and verifier key round trips in all four modes, and one decision with the
/// deserialized verifier key.
pub fn key_sweep<S: Sch>(rec: &mut Rec) {
    let mut cfgs: Vec<KeyCfg> = Vec::new();
    if S::BOUNDS {
        cfgs.extend(slice_a::<S>(3));
    }
    cfgs.extend(slice_c::<S>(false).into_iter().filter(|c| c.nv.unwrap_or(0) <= 4 && c.max <= 8).take(24));
    for cfg in cfgs {
        let id = format!("{}/keys/{}", S::NAME, cfg.id());
        if !rec.take(&id) {
            continue;
        }
        rec.dim("scheme", S::NAME);
        let keys = match build_keys::<S>(&cfg, rec.seed) {
            Ok(k) => k,
            Err(_) => continue,
        };
        SKIP_PREFIXES.store(true, std::sync::atomic::Ordering::Relaxed);
        let _ = roundtrip(rec, S::NAME, "committer-key", &id, &keys.ck, false);
        let vks = roundtrip(rec, S::NAME, "verifier-key", &id, &keys.vk, false);
        SKIP_PREFIXES.store(false, std::sync::atomic::Ordering::Relaxed);
        // one honest and one false claim under the deserialized verifier key
        let shapes = crate::source::shapes_short::<S>(&cfg, rec.seed);
        let p = shapes[shapes.len() - 1].1.clone();
        let z = S::points(&cfg, rec.seed)[0].1.clone();
        let c = match commit_set::<S>(&keys, vec![lp::<S>("p", p, None, None)], rec.seed, 0) {
            Ok(c) => c,
            Err(_) => continue,
        };
        let s1 = match open_single::<S>(&keys, &c, &[0], &z, 0, rec.seed, 0) {
            Ok(s) => s,
            Err(_) => continue,
        };
        let cr: Vec<&LCm<S>> = c.comms.iter().collect();
        let d0 = check_single::<S>(&keys, &cr, &z, &s1.values, &s1.proof, 0, rec.seed, 0);
        let mut bad = s1.values.clone();
        bad[0] += S::F::one();
        for (m, v) in vks.iter().enumerate() {
            if let Some(vk2) = v {
                let keys2 = Keys::<S> { cfg: keys.cfg.clone(), pp: keys.pp.clone(), ck: keys.ck.clone(), vk: vk2.clone() };
                let d1 = check_single::<S>(&keys2, &cr, &z, &s1.values, &s1.proof, 0, rec.seed, 0);
                let d2 = check_single::<S>(&keys2, &cr, &z, &bad, &s1.proof, 0, rec.seed, 0);
                rec.count_points(1);
                rec.op(2);
                let same = d1.accepted() == d0.accepted() && !d2.accepted();
                rec.class(if same { "decisions-equal" } else { "decisions-differ" });
                if !same {
                    viol(rec, S::NAME, "verifier-key", "decision-changes", &id, format!("{}: with the deserialized verifier key the honest claim gives {} (original {}), the false claim {}", MODES[m].2, d1.short(), d0.short(), d2.short()));
                }
            }
        }
    }
}


/// Size sweep: parameters, committer key and verifier key of LARGE configurations (element counts around and above
/// 128 / 256, not multiples of 64) round-trip in all four modes - sizes at which an implementation may switch to a
/// chunked or parallel (de)serializer.  No prefix sweep here (the boundary sweep runs on the small configurations).
pub fn size_sweep<S: Sch>(rec: &mut Rec) {
    let mut cfgs: Vec<KeyCfg> = Vec::new();
    match S::FAM {
        Fam::Uni => {
            if S::NAME == "IPA" {
                for d in [127usize, 255] {
                    cfgs.push(KeyCfg::uni(d, d, 1, None));
                }
            } else if S::BOUNDS {
                for d in [127usize, 128, 149, 200, 255, 300] {
                    cfgs.push(KeyCfg::uni(d, d - 3, 2, Some(vec![d / 2])));
                }
            } else {
                return;
            }
        }
        Fam::Ml => {
            if S::NAME == "HYR" {
                for nv in [14usize, 16] {
                    cfgs.push(KeyCfg::ml(nv));
                }
            } else {
                // linear codes: keys for 10 and 11 variables (Brakedown: sparse encoding matrices with more than 256 rows)
                for nv in [10usize, 11] {
                    cfgs.push(KeyCfg::ml(nv));
                }
            }
        }
        Fam::Mv => {
            for (nv, d) in [(2usize, 15usize), (2, 20), (3, 9), (4, 6)] {
                cfgs.push(KeyCfg::mv(nv, d, d - 1));
            }
        }
    }
    for cfg in cfgs {
        let id = format!("{}/keys-large/{}", S::NAME, cfg.id());
        if !rec.take(&id) {
            continue;
        }
        rec.dim("scheme", S::NAME);
        let keys = match build_keys::<S>(&cfg, rec.seed) {
            Ok(k) => k,
            Err(_) => continue,
        };
        SKIP_PREFIXES.store(true, std::sync::atomic::Ordering::Relaxed);
        let pps = roundtrip(rec, S::NAME, "params", &id, &keys.pp, false);
        let cks = roundtrip(rec, S::NAME, "committer-key", &id, &keys.ck, false);
        let vks = roundtrip(rec, S::NAME, "verifier-key", &id, &keys.vk, false);
        SKIP_PREFIXES.store(false, std::sync::atomic::Ordering::Relaxed);
        // the deserialized keys decide like the originals (honest and one false claim) and commit to the same value
        if !S::HIDING && S::NAME != "HYR" {
            let shapes = crate::source::shapes_short::<S>(&cfg, rec.seed);
            let p = shapes[shapes.len() - 1].1.clone();
            let z = S::points(&cfg, rec.seed)[0].1.clone();
            if let Ok(c) = commit_set::<S>(&keys, vec![lp::<S>("p", p.clone(), None, None)], rec.seed, 0) {
                if let Ok(s1) = open_single::<S>(&keys, &c, &[0], &z, 0, rec.seed, 0) {
                    let cr: Vec<&LCm<S>> = c.comms.iter().collect();
                    let mut bad = s1.values.clone();
                    bad[0] += S::F::one();
                    for (m, (ck2, vk2)) in cks.iter().zip(vks.iter()).enumerate() {
                        if let (Some(ck2), Some(vk2)) = (ck2, vk2) {
                            let keys2 = Keys::<S> { cfg: keys.cfg.clone(), pp: keys.pp.clone(), ck: ck2.clone(), vk: vk2.clone() };
                            rec.count_points(1);
                            rec.op(3);
                            let d1 = check_single::<S>(&keys2, &cr, &z, &s1.values, &s1.proof, 0, rec.seed, 0);
                            let d2 = check_single::<S>(&keys2, &cr, &z, &bad, &s1.proof, 0, rec.seed, 0);
                            let same_comm = match commit_set::<S>(&keys2, vec![lp::<S>("p", p.clone(), None, None)], rec.seed, 0) {
                                Ok(c2) => ser(c2.comms[0].commitment()) == ser(c.comms[0].commitment()),
                                Err(_) => false,
                            };
                            let same = d1.accepted() && !d2.accepted() && same_comm;
                            rec.class(if same { "decisions-equal" } else { "decisions-differ" });
                            if !same {
                                viol(rec, S::NAME, "verifier-key", "decision-changes", &id, format!("{}: with the deserialized keys the honest claim gives {}, the false claim {}, commitment equal: {}", MODES[m].2, d1.short(), d2.short(), same_comm));
                            }
                        }
                    }
                }
            }
        }
        // keys trimmed from the deserialized parameters are the keys trimmed from the originals
        for (m, pp2) in pps.iter().enumerate() {
            if let Some(pp2) = pp2 {
                rec.count_points(1);
                rec.op(1);
                match S::trim(pp2, &cfg) {
                    Ok((ck2, vk2)) => {
                        let same = ser(&ck2) == ser(&keys.ck) && ser(&vk2) == ser(&keys.vk);
                        rec.class(if same { "decisions-equal" } else { "decisions-differ" });
                        if !same {
                            viol(rec, S::NAME, "params", "trimmed-keys-differ", &id, format!("{}: keys trimmed from the deserialized parameters differ from the keys trimmed from the originals", MODES[m].2));
                        }
                    }
                    Err(o) => viol(rec, S::NAME, "params", "trim-fails-after-roundtrip", &id, format!("{}: trimming the deserialized parameters to the original configuration fails: {}", MODES[m].2, o.short())),
                }
            }
        }
    }
}

pub fn special(rec: &mut Rec) {
    // large parameter sets of the special APIs (cf. size_sweep)
    for d in [149usize, 200] {
        let id = format!("KZG/ser-large/D={}", d);
        if rec.take(&id) {
            rec.dim("scheme", "KZG");
            let pp = kzg_setup(d, true, rec.seed, 0);
            SKIP_PREFIXES.store(true, std::sync::atomic::Ordering::Relaxed);
            let _ = roundtrip(rec, "KZG", "params", &id, &pp, false);
            SKIP_PREFIXES.store(false, std::sync::atomic::Ordering::Relaxed);
        }
    }
    for nv in [7usize, 8] {
        let id = format!("MLP/ser-large/nv={}", nv);
        if rec.take(&id) {
            rec.dim("scheme", "MLP");
            let mut rng = seed_rng(rec.seed, 10);
            if let Ok((pp, ck, vk)) = catch(|| {
                let pp = Mlp::setup(nv, &mut rng);
                let (ck, vk) = Mlp::trim(&pp, nv - 1);
                (pp, ck, vk)
            }) {
                SKIP_PREFIXES.store(true, std::sync::atomic::Ordering::Relaxed);
                let _ = roundtrip(rec, "MLP", "params", &id, &pp, false);
                let _ = roundtrip(rec, "MLP", "committer-key", &id, &ck, false);
                let _ = roundtrip(rec, "MLP", "verifier-key", &id, &vk, false);
                SKIP_PREFIXES.store(false, std::sync::atomic::Ordering::Relaxed);
            }
        }
    }
    let id = "KZG/ser".to_string();
    if rec.take(&id) {
        rec.dim("scheme", "KZG");
        let pp = kzg_setup(4, true, rec.seed, 0);
        let vk = kzg_vk(&pp);
        let powers = kzg_powers(&pp, 4, 3);
        let _ = roundtrip(rec, "KZG", "params", &id, &pp, true);
        let _ = roundtrip(rec, "KZG", "powers", &id, &powers, true);
        let vks = roundtrip(rec, "KZG", "verifier-key", &id, &vk, true);
        use ark_poly::{DenseUVPolynomial, Polynomial};
        let r = rho_stream::<Fr381>(rec.seed, 1, 4);
        let p = UP::<Fr381>::from_coefficients_slice(&r);
        let mut rng = seed_rng(rec.seed, 0);
        if let Ok((c, st)) = Kzg::commit(&powers, &p, Some(1), Some(&mut rng as &mut dyn RngCore)) {
            let _ = roundtrip(rec, "KZG", "commitment", &id, &c, true);
            let _ = roundtrip(rec, "KZG", "randomness", &id, &st, true);
            let z = rho::<Fr381>(rec.seed, 2);
            let z2 = rho::<Fr381>(rec.seed, 3);
            if let (Ok(pf), Ok(pf2)) = (Kzg::open(&powers, &p, z, &st), Kzg::open(&powers, &p, z2, &st)) {
                let _ = roundtrip(rec, "KZG", "proof", &id, &pf, true);
                let (v, v2) = (p.evaluate(&z), p.evaluate(&z2));
                for m in 0..4 {
                    if let Some(k) = &vks[m] {
                        let a = (kzg_check(&vk, &c, z, v, &pf).accepted(), kzg_batch_check(&vk, &[c, c], &[z, z2], &[v, v2], &[pf, pf2], rec.seed, 0).accepted(), kzg_batch_check(&vk, &[c, c], &[z, z2], &[v, v2 + Fr381::one()], &[pf, pf2], rec.seed, 0).accepted());
                        let b = (kzg_check(k, &c, z, v, &pf).accepted(), kzg_batch_check(k, &[c, c], &[z, z2], &[v, v2], &[pf, pf2], rec.seed, 0).accepted(), kzg_batch_check(k, &[c, c], &[z, z2], &[v, v2 + Fr381::one()], &[pf, pf2], rec.seed, 0).accepted());
                        rec.count_points(1);
                        rec.class(if a == b { "decisions-equal" } else { "decisions-differ" });
                        if a != b {
                            viol(rec, "KZG", "verifier-key", "decision-changes", &id, format!("{}: (check, batch honest, batch tampered) = {:?} with the deserialized key vs {:?}", MODES[m].2, b, a));
                        }
                    }
                }
            }
        }
    }
    let id = "MLP/ser".to_string();
    if rec.take(&id) {
        rec.dim("scheme", "MLP");
        let mut rng = seed_rng(rec.seed, 10);
        let pp = Mlp::setup(3, &mut rng);
        let (ck, vk) = Mlp::trim(&pp, 2);
        let _ = roundtrip(rec, "MLP", "params", &id, &pp, false);
        let _ = roundtrip(rec, "MLP", "committer-key", &id, &ck, false);
        let vks = roundtrip(rec, "MLP", "verifier-key", &id, &vk, true);
        let p = crate::sch::ml_shapes::<Fr381>(2, rec.seed).pop().unwrap().1;
        let z = crate::sch::ml_points::<Fr381>(2, rec.seed)[0].1.clone();
        let c = Mlp::commit(&ck, &p);
        let pf = Mlp::open(&ck, &p, &z);
        let cs = roundtrip(rec, "MLP", "commitment", &id, &c, true);
        let ps = roundtrip(rec, "MLP", "proof", &id, &pf, true);
        use ark_poly::Polynomial;
        let v = p.evaluate(&z);
        for m in 0..4 {
            if let (Some(k), Some(c2), Some(p2)) = (&vks[m], &cs[m], &ps[m]) {
                let a = (mlp_check(&vk, &c, &z, v, &pf).accepted(), mlp_check(&vk, &c, &z, v + Fr381::one(), &pf).accepted());
                let b = (mlp_check(k, c2, &z, v, p2).accepted(), mlp_check(k, c2, &z, v + Fr381::one(), p2).accepted());
                rec.count_points(1);
                rec.class(if a == b { "decisions-equal" } else { "decisions-differ" });
                if a != b {
                    viol(rec, "MLP", "verifier-key+commitment+proof", "decision-changes", &id, format!("{}: {:?} vs {:?}", MODES[m].2, b, a));
                }
            }
        }
    }
}

pub fn run(rec: &mut Rec) {
    let full = rec.thorough();
    crate::for_each_scheme!(S, {
        scheme::<S>(rec, full);
        key_sweep::<S>(rec);
        size_sweep::<S>(rec);
    });
    special(rec);
}
