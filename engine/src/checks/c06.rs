//! C06 — linear-combination openings prove exactly the stated combinations (E1 over LCs + E3).
use crate::alpha::*;
use crate::checks::c01::slice_b_labels;
use crate::rec::Rec;
use crate::sch::*;
use crate::schemes::*;
use crate::scope::*;
use crate::tr::*;
use crate::util::*;
use ark_ff::{Field, One, Zero};
use ark_poly::Polynomial;
use ark_poly_commit::{BatchLCProof, Evaluations, LCTerm, LinearCombination, QuerySet};
use ark_std::rand::RngCore;
use std::collections::BTreeMap;

#[derive(Clone, Debug)]
pub struct TermK {
    pub coeff_name: &'static str,
    pub poly: Option<usize>, // None = One
}

/// Reference LC: map label -> coefficient, plus constant.
pub struct RefLC<F: Field> {
    pub coeffs: BTreeMap<String, F>,
    pub constant: F,
}
impl<F: Field> RefLC<F> {
    pub fn from_terms(terms: &[(F, Option<String>)]) -> Self {
        let mut coeffs = BTreeMap::new();
        let mut constant = F::zero();
        for (c, t) in terms {
            match t {
                Some(l) => *coeffs.entry(l.clone()).or_insert(F::zero()) += *c,
                None => constant += *c,
            }
        }
        RefLC { coeffs, constant }
    }
    pub fn value(&self, ev: &dyn Fn(&str) -> F) -> F {
        let mut v = self.constant;
        for (l, c) in self.coeffs.iter() {
            v += *c * ev(l);
        }
        v
    }
}

fn coeff_alpha<F: ark_ff::PrimeField>(seed: u64) -> Vec<(&'static str, F)> {
    vec![("0", F::zero()), ("1", F::one()), ("-1", -F::one()), ("r1", rho::<F>(seed, 1))]
}

fn c06_polys<S: Sch>(cfg: &KeyCfg, seed: u64) -> Vec<LP<S>> {
    let shapes = S::shapes(cfg, seed);
    let pick = |pref: &[&str]| -> S::P {
        for p in pref {
            if let Some((_, x)) = shapes.iter().find(|(n, _)| n == p) {
                return x.clone();
            }
        }
        shapes.last().unwrap().1.clone()
    };
    let p0 = pick(&["dense(5)", "dense(7)", "dense(8)", "dense"]);
    let p1 = pick(&["dense(2)", "e1", "mono[1,1]", "mono[1,1,0]"]);
    let p2 = pick(&["dense(3)", "e2", "mono[0,2]", "mono[2,0]"]);
    let bound = if S::BOUNDS {
        if S::NAME == "IPA" {
            Some(3)
        } else {
            cfg.bounds.as_ref().map(|b| b[0])
        }
    } else {
        None
    };
    vec![
        lp::<S>("p0", p0, None, None),
        lp::<S>("p1", p1, None, if S::HIDING { Some(1) } else { None }),
        lp::<S>("p2", p2, bound, None),
    ]
}

struct LcSpec<F: Field> {
    name: String,
    terms: Vec<(F, Option<usize>)>,
}

fn build_lc<F: ark_ff::PrimeField>(label: &str, terms: &[(F, Option<usize>)]) -> LinearCombination<F> {
    let mut lc = LinearCombination::<F>::empty(label);
    for (c, t) in terms {
        match t {
            Some(j) => {
                lc.push((*c, LCTerm::PolyLabel(format!("p{}", j))));
            }
            None => {
                lc.push((*c, LCTerm::One));
            }
        }
    }
    lc
}

fn ref_of<F: ark_ff::PrimeField>(terms: &[(F, Option<usize>)]) -> RefLC<F> {
    let t: Vec<(F, Option<String>)> = terms.iter().map(|(c, j)| (*c, j.map(|x| format!("p{}", x)))).collect();
    RefLC::from_terms(&t)
}

fn enumerate_lcs<F: ark_ff::PrimeField>(seed: u64, max_len: usize) -> Vec<LcSpec<F>> {
    let ca = coeff_alpha::<F>(seed);
    let mut kinds: Vec<(String, F, Option<usize>)> = Vec::new();
    for j in 0..3usize {
        for (cn, c) in ca.iter() {
            kinds.push((format!("{}*p{}", cn, j), *c, Some(j)));
        }
    }
    for (cn, c) in ca.iter() {
        kinds.push((format!("{}*One", cn), *c, None));
    }
    let mut out = Vec::new();
    fn rec_build<F: ark_ff::PrimeField>(kinds: &[(String, F, Option<usize>)], len: usize, cur: &mut Vec<usize>, out: &mut Vec<LcSpec<F>>) {
        if cur.len() == len {
            let terms: Vec<(F, Option<usize>)> = cur.iter().map(|i| (kinds[*i].1, kinds[*i].2)).collect();
            if terms.iter().any(|(_, t)| t.is_some()) {
                let name = cur.iter().map(|i| kinds[*i].0.clone()).collect::<Vec<_>>().join("+");
                out.push(LcSpec { name, terms });
            }
            return;
        }
        for i in 0..kinds.len() {
            cur.push(i);
            rec_build(kinds, len, cur, out);
            cur.pop();
        }
    }
    for len in 1..=max_len {
        rec_build(&kinds, len, &mut Vec::new(), &mut out);
    }
    // a few longer combinations in every tier: SEVERAL constant terms (before, between and after polynomial terms),
    // as the public arithmetic on combinations produces them (`lc += c1; lc -= c2`, sums of combinations with constants)
    if max_len < 4 {
        let (one, r1, m1) = (F::one(), ca.iter().find(|(n, _)| *n != "0" && *n != "1" && *n != "-1").map(|x| x.1).unwrap_or(F::from(7u64)), -F::one());
        let extra: Vec<Vec<(F, Option<usize>)>> = vec![
            vec![(one, Some(0)), (one, None), (r1, None)],
            vec![(one, None), (one, Some(0)), (m1, None)],
            vec![(r1, None), (one, Some(0)), (r1, Some(1)), (one, None)],
            vec![(one, Some(0)), (one, None), (one, Some(1)), (r1, None), (m1, Some(0)), (one, None)],
            vec![(one, None), (one, None), (r1, Some(1))],
        ];
        for (i, terms) in extra.into_iter().enumerate() {
            out.push(LcSpec { name: format!("multi-constant-{}", i), terms });
        }
    }
    out
}

/// Must the scheme refuse this LC (it would drop or scale an enforced degree bound)?
fn must_refuse<S: Sch, F: Field>(terms: &[(F, Option<usize>)], bounded: &[bool]) -> bool {
    if !S::BOUNDS {
        return false;
    }
    let has_bounded = terms.iter().any(|(_, t)| t.map(|j| bounded[j]).unwrap_or(false));
    if !has_bounded {
        return false;
    }
    !(terms.len() == 1 && terms[0].0.is_one())
}

fn run_check<S: Sch>(
    keys: &Keys<S>,
    lcs: &[LinearCombination<S::F>],
    comms: &[&LCm<S>],
    qs: &QuerySet<S::Pt>,
    evals: &Evaluations<S::Pt, S::F>,
    proof: &BatchLCProof<S::F, BPf<S>>,
    seed: u64,
) -> Dec {
    let mut sponge = sponge_pre::<S::F>(0);
    let mut rng = seed_rng(seed, 40);
    do_check_comb::<S>(&keys.vk, lcs, comms, qs, evals, proof, &mut sponge, &mut rng)
}

pub fn scheme<S: Sch>(rec: &mut Rec, max_len: usize) {
    let cfg = slice_b::<S>();
    let keys = match build_keys::<S>(&cfg, rec.seed) {
        Ok(k) => k,
        Err(_) => return,
    };
    let c = match commit_set::<S>(&keys, c06_polys::<S>(&cfg, rec.seed), rec.seed, 0) {
        Ok(c) => c,
        Err(o) => {
            if rec.take(&format!("{}/LC/setup", S::NAME)) {
                rec.violation(&format!("C06/{}/commit/setup", S::NAME), &format!("{}/LC/setup", S::NAME), format!("commit failed: {}", o.short()));
            }
            return;
        }
    };
    let bounded: Vec<bool> = c.polys.iter().map(|p| p.degree_bound().is_some()).collect();
    let collide = true;
    let labels = slice_b_labels::<S>(&cfg, rec.seed);
    let (polys, comms, states) = c.refs();
    let specs = enumerate_lcs::<S::F>(rec.seed, max_len);
    rec.scope(format!("{}: {} linear combinations (term lists of length <= {} over 16 term kinds, >= 1 polynomial term), query-set variants single / two points / two labels sharing a value / two LCs", S::NAME, specs.len(), max_len));
    let eval_at = |j: usize, z: &S::Pt| c.polys[j].polynomial().evaluate(z);
    // a fixed companion LC for the two-LC query sets
    let comp_terms: Vec<(S::F, Option<usize>)> = vec![(S::F::one(), Some(0)), (S::F::from(2u64), Some(1)), (S::F::from(5u64), None)];
    for (si, spec) in specs.iter().enumerate() {
        // query-set variants: every LC gets Q1; every 5th LC also gets the wider variants
        let variants: Vec<&str> = if si % 5 == 0 || rec.thorough() { vec!["Q1", "Q2", "Q3", "Q4", "Q5"] } else { vec!["Q1"] };
        for qv in variants {
          // combination labels: fresh ones, and - for the wider variants - labels that COLLIDE with the labels of committed
          // polynomials (combination and polynomial labels are separate namespaces of the interface)
          let name_variants: Vec<(&str, &str)> = if (si % 5 == 0 || rec.thorough()) && (qv == "Q1" || qv == "Q4") && collide { vec![("L", "M"), ("p1", "p0")] } else { vec![("L", "M")] };
          for (la, lb) in name_variants {
            let id = if la == "L" { format!("{}/LC/{}/{}", S::NAME, spec.name, qv) } else { format!("{}/LC/{}/{}/labels={},{}", S::NAME, spec.name, qv, la, lb) };
            if !rec.take(&id) {
                continue;
            }
            rec.dim("scheme", S::NAME);
            rec.dim("qvariant", qv);
            let lc = build_lc::<S::F>(la, &spec.terms);
            let comp = build_lc::<S::F>(lb, &comp_terms);
            let (a, b, cc) = (&labels[0], &labels[1], &labels[2]);
            let mut qs = QuerySet::<S::Pt>::new();
            let mut lcs = vec![lc.clone()];
            match qv {
                "Q1" => {
                    qs.insert((la.to_string(), (a.0.clone(), a.1.clone())));
                }
                "Q2" => {
                    qs.insert((la.to_string(), (a.0.clone(), a.1.clone())));
                    qs.insert((la.to_string(), (cc.0.clone(), cc.1.clone())));
                }
                "Q3" => {
                    qs.insert((la.to_string(), (a.0.clone(), a.1.clone())));
                    qs.insert((la.to_string(), (b.0.clone(), b.1.clone())));
                }
                "Q4" => {
                    lcs.push(comp.clone());
                    qs.insert((la.to_string(), (a.0.clone(), a.1.clone())));
                    qs.insert((lb.to_string(), (a.0.clone(), a.1.clone())));
                }
                _ => {
                    lcs.push(comp.clone());
                    qs.insert((la.to_string(), (a.0.clone(), a.1.clone())));
                    qs.insert((lb.to_string(), (b.0.clone(), b.1.clone())));
                }
            }
            let refl = ref_of::<S::F>(&spec.terms);
            let refm = ref_of::<S::F>(&comp_terms);
            let mut evals: Evaluations<S::Pt, S::F> = Evaluations::new();
            for (l, (_, z)) in qs.iter() {
                let r = if l == la { &refl } else { &refm };
                let v = r.value(&|pl: &str| eval_at(pl[1..].parse::<usize>().unwrap(), z));
                evals.insert((l.clone(), z.clone()), v);
            }
            let refuse = must_refuse::<S, S::F>(&spec.terms, &bounded);
            let mut sponge = sponge_pre::<S::F>(0);
            let mut rng = seed_rng(rec.seed, 20);
            let opened = do_open_comb::<S>(&keys.ck, &lcs, &polys, &comms, &qs, &mut sponge, &states, Some(&mut rng as &mut dyn RngCore));
            rec.op(1);
            rec.obs(&format!("{}|{}|refuse={}|open={}", S::NAME, qv, refuse, opened.is_ok()));
            if refuse {
                match opened {
                    Err(_) => rec.class("bound-drop-refused"),
                    Ok(pf) => {
                        rec.class("bound-drop-opened");
                        let d = run_check::<S>(&keys, &lcs, &comms, &qs, &evals, &pf, rec.seed);
                        rec.violation(&format!("C06/{}/open_combinations/bound-dropped", S::NAME), &id, format!("a combination that mixes or scales a degree-bounded polynomial was opened instead of refused (verifier: {})", d.short()));
                    }
                }
                continue;
            }
            let pf = match opened {
                Ok(p) => p,
                Err(o) => {
                    rec.class("open-failed");
                    rec.violation(&format!("C06/{}/open_combinations/refused-valid", S::NAME), &id, format!("open_combinations failed on a valid combination: {}", o.short()));
                    continue;
                }
            };
            let honest = run_check::<S>(&keys, &lcs, &comms, &qs, &evals, &pf, rec.seed);
            rec.op(1);
            rec.class(&format!("honest-{}", honest.class()));
            if !honest.accepted() {
                rec.violation(&format!("C06/{}/check_combinations/honest-rejected/{}", S::NAME, qv), &id, format!("honest combination proof not accepted for the true values: {}", honest.short()));
                continue;
            }
            rec.sample(&format!("{}-lc", S::NAME), format!("{} -> accepted; faults: value, coefficient, constant, transmitted evaluations", id));
            let mut fault = |rec: &mut Rec, op: &str, d: Dec, detail: String| {
                rec.count_points(1);
                rec.op(1);
                rec.class(&format!("fault-{}", d.class()));
                rec.obs(&format!("{}|{}|{}", S::NAME, op, d.class()));
                if d.accepted() {
                    rec.violation(&format!("C06/{}/check_combinations/{}", S::NAME, op), &id, format!("{}: {}", detail, d.short()));
                }
            };
            // (1) claimed value + delta at every entry
            for k in evals.keys().cloned().collect::<Vec<_>>() {
                for (dn, dl) in [("+1", S::F::one()), ("+r1", rho::<S::F>(rec.seed, 1))] {
                    let mut ev = evals.clone();
                    *ev.get_mut(&k).unwrap() += dl;
                    let d = run_check::<S>(&keys, &lcs, &comms, &qs, &ev, &pf, rec.seed);
                    fault(rec, "value+delta", d, format!("claimed value of {} {}", k.0, dn));
                }
            }
            // (2) a verifier-side coefficient changed
            for t in 0..spec.terms.len() {
                if spec.terms[t].1.is_none() {
                    continue;
                }
                let mut terms2 = spec.terms.clone();
                terms2[t].0 += S::F::one();
                let r2 = ref_of::<S::F>(&terms2);
                let still = qs.iter().filter(|(l, _)| l == la).all(|(l, (_, z))| r2.value(&|pl: &str| eval_at(pl[1..].parse::<usize>().unwrap(), z)) == *evals.get(&(l.clone(), z.clone())).unwrap());
                if still {
                    rec.class("still-true");
                    continue;
                }
                if must_refuse::<S, S::F>(&terms2, &bounded) {
                    // the altered combination is itself one the verifier must refuse
                }
                let mut lcs2 = lcs.clone();
                lcs2[0] = build_lc::<S::F>(la, &terms2);
                let d = run_check::<S>(&keys, &lcs2, &comms, &qs, &evals, &pf, rec.seed);
                fault(rec, "coefficient", d, format!("verifier-side coefficient of term {} changed by +1", t));
            }
            // (3) a verifier-side constant added
            {
                let mut terms2 = spec.terms.clone();
                terms2.push((S::F::one(), None));
                let mut lcs2 = lcs.clone();
                lcs2[0] = build_lc::<S::F>(la, &terms2);
                let d = run_check::<S>(&keys, &lcs2, &comms, &qs, &evals, &pf, rec.seed);
                fault(rec, "constant", d, "verifier-side constant term +1 added".into());
            }
            // (4) transmitted evaluations changed (default implementation ships them)
            if let Some(ev) = &pf.evals {
                for i in 0..ev.len() {
                    let mut p2 = BatchLCProof { proof: pf.proof.clone(), evals: Some(ev.clone()) };
                    p2.evals.as_mut().unwrap()[i] += S::F::one();
                    let d = run_check::<S>(&keys, &lcs, &comms, &qs, &evals, &p2, rec.seed);
                    fault(rec, "transmitted-eval", d, format!("transmitted evaluation {} changed by +1", i));
                }
                // two transmitted evaluations changed so that the combination value is unchanged
                let z = &a.1;
                let nz: Vec<(usize, S::F)> = refl.coeffs.iter().filter(|(_, c)| !c.is_zero()).map(|(l, c)| (l[1..].parse::<usize>().unwrap(), *c)).collect();
                if nz.len() >= 2 {
                    let (j0, c0) = nz[0];
                    let (j1, c1) = nz[1];
                    let (v0, v1) = (eval_at(j0, z), eval_at(j1, z));
                    let i0 = ev.iter().position(|x| *x == v0);
                    let i1 = ev.iter().position(|x| *x == v1);
                    if let (Some(i0), Some(i1)) = (i0, i1) {
                        if i0 != i1 {
                            let mut p2 = BatchLCProof { proof: pf.proof.clone(), evals: Some(ev.clone()) };
                            let e = p2.evals.as_mut().unwrap();
                            e[i0] += c0.inverse().unwrap();
                            e[i1] -= c1.inverse().unwrap();
                            let d = run_check::<S>(&keys, &lcs, &comms, &qs, &evals, &p2, rec.seed);
                            fault(rec, "transmitted-evals-cancelling", d, format!("transmitted evaluations {} and {} changed so that the combination value stays the same", i0, i1));
                        }
                    }
                }
            }
          }
        }
    }
}

pub fn run(rec: &mut Rec) {
    let max_len = if rec.thorough() { 3 } else { 2 };
    crate::for_each_scheme!(S, {
        scheme::<S>(rec, max_len);
    });
}
