//! Scopes: the finite key-configuration spaces the checks enumerate (DESIGN section 4, C01 slices).
use crate::sch::*;

/// Enforced-bound lists over 0..=top: None, [], [d], [d1,d2], [d2,d1], [d,d]
pub fn bound_lists(lo: usize, top: usize, pairs: bool) -> Vec<Option<Vec<usize>>> {
    let mut out: Vec<Option<Vec<usize>>> = vec![None, Some(vec![])];
    for d in lo..=top {
        out.push(Some(vec![d]));
    }
    if pairs {
        for d1 in lo..=top {
            for d2 in (d1 + 1)..=top {
                out.push(Some(vec![d1, d2]));
                out.push(Some(vec![d2, d1]));
            }
        }
        for d in lo..=top {
            out.push(Some(vec![d, d]));
        }
    }
    out
}

/// Slice A: key/degree arithmetic for the degree-bound schemes.
pub fn slice_a<S: Sch>(dmax: usize) -> Vec<KeyCfg> {
    let mut out = Vec::new();
    if !S::BOUNDS {
        return out;
    }
    if S::NAME == "IPA" {
        let mut d = 1;
        while d <= dmax {
            let mut s = 1;
            while s <= d {
                out.push(KeyCfg::uni(d, s, 1, None));
                s = 2 * s + 1;
            }
            d = 2 * d + 1;
        }
        return out;
    }
    for d in 1..=dmax {
        for s in 1..=d {
            // Marlin's trim accepts bounds in (s, D]; Sonic refuses them
            let top = if S::NAME.starts_with("MAR") { d } else { s };
            for b in bound_lists(1, top, true) {
                for hid in [1usize, d] {
                    if hid == d && d == 1 {
                        continue;
                    }
                    out.push(KeyCfg::uni(d, s, hid, b.clone()));
                }
            }
        }
    }
    out
}

/// Slice B: one fixed key per scheme (query-set shapes, listing order, histories, LCs).
pub fn slice_b<S: Sch>() -> KeyCfg {
    match S::FAM {
        Fam::Uni => {
            if S::NAME == "IPA" {
                KeyCfg::uni(7, 7, 1, None)
            } else if S::BOUNDS {
                KeyCfg::uni(6, 5, 2, Some(vec![3, 4]))
            } else {
                KeyCfg::uni(8, 8, 1, None)
            }
        }
        Fam::Ml => KeyCfg::ml(if S::NAME == "HYR" { 4 } else { 3 }),
        Fam::Mv => KeyCfg::mv(2, 3, 3),
    }
}

/// Slice C: scheme-specific sizes.
pub fn slice_c<S: Sch>(thorough: bool) -> Vec<KeyCfg> {
    let mut out = Vec::new();
    match S::NAME {
        "PST" => {
            let m = if thorough { 4 } else { 3 };
            for nv in 1..=m {
                for d in 1..=m {
                    for s in 1..=d {
                        out.push(KeyCfg::mv(nv, d, s));
                    }
                }
            }
        }
        "HYR" => {
            for nv in if thorough { vec![0, 2, 4, 6] } else { vec![0, 2, 4] } {
                out.push(KeyCfg::ml(nv));
            }
        }
        "MLL" | "BRK" => {
            let top = if thorough { 10 } else { 7 };
            for nv in 1..=top {
                out.push(KeyCfg::ml(nv));
            }
            // alternative parameter sets through the public constructors
            for nv in [2usize, 5] {
                for lc in [(128usize, 4usize, false), (80, 2, true), (128, 2, false)] {
                    if S::NAME == "BRK" && lc.1 != 2 {
                        continue;
                    }
                    let mut c = KeyCfg::ml(nv);
                    c.lc = Some(lc);
                    out.push(c);
                }
            }
        }
        "LIG" => {
            // the key does not depend on the degree; degrees are enumerated by the check
            out.push(KeyCfg::uni(1 << 20, 1 << 20, 1, None));
            for lc in [(128usize, 4usize, false), (128, 2, true), (80, 2, true)] {
                let mut c = KeyCfg::uni(1 << 20, 1 << 20, 1, None);
                c.lc = Some(lc);
                out.push(c);
            }
        }
        _ => {}
    }
    out
}
