//! pcmc — bounded exhaustive model checker for ark-poly-commit (see /verif/DESIGN.md).
#![allow(dead_code, unused_imports, unused_variables, clippy::all)]
mod alpha;
mod checks;
mod rec;
mod refm;
mod sch;
mod schemes;
mod mirror;
mod pmut;
mod scope;
mod source;
mod special;
mod tr;
mod util;

use rec::Rec;

fn usage() -> ! {
    eprintln!("usage: pcmc run <Cxx> [--tier quick|thorough] [--seed N] [--shard i/n] [--out FILE] [--only SUBSTR] [--cap SECONDS]\n       pcmc replay <Cxx> <point-id> [--tier T] [--seed N]");
    std::process::exit(2)
}

fn dispatch(prop: &str, rec: &mut Rec) {
    match prop {
        "C01" => checks::c01::run(rec),
        "C02" => checks::c02::run(rec),
        "C03" => checks::c03::run(rec),
        "C04" => checks::c04::run(rec),
        "C05" => checks::c05::run(rec),
        "C06" => checks::c06::run(rec),
        "C07" => checks::c07::run(rec),
        "C08" => checks::c08::run(rec),
        "C09" => checks::c09::run(rec),
        "C10" => checks::c10::run(rec),
        "C12" => checks::c12::run(rec),
        "C13" => checks::c13::run(rec),
        "C14" => checks::c14::run(rec),
        "C15" => checks::c15::run(rec),
        "C16" => checks::c16::run(rec),
        "C17" => checks::c17::run(rec),
        "C18" => checks::c18::run(rec),
        "C19" => checks::c19::run(rec),
        "C11" => checks::c11::run(rec),
        _ => {
            eprintln!("unknown property {}", prop);
            std::process::exit(2)
        }
    }
}

fn main() {
    let args: Vec<String> = std::env::args().collect();
    if args.len() < 3 {
        usage();
    }
    let mode = args[1].clone();
    let prop = args[2].clone();
    let mut tier = std::env::var("VERIF_TIER").unwrap_or_else(|_| "quick".into());
    let mut seed: u64 = std::env::var("VERIF_SEED").ok().and_then(|s| s.parse().ok()).unwrap_or(0);
    let mut shard = (0usize, 1usize);
    let mut out: Option<String> = None;
    let mut only: Option<String> = None;
    let mut cap: Option<f64> = None;
    let mut pos: Vec<String> = Vec::new();
    let mut i = 3;
    while i < args.len() {
        match args[i].as_str() {
            "--tier" => {
                tier = args[i + 1].clone();
                i += 2;
            }
            "--seed" => {
                seed = args[i + 1].parse().expect("seed");
                i += 2;
            }
            "--shard" => {
                let p: Vec<&str> = args[i + 1].split('/').collect();
                shard = (p[0].parse().unwrap(), p[1].parse().unwrap());
                i += 2;
            }
            "--out" => {
                out = Some(args[i + 1].clone());
                i += 2;
            }
            "--only" => {
                only = Some(args[i + 1].clone());
                i += 2;
            }
            "--cap" => {
                cap = Some(args[i + 1].parse().expect("cap"));
                i += 2;
            }
            _ => {
                pos.push(args[i].clone());
                i += 1;
            }
        }
    }
    util::silence_panics();
    let mut rec = Rec::new(&prop, &tier, seed, shard);
    rec.only = only;
    if let Some(c) = cap {
        rec.wall_cap_s = c;
    }
    match mode.as_str() {
        "f-digest" => {
            // pcmc f-digest C01 <scheme> <universe> [--seed N]
            let u: usize = pos.get(1).and_then(|x| x.parse().ok()).unwrap_or(0);
            checks::c01::print_flow_digest(seed, pos.get(0).map(|s| s.as_str()).unwrap_or(""), u);
        }
        "c18-digest" => {
            checks::c18::print_digests(seed, rec.only.as_deref());
        }
        "run" => {
            dispatch(&prop, &mut rec);
            rec.finish(out.as_deref());
        }
        "replay" => {
            if pos.is_empty() {
                usage();
            }
            rec.replay = Some(pos[0].clone());
            dispatch(&prop, &mut rec);
            println!("{}", rec.to_json());
            if rec.executed == 0 {
                eprintln!("replay: point id not found in the enumerated space");
                std::process::exit(2);
            }
            std::process::exit(if rec.violations.is_empty() { 0 } else { 1 });
        }
        _ => usage(),
    }
}
