//! Recorder: sharding, coverage bookkeeping and violation collection for one worker.
use crate::util::{hash_str, jesc};
use std::collections::{BTreeMap, BTreeSet, HashSet};
use std::io::Write;
use std::time::Instant;

pub struct Viol {
    pub sig: String,
    pub point: String,
    pub detail: String,
}

pub struct Rec {
    pub prop: String,
    pub tier: String,
    pub seed: u64,
    pub shard: (usize, usize),
    pub replay: Option<String>,
    pub only: Option<String>,
    seen: u64,
    extra: u64,
    pub executed: u64,
    pub ops: u64,
    classes: BTreeMap<String, u64>,
    dims: BTreeMap<String, BTreeMap<String, u64>>,
    distinct: HashSet<u64>,
    samples: Vec<String>,
    sample_classes: BTreeSet<String>,
    pub violations: Vec<Viol>,
    viol_sigs: BTreeMap<String, u64>,
    notes: Vec<String>,
    scopes: Vec<String>,
    pub exhaustive: bool,
    caps: Vec<String>,
    start: Instant,
    pub wall_cap_s: f64,
}

impl Rec {
    pub fn new(prop: &str, tier: &str, seed: u64, shard: (usize, usize)) -> Self {
        Rec {
            prop: prop.to_string(),
            tier: tier.to_string(),
            seed,
            shard,
            replay: None,
            only: None,
            seen: 0,
            extra: 0,
            executed: 0,
            ops: 0,
            classes: BTreeMap::new(),
            dims: BTreeMap::new(),
            distinct: HashSet::new(),
            samples: Vec::new(),
            sample_classes: BTreeSet::new(),
            violations: Vec::new(),
            viol_sigs: BTreeMap::new(),
            notes: Vec::new(),
            scopes: Vec::new(),
            exhaustive: true,
            caps: Vec::new(),
            start: Instant::now(),
            wall_cap_s: f64::INFINITY,
        }
    }

    pub fn thorough(&self) -> bool {
        self.tier == "thorough"
    }

    /// Register a point of the enumerated space. Returns true when this worker must execute it.
    pub fn take(&mut self, id: &str) -> bool {
        let idx = self.seen;
        self.seen += 1;
        let mine = if let Some(r) = &self.replay {
            r == id
        } else {
            if let Some(o) = &self.only {
                if !id.contains(o.as_str()) {
                    return false;
                }
            }
            (idx % self.shard.1 as u64) == self.shard.0 as u64
        };
        if mine {
            if self.over_cap() {
                return false;
            }
            self.executed += 1;
        }
        mine
    }

    /// Coarse ownership test without registering a point (for sharding big sub-trees).
    pub fn owns_index(&self, idx: u64) -> bool {
        if self.replay.is_some() {
            return true;
        }
        (idx % self.shard.1 as u64) == self.shard.0 as u64
    }

    /// Points of a sub-space hanging off an owned point (e.g. the fault neighbourhood of a
    /// transcript). They do not take part in sharding.
    pub fn count_points(&mut self, n: u64) {
        self.extra += n;
        self.executed += n;
    }

    pub fn over_cap(&mut self) -> bool {
        if self.start.elapsed().as_secs_f64() > self.wall_cap_s {
            if self.exhaustive {
                self.exhaustive = false;
                self.caps.push(format!(
                    "wall cap {}s hit after {} executed points",
                    self.wall_cap_s, self.executed
                ));
            }
            true
        } else {
            false
        }
    }

    pub fn op(&mut self, n: u64) {
        self.ops += n;
    }

    pub fn class(&mut self, name: &str) {
        *self.classes.entry(name.to_string()).or_insert(0) += 1;
    }

    pub fn class_n(&mut self, name: &str, n: u64) {
        *self.classes.entry(name.to_string()).or_insert(0) += n;
    }

    pub fn dim(&mut self, dim: &str, val: &str) {
        *self
            .dims
            .entry(dim.to_string())
            .or_default()
            .entry(val.to_string())
            .or_insert(0) += 1;
    }

    /// Record an observation class for the distinct-nontrivial count.
    pub fn obs(&mut self, s: &str) {
        self.distinct.insert(hash_str(s));
    }
    pub fn obs_hash(&mut self, h: u64) {
        self.distinct.insert(h);
    }

    /// Keep a sample: the first few overall and the first of each class.
    pub fn sample(&mut self, class: &str, s: String) {
        if self.samples.len() < 3 || (self.samples.len() < 24 && !self.sample_classes.contains(class)) {
            self.sample_classes.insert(class.to_string());
            self.samples.push(s);
        }
    }

    pub fn note(&mut self, s: String) {
        if self.notes.len() < 64 {
            self.notes.push(s);
        }
    }

    pub fn scope(&mut self, s: String) {
        self.scopes.push(s);
    }

    pub fn cap(&mut self, s: String) {
        self.exhaustive = false;
        self.caps.push(s);
    }

    pub fn violation(&mut self, sig: &str, point: &str, detail: String) {
        let c = self.viol_sigs.entry(sig.to_string()).or_insert(0);
        *c += 1;
        // keep at most 5 instances per signature
        if *c <= 5 {
            if self.replay.is_some() {
                eprintln!("VIOLATION-DETAIL sig={} point={} detail={}", sig, point, detail);
            }
            self.violations.push(Viol {
                sig: sig.to_string(),
                point: point.to_string(),
                detail,
            });
        }
    }

    pub fn is_replay(&self) -> bool {
        self.replay.is_some()
    }

    pub fn to_json(&self) -> String {
        let mut o = String::new();
        o.push_str("{");
        o.push_str(&format!("\"property\":\"{}\",", jesc(&self.prop)));
        o.push_str(&format!("\"tier\":\"{}\",", jesc(&self.tier)));
        o.push_str(&format!("\"seed\":{},", self.seed));
        o.push_str(&format!("\"shard\":[{},{}],", self.shard.0, self.shard.1));
        o.push_str(&format!("\"space\":{},", self.seen));
        o.push_str(&format!("\"extra\":{},", self.extra));
        o.push_str(&format!("\"executed\":{},", self.executed));
        o.push_str(&format!("\"ops\":{},", self.ops));
        o.push_str(&format!("\"exhaustive\":{},", self.exhaustive));
        o.push_str(&format!("\"wall_s\":{:.3},", self.start.elapsed().as_secs_f64()));
        o.push_str("\"classes\":{");
        o.push_str(
            &self
                .classes
                .iter()
                .map(|(k, v)| format!("\"{}\":{}", jesc(k), v))
                .collect::<Vec<_>>()
                .join(","),
        );
        o.push_str("},\"dims\":{");
        o.push_str(
            &self
                .dims
                .iter()
                .map(|(d, m)| {
                    format!(
                        "\"{}\":{{{}}}",
                        jesc(d),
                        m.iter()
                            .map(|(k, v)| format!("\"{}\":{}", jesc(k), v))
                            .collect::<Vec<_>>()
                            .join(",")
                    )
                })
                .collect::<Vec<_>>()
                .join(","),
        );
        o.push_str("},\"distinct\":[");
        let mut d: Vec<_> = self.distinct.iter().collect();
        d.sort();
        o.push_str(
            &d.iter()
                .map(|h| format!("\"{:016x}\"", h))
                .collect::<Vec<_>>()
                .join(","),
        );
        o.push_str("],\"samples\":[");
        o.push_str(
            &self
                .samples
                .iter()
                .map(|s| format!("\"{}\"", jesc(s)))
                .collect::<Vec<_>>()
                .join(","),
        );
        o.push_str("],\"scopes\":[");
        o.push_str(
            &self
                .scopes
                .iter()
                .map(|s| format!("\"{}\"", jesc(s)))
                .collect::<Vec<_>>()
                .join(","),
        );
        o.push_str("],\"caps\":[");
        o.push_str(
            &self
                .caps
                .iter()
                .map(|s| format!("\"{}\"", jesc(s)))
                .collect::<Vec<_>>()
                .join(","),
        );
        o.push_str("],\"notes\":[");
        o.push_str(
            &self
                .notes
                .iter()
                .map(|s| format!("\"{}\"", jesc(s)))
                .collect::<Vec<_>>()
                .join(","),
        );
        o.push_str("],\"violation_counts\":{");
        o.push_str(
            &self
                .viol_sigs
                .iter()
                .map(|(k, v)| format!("\"{}\":{}", jesc(k), v))
                .collect::<Vec<_>>()
                .join(","),
        );
        o.push_str("},\"violations\":[");
        o.push_str(
            &self
                .violations
                .iter()
                .map(|v| {
                    format!(
                        "{{\"sig\":\"{}\",\"point\":\"{}\",\"detail\":\"{}\"}}",
                        jesc(&v.sig),
                        jesc(&v.point),
                        jesc(&v.detail)
                    )
                })
                .collect::<Vec<_>>()
                .join(","),
        );
        o.push_str("]}");
        o
    }

    pub fn finish(&self, out: Option<&str>) {
        let j = self.to_json();
        match out {
            Some(p) => {
                let mut f = std::fs::File::create(p).expect("create out");
                f.write_all(j.as_bytes()).expect("write out");
            }
            None => println!("{}", j),
        }
    }
}
