//! Scheme instantiations (DESIGN 3.1): type aliases, sponge, Merkle configuration.
use ark_crypto_primitives::{
    crh::{sha256::Sha256, CRHScheme, TwoToOneCRHScheme},
    merkle_tree::{ByteDigestConverter, Config},
    sponge::poseidon::{PoseidonConfig, PoseidonSponge},
    sponge::CryptographicSponge,
};
use ark_ff::PrimeField;
use ark_poly::{
    multivariate::{SparsePolynomial, SparseTerm},
    univariate::DensePolynomial,
    DenseMultilinearExtension,
};
use ark_poly_commit::{
    hyrax::HyraxPC,
    ipa_pc::InnerProductArgPC,
    linear_codes::{LinearCodePCS, MultilinearBrakedown, MultilinearLigero, UnivariateLigero},
    marlin_pc::MarlinKZG10,
    marlin_pst13_pc::MarlinPST13,
    sonic_pc::SonicKZG10,
};
use ark_serialize::CanonicalSerialize;
use ark_std::{borrow::Borrow, marker::PhantomData, rand::RngCore, UniformRand};
use blake2::Blake2s256;
use digest::Digest;

pub type E381 = ark_bls12_381::Bls12_381;
pub type Fr381 = ark_bls12_381::Fr;
pub type E377 = ark_bls12_377::Bls12_377;
pub type Fr377 = ark_bls12_377::Fr;
pub type GJ = ark_ed_on_bls12_381::EdwardsAffine;
pub type FrJ = ark_ed_on_bls12_381::Fr;

pub type UP<F> = DensePolynomial<F>;
pub type MVP<F> = SparsePolynomial<F, SparseTerm>;
pub type MLE<F> = DenseMultilinearExtension<F>;

pub type Kzg = ark_poly_commit::kzg10::KZG10<E381, UP<Fr381>>;
pub type Mar = MarlinKZG10<E381, UP<Fr381>>;
pub type Son = SonicKZG10<E381, UP<Fr381>>;
pub type Mar377 = MarlinKZG10<E377, UP<Fr377>>;
pub type Son377 = SonicKZG10<E377, UP<Fr377>>;
pub type Ipa = InnerProductArgPC<GJ, Blake2s256, UP<FrJ>>;
pub type Pst = MarlinPST13<E381, MVP<Fr381>>;
pub type Hyr = HyraxPC<GJ, MLE<FrJ>>;

pub type Sponge<F> = PoseidonSponge<F>;

/// The suite's `poseidon_parameters_for_test` (DESIGN A.2).
pub fn poseidon_config<F: PrimeField>() -> PoseidonConfig<F> {
    let full_rounds = 8;
    let partial_rounds = 31;
    let alpha = 17;
    let mds = vec![
        vec![F::one(), F::zero(), F::one()],
        vec![F::one(), F::one(), F::zero()],
        vec![F::zero(), F::one(), F::one()],
    ];
    let mut ark = Vec::new();
    let mut ark_rng = ark_std::test_rng();
    for _ in 0..(full_rounds + partial_rounds) {
        let mut res = Vec::new();
        for _ in 0..3 {
            res.push(F::rand(&mut ark_rng));
        }
        ark.push(res);
    }
    PoseidonConfig::new(full_rounds, partial_rounds, alpha, mds, ark, 2, 1)
}

pub fn new_sponge<F: PrimeField>() -> Sponge<F> {
    PoseidonSponge::new(&poseidon_config())
}

/// Sponge pre-states for C11: 0 = fresh, 1 = absorbed bytes, 2 = absorbed field elements.
pub fn sponge_pre<F: PrimeField + ark_crypto_primitives::sponge::Absorb>(pre: usize) -> Sponge<F> {
    let mut s = new_sponge::<F>();
    match pre {
        0 => {}
        1 => s.absorb(&b"pcmc pre-state bytes".to_vec()),
        2 => s.absorb(&vec![F::from(7u64), F::from(11u64)]),
        _ => s.absorb(&vec![F::from(pre as u64)]),
    }
    s
}

// ---- Merkle configuration for the linear-code schemes (DESIGN A.3) ----

pub struct LeafIdentityHasher;
impl CRHScheme for LeafIdentityHasher {
    type Input = Vec<u8>;
    type Output = Vec<u8>;
    type Parameters = ();
    fn setup<R: RngCore>(_: &mut R) -> Result<Self::Parameters, ark_crypto_primitives::Error> {
        Ok(())
    }
    fn evaluate<T: Borrow<Self::Input>>(
        _: &Self::Parameters,
        input: T,
    ) -> Result<Self::Output, ark_crypto_primitives::Error> {
        Ok(input.borrow().to_vec().into())
    }
}

pub struct FieldToBytesColHasher<F, D>
where
    F: PrimeField + CanonicalSerialize,
    D: Digest,
{
    _phantom: PhantomData<(F, D)>,
}
impl<F, D> CRHScheme for FieldToBytesColHasher<F, D>
where
    F: PrimeField + CanonicalSerialize,
    D: Digest,
{
    type Input = Vec<F>;
    type Output = Vec<u8>;
    type Parameters = ();
    fn setup<R: RngCore>(_rng: &mut R) -> Result<Self::Parameters, ark_crypto_primitives::Error> {
        Ok(())
    }
    fn evaluate<T: Borrow<Self::Input>>(
        _parameters: &Self::Parameters,
        input: T,
    ) -> Result<Self::Output, ark_crypto_primitives::Error> {
        let mut dig = D::new();
        let mut buf = Vec::new();
        input.borrow().serialize_compressed(&mut buf).unwrap();
        dig.update(buf);
        Ok(dig.finalize().to_vec())
    }
}

pub struct MT;
impl Config for MT {
    type Leaf = Vec<u8>;
    type LeafDigest = <LeafIdentityHasher as CRHScheme>::Output;
    type LeafInnerDigestConverter = ByteDigestConverter<Self::LeafDigest>;
    type InnerDigest = <Sha256 as TwoToOneCRHScheme>::Output;
    type LeafHash = LeafIdentityHasher;
    type TwoToOneHash = Sha256;
}

pub type ColH<F> = FieldToBytesColHasher<F, Blake2s256>;
pub type LigEnc<F> = UnivariateLigero<F, MT, UP<F>, ColH<F>>;
pub type MllEnc<F> = MultilinearLigero<F, MT, MLE<F>, ColH<F>>;
pub type BrkEnc<F> = MultilinearBrakedown<F, MT, MLE<F>, ColH<F>>;
pub type Lig = LinearCodePCS<LigEnc<Fr381>, Fr381, UP<Fr381>, MT, ColH<Fr381>>;
pub type Mll = LinearCodePCS<MllEnc<Fr381>, Fr381, MLE<Fr381>, MT, ColH<Fr381>>;
pub type Brk = LinearCodePCS<BrkEnc<Fr381>, Fr381, MLE<Fr381>, MT, ColH<Fr381>>;

#[allow(dead_code)]
pub fn _unused<F: PrimeField>() -> F {
    F::rand(&mut ark_std::test_rng())
}
