//! Proof mutation catalogues (E3): single-component replacements and shape mutations per scheme.
use crate::alpha::*;
use crate::mirror::*;
use crate::sch::*;
use crate::schemes::*;
use ark_ec::{AffineRepr, CurveGroup};
use ark_ff::{One, PrimeField, Zero};
use ark_poly_commit::{hyrax::HyraxProof, ipa_pc, kzg10, marlin_pst13_pc};

/// Replacement alphabet for a group element: identity, generator, generic, other, negation.
pub fn g_alpha<G: AffineRepr>(cur: &G, other: Option<&G>, seed: u64) -> Vec<(&'static str, G)> {
    let mut v = vec![
        ("identity", G::zero()),
        ("generator", G::generator()),
        ("generic", (G::generator() * rho::<G::ScalarField>(seed, 2)).into_affine()),
        ("plusG", (cur.into_group() + G::generator()).into_affine()),
    ];
    if let Some(o) = other {
        v.push(("other", *o));
    }
    v.retain(|(_, g)| g != cur);
    v
}

/// Replacement alphabet for a field element: 0, 1, generic, +1, other.
pub fn f_alpha<F: PrimeField>(cur: &F, other: Option<&F>, seed: u64) -> Vec<(&'static str, F)> {
    let mut v = vec![("zero", F::zero()), ("one", F::one()), ("generic", rho::<F>(seed, 3)), ("plus1", *cur + F::one())];
    if let Some(o) = other {
        v.push(("other", *o));
    }
    v.retain(|(_, g)| g != cur);
    v
}

pub trait ProofMut: Sch {
    /// (operator name, mutated proof). Operator names starting with "shape:" change the shape.
    fn proof_mutations(pf: &Pf<Self>, other: &Pf<Self>, seed: u64) -> Vec<(String, Pf<Self>)>;
}

fn kzg_proof_muts<E: ark_ec::pairing::Pairing>(pf: &kzg10::Proof<E>, other: &kzg10::Proof<E>, seed: u64) -> Vec<(String, kzg10::Proof<E>)> {
    let mut out = Vec::new();
    for (n, g) in g_alpha(&pf.w, Some(&other.w), seed) {
        out.push((format!("w:={}", n), kzg10::Proof { w: g, random_v: pf.random_v }));
    }
    match pf.random_v {
        Some(r) => {
            out.push(("random_v:=None".into(), kzg10::Proof { w: pf.w, random_v: None }));
            for (n, f) in f_alpha(&r, other.random_v.as_ref(), seed) {
                out.push((format!("random_v:={}", n), kzg10::Proof { w: pf.w, random_v: Some(f) }));
            }
        }
        None => {
            out.push(("random_v:=Some(0)".into(), kzg10::Proof { w: pf.w, random_v: Some(E::ScalarField::zero()) }));
            out.push(("random_v:=Some(1)".into(), kzg10::Proof { w: pf.w, random_v: Some(E::ScalarField::one()) }));
        }
    }
    out
}

impl ProofMut for SMar {
    fn proof_mutations(pf: &Pf<Self>, other: &Pf<Self>, seed: u64) -> Vec<(String, Pf<Self>)> {
        kzg_proof_muts(pf, other, seed)
    }
}
impl ProofMut for SSon {
    fn proof_mutations(pf: &Pf<Self>, other: &Pf<Self>, seed: u64) -> Vec<(String, Pf<Self>)> {
        kzg_proof_muts(pf, other, seed)
    }
}

impl ProofMut for SPst {
    fn proof_mutations(pf: &Pf<Self>, other: &Pf<Self>, seed: u64) -> Vec<(String, Pf<Self>)> {
        let mut out: Vec<(String, marlin_pst13_pc::Proof<E381>)> = Vec::new();
        for i in 0..pf.w.len() {
            for (n, g) in g_alpha(&pf.w[i], other.w.get(i), seed) {
                let mut p = pf.clone();
                p.w[i] = g;
                out.push((format!("w[{}]:={}", i, n), p));
            }
        }
        match pf.random_v {
            Some(r) => {
                let mut p = pf.clone();
                p.random_v = None;
                out.push(("random_v:=None".into(), p));
                for (n, f) in f_alpha(&r, other.random_v.as_ref(), seed) {
                    let mut p = pf.clone();
                    p.random_v = Some(f);
                    out.push((format!("random_v:={}", n), p));
                }
            }
            None => {
                let mut p = pf.clone();
                p.random_v = Some(Fr381::one());
                out.push(("random_v:=Some(1)".into(), p));
            }
        }
        // shapes
        let mut p = pf.clone();
        p.w.pop();
        out.push(("shape:w-drop-last".into(), p));
        let mut p = pf.clone();
        p.w.push(<E381 as ark_ec::pairing::Pairing>::G1Affine::zero());
        out.push(("shape:w-extra-identity".into(), p));
        let mut p = pf.clone();
        p.w.clear();
        out.push(("shape:w-empty".into(), p));
        if pf.w.len() >= 2 {
            let mut p = pf.clone();
            p.w.swap(0, 1);
            if p.w != pf.w {
                out.push(("shape:w-swap01".into(), p));
            }
        }
        out
    }
}

impl ProofMut for SIpa {
    fn proof_mutations(pf: &Pf<Self>, other: &Pf<Self>, seed: u64) -> Vec<(String, Pf<Self>)> {
        let mut out: Vec<(String, ipa_pc::Proof<GJ>)> = Vec::new();
        for i in 0..pf.l_vec.len() {
            for (n, g) in g_alpha(&pf.l_vec[i], other.l_vec.get(i), seed) {
                let mut p = pf.clone();
                p.l_vec[i] = g;
                out.push((format!("l_vec[{}]:={}", i, n), p));
            }
            for (n, g) in g_alpha(&pf.r_vec[i], other.r_vec.get(i), seed) {
                let mut p = pf.clone();
                p.r_vec[i] = g;
                out.push((format!("r_vec[{}]:={}", i, n), p));
            }
            let mut p = pf.clone();
            core::mem::swap(&mut p.l_vec[i], &mut p.r_vec[i]);
            out.push((format!("l_vec[{}]<->r_vec[{}]", i, i), p));
        }
        for (n, g) in g_alpha(&pf.final_comm_key, Some(&other.final_comm_key), seed) {
            let mut p = pf.clone();
            p.final_comm_key = g;
            out.push((format!("final_comm_key:={}", n), p));
        }
        for (n, f) in f_alpha(&pf.c, Some(&other.c), seed) {
            let mut p = pf.clone();
            p.c = f;
            out.push((format!("c:={}", n), p));
        }
        match (pf.hiding_comm, pf.rand) {
            (Some(h), Some(r)) => {
                for (n, g) in g_alpha(&h, other.hiding_comm.as_ref(), seed) {
                    let mut p = pf.clone();
                    p.hiding_comm = Some(g);
                    out.push((format!("hiding_comm:={}", n), p));
                }
                for (n, f) in f_alpha(&r, other.rand.as_ref(), seed) {
                    let mut p = pf.clone();
                    p.rand = Some(f);
                    out.push((format!("rand:={}", n), p));
                }
                let mut p = pf.clone();
                p.hiding_comm = None;
                p.rand = None;
                out.push(("hiding:=None".into(), p));
                let mut p = pf.clone();
                p.rand = None;
                out.push(("rand:=None".into(), p));
            }
            _ => {
                let mut p = pf.clone();
                p.hiding_comm = Some(GJ::generator());
                p.rand = Some(FrJ::one());
                out.push(("hiding:=Some(G,1)".into(), p));
                let mut p = pf.clone();
                p.hiding_comm = Some(GJ::zero());
                p.rand = Some(FrJ::zero());
                out.push(("hiding:=Some(0,0)".into(), p));
            }
        }
        // shapes: rounds log_d +- k
        if !pf.l_vec.is_empty() {
            let mut p = pf.clone();
            p.l_vec.pop();
            p.r_vec.pop();
            out.push(("shape:rounds-1(last)".into(), p));
            let mut p = pf.clone();
            p.l_vec.remove(0);
            p.r_vec.remove(0);
            out.push(("shape:rounds-1(first)".into(), p));
            let mut p = pf.clone();
            p.l_vec.pop();
            out.push(("shape:l-shorter".into(), p));
        }
        let mut p = pf.clone();
        p.l_vec.push(GJ::zero());
        p.r_vec.push(GJ::zero());
        out.push(("shape:rounds+1(identity)".into(), p));
        let mut p = pf.clone();
        p.l_vec.insert(0, GJ::zero());
        p.r_vec.insert(0, GJ::zero());
        out.push(("shape:rounds+1(identity-first)".into(), p));
        let mut p = pf.clone();
        p.l_vec.clear();
        p.r_vec.clear();
        out.push(("shape:rounds=0".into(), p));
        out
    }
}

impl ProofMut for SHyr {
    fn proof_mutations(pf: &Pf<Self>, other: &Pf<Self>, seed: u64) -> Vec<(String, Pf<Self>)> {
        let mut out: Vec<(String, Vec<HyraxProof<GJ>>)> = Vec::new();
        for k in 0..pf.len() {
            let o = other.get(k);
            for (n, g) in g_alpha(&pf[k].com_eval, o.map(|x| &x.com_eval), seed) {
                let mut p = pf.clone();
                p[k].com_eval = g;
                out.push((format!("[{}].com_eval:={}", k, n), p));
            }
            for (n, g) in g_alpha(&pf[k].com_d, o.map(|x| &x.com_d), seed) {
                let mut p = pf.clone();
                p[k].com_d = g;
                out.push((format!("[{}].com_d:={}", k, n), p));
            }
            for (n, g) in g_alpha(&pf[k].com_b, o.map(|x| &x.com_b), seed) {
                let mut p = pf.clone();
                p[k].com_b = g;
                out.push((format!("[{}].com_b:={}", k, n), p));
            }
            for i in 0..pf[k].z.len() {
                for (n, f) in f_alpha(&pf[k].z[i], o.and_then(|x| x.z.get(i)), seed) {
                    let mut p = pf.clone();
                    p[k].z[i] = f;
                    out.push((format!("[{}].z[{}]:={}", k, i, n), p));
                }
            }
            for (n, f) in f_alpha(&pf[k].z_d, o.map(|x| &x.z_d), seed) {
                let mut p = pf.clone();
                p[k].z_d = f;
                out.push((format!("[{}].z_d:={}", k, n), p));
            }
            for (n, f) in f_alpha(&pf[k].z_b, o.map(|x| &x.z_b), seed) {
                let mut p = pf.clone();
                p[k].z_b = f;
                out.push((format!("[{}].z_b:={}", k, n), p));
            }
            for (n, f) in f_alpha(&pf[k].r_eval, o.map(|x| &x.r_eval), seed) {
                let mut p = pf.clone();
                p[k].r_eval = f;
                out.push((format!("[{}].r_eval:={}", k, n), p));
            }
            let mut p = pf.clone();
            p[k].z.pop();
            out.push((format!("shape:[{}].z-drop-last", k), p));
            let mut p = pf.clone();
            p[k].z.push(FrJ::zero());
            out.push((format!("shape:[{}].z-extra-zero", k), p));
        }
        let mut p = pf.clone();
        p.pop();
        out.push(("shape:list-drop-last".into(), p));
        out.push(("shape:list-empty".into(), Vec::new()));
        if let Some(l) = pf.last() {
            let mut p = pf.clone();
            p.push(l.clone());
            out.push(("shape:list-dup-last".into(), p));
        }
        if pf.len() >= 2 {
            let mut p = pf.clone();
            p.swap(0, 1);
            out.push(("shape:list-swap01".into(), p));
        }
        out
    }
}

/// Linear-code proofs through the mirror structs.
pub fn lincode_mutations<F: PrimeField>(pf: &Vec<MProof<F>>, other: &Vec<MProof<F>>, seed: u64) -> Vec<(String, Vec<MProof<F>>)> {
    let mut out: Vec<(String, Vec<MProof<F>>)> = Vec::new();
    for k in 0..pf.len() {
        let o = other.get(k);
        let nv = pf[k].opening.v.len();
        // v: first, middle, last positions
        let mut pos = vec![0usize, nv / 2, nv.saturating_sub(1)];
        pos.dedup();
        for i in pos.iter().copied().filter(|i| *i < nv) {
            for (n, f) in f_alpha(&pf[k].opening.v[i], o.and_then(|x| x.opening.v.get(i)), seed) {
                let mut p = pf.clone();
                p[k].opening.v[i] = f;
                out.push((format!("[{}].v[{}]:={}", k, i, n), p));
            }
        }
        if let Some(wf) = &pf[k].well_formedness {
            for i in pos.iter().copied().filter(|i| *i < wf.len()) {
                for (n, f) in f_alpha(&wf[i], None, seed).into_iter().take(2) {
                    let mut p = pf.clone();
                    p[k].well_formedness.as_mut().unwrap()[i] = f;
                    out.push((format!("[{}].wf[{}]:={}", k, i, n), p));
                }
            }
            let mut p = pf.clone();
            p[k].well_formedness = None;
            out.push((format!("shape:[{}].wf-absent", k), p));
            let mut p = pf.clone();
            let w = p[k].well_formedness.as_mut().unwrap();
            let l = w.len();
            w.extend(vec![F::zero(); l]);
            out.push((format!("shape:[{}].wf-stretched-zero", k), p));
            let mut p = pf.clone();
            p[k].well_formedness.as_mut().unwrap().pop();
            out.push((format!("shape:[{}].wf-shortened", k), p));
        } else {
            let mut p = pf.clone();
            p[k].well_formedness = Some(pf[k].opening.v.clone());
            out.push((format!("shape:[{}].wf-present", k), p));
        }
        // columns: entries of the first / last column
        let nc = pf[k].opening.columns.len();
        // positions: all of them for short proofs; otherwise the ends plus the first position that
        // repeats an earlier leaf index (indices are drawn with replacement)
        let mut cpos: Vec<usize> = if nc <= 40 { (0..nc).collect() } else { vec![0usize, nc.saturating_sub(1)] };
        if nc > 40 {
            'outer: for j in 1..nc.min(pf[k].opening.paths.len()) {
                for i in 0..j {
                    if pf[k].opening.paths[i].leaf_index == pf[k].opening.paths[j].leaf_index {
                        cpos.push(j);
                        break 'outer;
                    }
                }
            }
        }
        cpos.sort();
        cpos.dedup();
        for j in cpos.iter().copied().filter(|j| *j < nc) {
            let col = &pf[k].opening.columns[j];
            for r in [0usize, col.len().saturating_sub(1)] {
                if r >= col.len() {
                    continue;
                }
                for (n, f) in f_alpha(&col[r], None, seed).into_iter().take(2) {
                    let mut p = pf.clone();
                    p[k].opening.columns[j][r] = f;
                    out.push((format!("[{}].col[{}][{}]:={}", k, j, r, n), p));
                }
            }
            // whole column replaced by another opened column (a "repeated column")
            if nc >= 2 {
                let j2 = (j + 1) % nc;
                if pf[k].opening.columns[j2] != pf[k].opening.columns[j] {
                    let mut p = pf.clone();
                    p[k].opening.columns[j] = pf[k].opening.columns[j2].clone();
                    out.push((format!("[{}].col[{}]:=col[{}]", k, j, j2), p.clone()));
                    // together with its path (a foreign but valid authentication path)
                    p[k].opening.paths[j] = pf[k].opening.paths[j2].clone();
                    if pf[k].opening.paths[j2].leaf_index != pf[k].opening.paths[j].leaf_index {
                        out.push((format!("[{}].col+path[{}]:=[{}]", k, j, j2), p));
                    }
                }
            }
            // path components
            let mut p = pf.clone();
            p[k].opening.paths[j].leaf_index ^= 1;
            out.push((format!("[{}].path[{}].leaf_index^1", k, j), p));
            if !pf[k].opening.paths[j].auth_path.is_empty() {
                let mut p = pf.clone();
                p[k].opening.paths[j].auth_path[0][0] ^= 1;
                out.push((format!("[{}].path[{}].auth[0]^1", k, j), p));
                let mut p = pf.clone();
                p[k].opening.paths[j].auth_path.pop();
                out.push((format!("shape:[{}].path[{}].auth-drop-last", k, j), p));
            }
            let mut p = pf.clone();
            if !p[k].opening.paths[j].leaf_sibling_hash.is_empty() {
                p[k].opening.paths[j].leaf_sibling_hash[0] ^= 1;
                out.push((format!("[{}].path[{}].sibling^1", k, j), p));
            }
            if let Some(ox) = o {
                if let Some(op) = ox.opening.paths.get(j) {
                    let mut p = pf.clone();
                    p[k].opening.paths[j] = op.clone();
                    out.push((format!("[{}].path[{}]:=other-tree", k, j), p));
                }
            }
        }
        // shapes
        let mut p = pf.clone();
        p[k].opening.columns.pop();
        p[k].opening.paths.pop();
        out.push((format!("shape:[{}].columns+paths-drop-last", k), p));
        let mut p = pf.clone();
        p[k].opening.columns.pop();
        out.push((format!("shape:[{}].columns-drop-last", k), p));
        let mut p = pf.clone();
        p[k].opening.paths.pop();
        out.push((format!("shape:[{}].paths-drop-last", k), p));
        if nc >= 2 {
            let mut p = pf.clone();
            p[k].opening.columns.rotate_left(1);
            p[k].opening.paths.rotate_left(1);
            out.push((format!("shape:[{}].columns+paths-rotated", k), p));
        }
        let mut p = pf.clone();
        p[k].opening.columns.clear();
        p[k].opening.paths.clear();
        out.push((format!("shape:[{}].columns+paths-empty", k), p));
        let mut p = pf.clone();
        p[k].opening.v.pop();
        out.push((format!("shape:[{}].v-shortened", k), p));
        let mut p = pf.clone();
        let l = p[k].opening.v.len();
        p[k].opening.v.extend(vec![F::zero(); l]);
        out.push((format!("shape:[{}].v-stretched-zero", k), p));
        let mut p = pf.clone();
        p[k].opening.v.push(F::one());
        out.push((format!("shape:[{}].v-extra-one", k), p));
    }
    let mut p = pf.clone();
    p.pop();
    out.push(("shape:list-drop-last".into(), p));
    if pf.len() >= 2 {
        let mut p = pf.clone();
        p.swap(0, 1);
        out.push(("shape:list-swap01".into(), p));
    }
    out
}

macro_rules! lincode_mut {
    ($S:ty) => {
        impl ProofMut for $S {
            fn proof_mutations(pf: &Pf<Self>, other: &Pf<Self>, seed: u64) -> Vec<(String, Pf<Self>)> {
                let m: Vec<MProof<Fr381>> = convert(pf);
                let o: Vec<MProof<Fr381>> = convert(other);
                lincode_mutations(&m, &o, seed).into_iter().map(|(n, p)| (n, convert::<_, Pf<Self>>(&p))).collect()
            }
        }
    };
}
lincode_mut!(SLig);
lincode_mut!(SMll);
lincode_mut!(SBrk);
