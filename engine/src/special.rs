//! The three non-trait APIs: `KZG10` (direct), `MultilinearPC`, streaming KZG.
use crate::alpha::*;
use crate::rec::Rec;
use crate::schemes::*;
use crate::sch::{ml_points, ml_shapes, uni_shapes};
use crate::util::*;
use ark_ec::pairing::Pairing;
use ark_ec::AffineRepr;
use ark_ff::{One, Zero};
use ark_poly::{DenseUVPolynomial, MultilinearExtension, Polynomial, SparseMultilinearExtension};
use ark_poly_commit::kzg10::{self, Powers, UniversalParams, VerifierKey, KZG10};
use ark_poly_commit::multilinear_pc::MultilinearPC;
use ark_poly_commit::streaming_kzg as skzg;
use ark_poly_commit::PCCommitmentState;
use ark_std::rand::RngCore;

pub type KzgPP = UniversalParams<E381>;

pub fn kzg_setup(max: usize, g2: bool, seed: u64, k: usize) -> KzgPP {
    let mut rng = seed_rng(seed, 10 + k);
    Kzg::setup(max, g2, &mut rng).expect("kzg setup")
}

pub fn kzg_powers(pp: &KzgPP, len: usize, gamma_len: usize) -> Powers<'static, E381> {
    Powers {
        powers_of_g: ark_std::borrow::Cow::Owned(pp.powers_of_g[..len].to_vec()),
        powers_of_gamma_g: ark_std::borrow::Cow::Owned((0..gamma_len).map(|i| pp.powers_of_gamma_g[&i]).collect()),
    }
}

pub fn kzg_vk(pp: &KzgPP) -> VerifierKey<E381> {
    VerifierKey {
        g: pp.powers_of_g[0],
        gamma_g: pp.powers_of_gamma_g[&0],
        h: pp.h,
        beta_h: pp.beta_h,
        prepared_h: pp.prepared_h.clone(),
        prepared_beta_h: pp.prepared_beta_h.clone(),
    }
}

pub struct KzgT {
    pub id: String,
    pub poly: UP<Fr381>,
    pub comm: kzg10::Commitment<E381>,
    pub rand: kzg10::Randomness<Fr381, UP<Fr381>>,
    pub point: Fr381,
    pub value: Fr381,
    pub proof: kzg10::Proof<E381>,
}

/// Direct KZG10 transcripts: degree 0..dmax x hiding x Powers length x point.
pub fn kzg_transcripts(rec: &mut Rec, dmax: usize, mut f: impl FnMut(&mut Rec, &KzgPP, &VerifierKey<E381>, &KzgT)) {
    let pp = kzg_setup(dmax + 2, false, rec.seed, 0);
    let vk = kzg_vk(&pp);
    let shapes = uni_shapes::<Fr381>(dmax, rec.seed);
    let pts = crate::sch::uni_points::<Fr381>(rec.seed);
    for (sname, p) in shapes.iter() {
        let deg = p.degree();
        let mut hs: Vec<Option<usize>> = vec![None, Some(1), Some(2)];
        if deg > 2 {
            hs.push(Some(deg));
        }
        for h in hs {
            for extra in [0usize, 1] {
                for (zn, z) in pts.iter().take(3) {
                    let id = format!("KZG/{}/h={:?}/len=deg+{}/z={}", sname, h, 1 + extra, zn);
                    if !rec.take(&id) {
                        continue;
                    }
                    rec.dim("scheme", "KZG");
                    let powers = kzg_powers(&pp, deg + 1 + extra, h.map(|x| x + 2).unwrap_or(1));
                    let mut rng = seed_rng(rec.seed, 0);
                    let r = flat(catch(|| Kzg::commit(&powers, p, h, Some(&mut rng as &mut dyn RngCore))));
                    let (comm, rand) = match r {
                        Ok(x) => x,
                        Err(o) => {
                            rec.violation("C01/KZG/commit/in-domain", &id, format!("commit failed: {}", o.short()));
                            continue;
                        }
                    };
                    let proof = match flat(catch(|| Kzg::open(&powers, p, *z, &rand))) {
                        Ok(x) => x,
                        Err(o) => {
                            rec.violation("C01/KZG/open/in-domain", &id, format!("open failed: {}", o.short()));
                            continue;
                        }
                    };
                    rec.op(2);
                    let t = KzgT { id, poly: p.clone(), comm, rand, point: *z, value: p.evaluate(z), proof };
                    f(rec, &pp, &vk, &t);
                }
            }
        }
    }
}

pub fn kzg_check(vk: &VerifierKey<E381>, c: &kzg10::Commitment<E381>, z: Fr381, v: Fr381, pf: &kzg10::Proof<E381>) -> Dec {
    dec(catch(|| Kzg::check(vk, c, z, v, pf)))
}

pub fn kzg_batch_check(
    vk: &VerifierKey<E381>,
    cs: &[kzg10::Commitment<E381>],
    zs: &[Fr381],
    vs: &[Fr381],
    pfs: &[kzg10::Proof<E381>],
    seed: u64,
    k: usize,
) -> Dec {
    let mut rng = seed_rng(seed, 40 + k);
    dec(catch(|| Kzg::batch_check(vk, cs, zs, vs, pfs, &mut rng)))
}

// ---------------------------------------------------------------------------------------------
// MultilinearPC
// ---------------------------------------------------------------------------------------------

pub type Mlp = MultilinearPC<E381>;
pub use ark_poly_commit::multilinear_pc::data_structures as mlpd;

pub struct MlpT {
    pub id: String,
    pub nv: usize,
    pub poly: MLE<Fr381>,
    pub comm: mlpd::Commitment<E381>,
    pub point: Vec<Fr381>,
    pub value: Fr381,
    pub proof: mlpd::Proof<E381>,
}

pub fn mlp_transcripts(rec: &mut Rec, nvmax: usize, mut f: impl FnMut(&mut Rec, &mlpd::CommitterKey<E381>, &mlpd::VerifierKey<E381>, &MlpT)) {
    for nv in 1..=nvmax {
        let mut rng = seed_rng(rec.seed, 10);
        let pp = match catch(|| Mlp::setup(nv, &mut rng)) {
            Ok(p) => p,
            Err(e) => {
                rec.violation("C01/MLP/setup/in-domain", &format!("MLP/nv={}", nv), format!("setup panicked: {}", e));
                continue;
            }
        };
        for tnv in 1..=nv {
            let (ck, vk) = match catch(|| Mlp::trim(&pp, tnv)) {
                Ok(k) => k,
                Err(e) => {
                    rec.violation("C01/MLP/trim/in-domain", &format!("MLP/nv={}/trim={}", nv, tnv), format!("trim panicked: {}", e));
                    continue;
                }
            };
            for (sname, p) in ml_shapes::<Fr381>(tnv, rec.seed) {
                for (zn, z) in ml_points::<Fr381>(tnv, rec.seed) {
                    for sparse in [false, true] {
                        let id = format!("MLP/nv={}/trim={}/{}/z={}/{}", nv, tnv, sname, zn, if sparse { "sparse" } else { "dense" });
                        if !rec.take(&id) {
                            continue;
                        }
                        rec.dim("scheme", "MLP");
                        let r = if sparse {
                            let ev: Vec<(usize, Fr381)> = p.evaluations.iter().cloned().enumerate().filter(|(_, e)| !e.is_zero()).collect();
                            let sp = SparseMultilinearExtension::from_evaluations(tnv, ev.iter());
                            catch(|| (Mlp::commit(&ck, &sp), Mlp::open(&ck, &sp, &z)))
                        } else {
                            catch(|| (Mlp::commit(&ck, &p), Mlp::open(&ck, &p, &z)))
                        };
                        match r {
                            Ok((comm, proof)) => {
                                rec.op(2);
                                let value = p.evaluate(&z);
                                let t = MlpT { id, nv: tnv, poly: p.clone(), comm, point: z.clone(), value, proof };
                                f(rec, &ck, &vk, &t);
                            }
                            Err(e) => rec.violation("C01/MLP/commit-open/in-domain", &id, format!("panicked: {}", e)),
                        }
                    }
                }
            }
        }
    }
}

pub fn mlp_check(vk: &mlpd::VerifierKey<E381>, c: &mlpd::Commitment<E381>, z: &[Fr381], v: Fr381, pf: &mlpd::Proof<E381>) -> Dec {
    match catch(|| Mlp::check(vk, c, z, v, pf)) {
        Ok(true) => Dec::Acc,
        Ok(false) => Dec::Rej,
        Err(e) => Dec::Panic(e),
    }
}

// ---------------------------------------------------------------------------------------------
// streaming KZG (single point; multi-point lives in C14/C05)
// ---------------------------------------------------------------------------------------------

pub type SCk = skzg::CommitterKey<E381>;
pub type SVk = skzg::VerifierKey<E381>;

pub fn str_key(max_degree: usize, max_eval_points: usize, seed: u64) -> SCk {
    let mut rng = seed_rng(seed, 10);
    SCk::new(max_degree, max_eval_points, &mut rng)
}

pub fn str_verify(vk: &SVk, c: &skzg::Commitment<E381>, z: &Fr381, v: &Fr381, pf: &skzg::EvaluationProof<E381>) -> Dec {
    match catch(|| vk.verify(c, z, v, pf)) {
        Ok(Ok(())) => Dec::Acc,
        Ok(Err(_)) => Dec::Rej,
        Err(e) => Dec::Panic(e),
    }
}

pub struct StrT {
    pub id: String,
    pub coeffs: Vec<Fr381>,
    pub comm: skzg::Commitment<E381>,
    pub point: Fr381,
    pub value: Fr381,
    pub proof: skzg::EvaluationProof<E381>,
}

pub fn str_transcripts(rec: &mut Rec, dmax: usize, mut f: impl FnMut(&mut Rec, &SCk, &SVk, &StrT)) {
    let ck = str_key(dmax.max(1) + 1, 3, rec.seed);
    let vk = SVk::from(&ck);
    let pts = crate::sch::uni_points::<Fr381>(rec.seed);
    for (sname, p) in uni_shapes::<Fr381>(dmax, rec.seed) {
        for (zn, z) in pts.iter().take(3) {
            let id = format!("STR/{}/z={}", sname, zn);
            if !rec.take(&id) {
                continue;
            }
            rec.dim("scheme", "STR");
            match catch(|| (ck.commit(&p.coeffs), ck.open(&p.coeffs, z))) {
                Ok((comm, (value, proof))) => {
                    rec.op(2);
                    let t = StrT { id, coeffs: p.coeffs.clone(), comm, point: *z, value, proof };
                    if value != p.evaluate(z) {
                        rec.violation("C01/STR/open/evaluation", &t.id, format!("open returned a wrong evaluation"));
                    }
                    f(rec, &ck, &vk, &t);
                }
                Err(e) => rec.violation("C01/STR/commit-open/in-domain", &id, format!("panicked: {}", e)),
            }
        }
    }
}

// ---------------------------------------------------------------------------------------------
// C01 / C02 on the special APIs
// ---------------------------------------------------------------------------------------------

pub fn c01_special(rec: &mut Rec) {
    let dmax = if rec.thorough() { 12 } else { 8 };
    rec.scope(format!("KZG direct: shapes to degree {}, hiding None/1/2/deg, Powers length deg+1/deg+2, 3 points; MLP: nv<= {}, every trim; STR single point", dmax, if rec.thorough() { 5 } else { 4 }));
    kzg_transcripts(rec, dmax, |rec, _pp, vk, t| {
        let d = kzg_check(vk, &t.comm, t.point, t.value, &t.proof);
        rec.class(d.class());
        rec.obs(&format!("KZG|{}|{}", t.rand.is_hiding(), d.class()));
        if !d.accepted() {
            rec.violation("C01/KZG/check/honest", &t.id, format!("honest proof not accepted: {}", d.short()));
        }
        let d = kzg_batch_check(vk, &[t.comm], &[t.point], &[t.value], &[t.proof], rec.seed, 0);
        if !d.accepted() {
            rec.violation("C01/KZG/batch_check/honest", &t.id, format!("honest proof not accepted: {}", d.short()));
        }
        rec.sample("KZG", format!("{} -> {}", t.id, d.short()));
    });
    let nvmax = if rec.thorough() { 5 } else { 4 };
    mlp_transcripts(rec, nvmax, |rec, _ck, vk, t| {
        let d = mlp_check(vk, &t.comm, &t.point, t.value, &t.proof);
        rec.class(d.class());
        rec.obs(&format!("MLP|{}|{}", t.nv, d.class()));
        if !d.accepted() {
            rec.violation("C01/MLP/check/honest", &t.id, format!("honest proof not accepted: {}", d.short()));
        }
        rec.sample("MLP", format!("{} -> {}", t.id, d.short()));
    });
    str_transcripts(rec, dmax, |rec, _ck, vk, t| {
        let d = str_verify(vk, &t.comm, &t.point, &t.value, &t.proof);
        rec.class(d.class());
        rec.obs(&format!("STR|{}", d.class()));
        if !d.accepted() {
            rec.violation("C01/STR/verify/honest", &t.id, format!("honest proof not accepted: {}", d.short()));
        }
        rec.sample("STR", format!("{} -> {}", t.id, d.short()));
    });
}


/// Size ladder for the three special APIs (C01 slice E): KZG10 direct and streaming KZG around every power of two up
/// to 128 (512 thorough), MultilinearPC for 6 and 8 (10) variables, the true claim accepted and the claim + 1 not.
pub fn c01_special_ladder(rec: &mut Rec) {
    let sizes = crate::checks::c01::ladder_sizes(rec.thorough());
    let top = *sizes.iter().max().unwrap();
    rec.scope(format!("KZG direct / STR: slice E size ladder {:?}; MLP nv in {:?}", sizes, if rec.thorough() { vec![6, 8, 10] } else { vec![6, 8] }));
    let pp = kzg_setup(top + 3, false, rec.seed, 0);
    let vk = kzg_vk(&pp);
    let ck = str_key(top + 1, 3, rec.seed);
    let svk = SVk::from(&ck);
    let pts = crate::sch::uni_points::<Fr381>(rec.seed);
    let r = rho_stream::<Fr381>(rec.seed, 1, top + 2);
    for s in sizes {
        let mut shapes: Vec<(String, UP<Fr381>)> = Vec::new();
        shapes.push((format!("dense({})", s), UP::<Fr381>::from_coefficients_vec(r[..=s].to_vec())));
        shapes.push((format!("dense({})", s - 1), UP::<Fr381>::from_coefficients_vec(r[..s].to_vec())));
        let mut c = r[..=s].to_vec();
        c[0] = Fr381::zero();
        c[1] = Fr381::zero();
        shapes.push((format!("lowzero({})", s), UP::<Fr381>::from_coefficients_vec(c)));
        let mut c = vec![Fr381::zero(); s + 1];
        c[s] = Fr381::one();
        shapes.push((format!("top({})", s), UP::<Fr381>::from_coefficients_vec(c)));
        let mut c = r[..=s].to_vec();
        for i in 0..=s {
            if i % 3 == 1 {
                c[i] = Fr381::zero();
            }
        }
        shapes.push((format!("sparse3({})", s), UP::<Fr381>::from_coefficients_vec(c)));
        for (sname, p) in shapes.iter() {
            let deg = p.degree();
            for h in [None, Some(1usize), Some(deg)] {
                for extra in [0usize, 2] {
                    for (zn, z) in pts.iter().take(2) {
                        let id = format!("KZG/E/{}/h={:?}/len=deg+{}/z={}", sname, h, 1 + extra, zn);
                        if !rec.take(&id) {
                            continue;
                        }
                        rec.dim("scheme", "KZG");
                        rec.dim("slice", "E");
                        let powers = kzg_powers(&pp, deg + 1 + extra, h.map(|x| x + 2).unwrap_or(1));
                        let mut rng = seed_rng(rec.seed, 0);
                        let (comm, rand) = match flat(catch(|| Kzg::commit(&powers, p, h, Some(&mut rng as &mut dyn RngCore)))) {
                            Ok(x) => x,
                            Err(o) => {
                                rec.violation("C01/KZG/commit/in-domain", &id, format!("commit failed: {}", o.short()));
                                continue;
                            }
                        };
                        let proof = match flat(catch(|| Kzg::open(&powers, p, *z, &rand))) {
                            Ok(x) => x,
                            Err(o) => {
                                rec.violation("C01/KZG/open/in-domain", &id, format!("open failed: {}", o.short()));
                                continue;
                            }
                        };
                        rec.op(4);
                        let v = p.evaluate(z);
                        let d = kzg_check(&vk, &comm, *z, v, &proof);
                        rec.class(d.class());
                        if !d.accepted() {
                            rec.violation("C01/KZG/check/honest", &id, format!("honest proof not accepted: {}", d.short()));
                        }
                        let d = kzg_check(&vk, &comm, *z, v + Fr381::one(), &proof);
                        if d.accepted() {
                            rec.violation("C01/KZG/check/ladder-false-claim-accepted", &id, "value + 1 accepted".into());
                        }
                    }
                }
            }
            for (zn, z) in pts.iter().take(2) {
                let id = format!("STR/E/{}/z={}", sname, zn);
                if !rec.take(&id) {
                    continue;
                }
                rec.dim("scheme", "STR");
                rec.dim("slice", "E");
                match catch(|| (ck.commit(&p.coeffs), ck.open(&p.coeffs, z))) {
                    Ok((comm, (value, proof))) => {
                        rec.op(4);
                        if value != p.evaluate(z) {
                            rec.violation("C01/STR/open/evaluation", &id, "open returned a wrong evaluation".into());
                        }
                        let d = str_verify(&svk, &comm, z, &value, &proof);
                        rec.class(d.class());
                        if !d.accepted() {
                            rec.violation("C01/STR/verify/honest", &id, format!("honest proof not accepted: {}", d.short()));
                        }
                        let d = str_verify(&svk, &comm, z, &(value + Fr381::one()), &proof);
                        if d.accepted() {
                            rec.violation("C01/STR/verify/ladder-false-claim-accepted", &id, "value + 1 accepted".into());
                        }
                    }
                    Err(e) => rec.violation("C01/STR/commit-open/in-domain", &id, format!("panicked: {}", e)),
                }
            }
        }
    }
    for nv in if rec.thorough() { vec![6usize, 8, 10] } else { vec![6usize, 8] } {
        let mut todo = Vec::new();
        for tnv in [nv - 1, nv] {
            for (sname, p) in ml_shapes::<Fr381>(tnv, rec.seed) {
                for (zn, z) in ml_points::<Fr381>(tnv, rec.seed).into_iter().take(3) {
                    let id = format!("MLP/E/nv={}/trim={}/{}/z={}", nv, tnv, sname, zn);
                    if rec.take(&id) {
                        todo.push((id, tnv, p.clone(), z));
                    }
                }
            }
        }
        if todo.is_empty() {
            continue;
        }
        let mut rng = seed_rng(rec.seed, 10);
        let pp = match catch(|| Mlp::setup(nv, &mut rng)) {
            Ok(p) => p,
            Err(e) => {
                rec.violation("C01/MLP/setup/in-domain", &todo[0].0, format!("setup panicked: {}", e));
                continue;
            }
        };
        for (id, tnv, p, z) in todo {
            rec.dim("scheme", "MLP");
            rec.dim("slice", "E");
            let r = catch(|| {
                let (ck, vk) = Mlp::trim(&pp, tnv);
                let c = Mlp::commit(&ck, &p);
                let pf = Mlp::open(&ck, &p, &z);
                (vk, c, pf)
            });
            match r {
                Ok((vk, comm, proof)) => {
                    rec.op(5);
                    let v = p.evaluate(&z);
                    let d = mlp_check(&vk, &comm, &z, v, &proof);
                    rec.class(d.class());
                    if !d.accepted() {
                        rec.violation("C01/MLP/check/honest", &id, format!("honest proof not accepted: {}", d.short()));
                    }
                    let d = mlp_check(&vk, &comm, &z, v + Fr381::one(), &proof);
                    if d.accepted() {
                        rec.violation("C01/MLP/check/ladder-false-claim-accepted", &id, "value + 1 accepted".into());
                    }
                }
                Err(e) => rec.violation("C01/MLP/commit-open/in-domain", &id, format!("panicked: {}", e)),
            }
        }
    }
}


/// KZG10::batch_check under private rayon pools of 2, 3, 4 and 8 threads on batches of 10 and 17 openings: the
/// all-true batch, every single position falsified, and every pair of positions carrying +d / -d.  The batch
/// decision must be the AND of the individual decisions (computed outside the pool) for every pool size: a
/// verifier that splits its batch by `current_num_threads()` may neither skip positions nor reuse weights.
/// `prop` selects what is reported: "C02" the single false claims, "C05" everything.
pub fn kzg_batch_threads(rec: &mut Rec, prop: &str) {
    let pp = kzg_setup(6, false, rec.seed, 0);
    let vk = kzg_vk(&pp);
    let powers = kzg_powers(&pp, 6, 3);
    let r = rho_stream::<Fr381>(rec.seed, 51, 40);
    let p = UP::<Fr381>::from_coefficients_slice(&r[..6]);
    rec.scope(format!("KZG10::batch_check inside rayon pools of {{2,3,4,8}} threads: batches of 10 and 17 openings, every single false claim{}", if prop == "C05" { ", every cancelling pair" } else { "" }));
    for threads in [2usize, 3, 4, 8] {
        for n in [10usize, 17] {
            for hiding in [None, Some(1usize)] {
                let id = format!("KZG/{}/threads={}/n={}/hiding={:?}", prop, threads, n, hiding);
                if !rec.take(&id) {
                    continue;
                }
                rec.dim("scheme", "KZG");
                rec.dim("threads", &threads.to_string());
                let mut rng = seed_rng(rec.seed, 0);
                let (c, st) = match flat(catch(|| Kzg::commit(&powers, &p, hiding, Some(&mut rng as &mut dyn RngCore)))) {
                    Ok(x) => x,
                    Err(_) => continue,
                };
                let zs: Vec<Fr381> = (0..n).map(|i| r[10 + i]).collect();
                let pfs: Vec<kzg10::Proof<E381>> = match zs.iter().map(|z| Kzg::open(&powers, &p, *z, &st)).collect::<Result<Vec<_>, _>>() {
                    Ok(x) => x,
                    Err(_) => continue,
                };
                let vs: Vec<Fr381> = zs.iter().map(|z| p.evaluate(z)).collect();
                let cs = vec![c; n];
                let seed = rec.seed;
                let pairs = prop == "C05";
                let dlt = r[3];
                let vkr = &vk;
                // (all-true, each single false, each cancelling pair) decided inside the pool
                let (d_true, d_single, d_pairs): (Dec, Vec<Dec>, Vec<(usize, usize, Dec)>) = with_threads(threads, || {
                    let d_true = kzg_batch_check(vkr, &cs, &zs, &vs, &pfs, seed, 0);
                    let mut d_single = Vec::new();
                    for i in 0..n {
                        let mut bad = vs.clone();
                        bad[i] += Fr381::one();
                        d_single.push(kzg_batch_check(vkr, &cs, &zs, &bad, &pfs, seed, 0));
                    }
                    let mut d_pairs = Vec::new();
                    if pairs {
                        for i in 0..n {
                            for j in (i + 1)..n {
                                let mut bad = vs.clone();
                                bad[i] += dlt;
                                bad[j] -= dlt;
                                d_pairs.push((i, j, kzg_batch_check(vkr, &cs, &zs, &bad, &pfs, seed, 1)));
                            }
                        }
                    }
                    (d_true, d_single, d_pairs)
                });
                rec.op((1 + n + d_pairs.len()) as u64);
                rec.count_points((n + d_pairs.len()) as u64);
                // the individual decisions (outside the pool): every true claim is accepted, every false one is not
                let indiv_true = (0..n).all(|i| kzg_check(&vk, &cs[i], zs[i], vs[i], &pfs[i]).accepted());
                let indiv_false = (0..n).all(|i| !kzg_check(&vk, &cs[i], zs[i], vs[i] + Fr381::one(), &pfs[i]).accepted() && !kzg_check(&vk, &cs[i], zs[i], vs[i] + dlt, &pfs[i]).accepted() && !kzg_check(&vk, &cs[i], zs[i], vs[i] - dlt, &pfs[i]).accepted());
                if !indiv_true || !indiv_false {
                    rec.class("individual-checks-unexpected");
                    continue;
                }
                rec.class("pool-batch-checked");
                if !d_true.accepted() {
                    rec.violation(&format!("{}/KZG/batch_check/in-pool/honest-rejected", if prop == "C05" { "C05" } else { "C02" }), &id, format!("all-true batch of {} openings not accepted inside a pool of {} threads: {}", n, threads, d_true.short()));
                }
                for (i, d) in d_single.iter().enumerate() {
                    rec.class(&format!("fault-{}", d.class()));
                    if d.accepted() {
                        if prop == "C05" {
                            rec.violation("C05/KZG/batch_check/in-pool/false-subset/batch-accepts", &id, format!("claim {} of {} false, batch accepted inside a pool of {} threads while the individual check rejects", i, n, threads));
                        } else {
                            rec.violation("C02/KZG/batch_check/in-pool/value+delta", &id, format!("false statement accepted: value[{}]+1 in a batch of {} inside a pool of {} threads", i, n, threads));
                        }
                    }
                }
                for (i, j, d) in d_pairs.iter() {
                    if d.accepted() {
                        rec.violation("C05/KZG/batch_check/in-pool/cancelling-pair/batch-accepts", &id, format!("claims {} and {} of {} carry +d / -d, batch accepted inside a pool of {} threads while both individual checks reject", i, j, n, threads));
                    }
                }
            }
        }
    }
}


/// C01 slice F for the special APIs: three key universes each for KZG10 direct, MultilinearPC and streaming KZG, every
/// sequence of up to three flows in one process; every flow accepts and reproduces its outputs bit for bit.
pub fn c01_special_universes(rec: &mut Rec) {
    use sha2::{Digest, Sha256};
    let seed = rec.seed;
    // universe = (size parameter, setup seed index)
    let flow = |api: &str, size: usize, k: usize| -> Result<String, String> {
        let mut h = Sha256::new();
        let r = rho_stream::<Fr381>(seed, 61, 40);
        match api {
            "KZG" => {
                let pp = catch(|| kzg_setup(size, false, seed, k)).map_err(|e| e)?;
                let vk = kzg_vk(&pp);
                let powers = kzg_powers(&pp, size + 1, 3);
                let p = UP::<Fr381>::from_coefficients_slice(&r[..=size]);
                for hid in [None, Some(1usize)] {
                    let mut rng = seed_rng(seed, 0);
                    let (c, st) = flat(catch(|| Kzg::commit(&powers, &p, hid, Some(&mut rng as &mut dyn RngCore)))).map_err(|o| o.short())?;
                    let pf = flat(catch(|| Kzg::open(&powers, &p, r[30], &st))).map_err(|o| o.short())?;
                    h.update(ser(&c));
                    h.update(ser(&pf));
                    if !kzg_check(&vk, &c, r[30], p.evaluate(&r[30]), &pf).accepted() {
                        return Err("honest KZG10 opening not accepted".into());
                    }
                    if kzg_check(&vk, &c, r[30], p.evaluate(&r[30]) + Fr381::one(), &pf).accepted() {
                        return Err("false KZG10 claim accepted".into());
                    }
                }
            }
            "MLP" => {
                let mut rng = seed_rng(seed, 10 + k);
                let (ck, vk) = catch(|| {
                    let pp = Mlp::setup(size, &mut rng);
                    Mlp::trim(&pp, size)
                })?;
                let p = ml_shapes::<Fr381>(size, seed).pop().unwrap().1;
                let z = ml_points::<Fr381>(size, seed)[0].1.clone();
                let (c, pf) = catch(|| (Mlp::commit(&ck, &p), Mlp::open(&ck, &p, &z)))?;
                h.update(ser(&ck));
                h.update(ser(&c));
                h.update(ser(&pf));
                if !mlp_check(&vk, &c, &z, p.evaluate(&z), &pf).accepted() {
                    return Err("honest MultilinearPC opening not accepted".into());
                }
                if mlp_check(&vk, &c, &z, p.evaluate(&z) + Fr381::one(), &pf).accepted() {
                    return Err("false MultilinearPC claim accepted".into());
                }
            }
            _ => {
                let ck = catch(|| str_key(size, 3, seed + 1000 * k as u64))?;
                let vk = SVk::from(&ck);
                let coeffs = r[..size].to_vec();
                let pts = vec![r[30], r[31]];
                let (c, (v, pf), (evs, mpf)) = catch(|| (ck.commit(&coeffs), ck.open(&coeffs, &r[30]), {
                    let mp = ck.open_multi_points(&coeffs, &pts);
                    let evs: Vec<Fr381> = pts.iter().map(|z| crate::refm::horner(&coeffs, *z)).collect();
                    (evs, mp)
                }))?;
                h.update(ser(&c.verif_inner()));
                h.update(ser(&pf.0));
                h.update(ser(&mpf.0));
                if !str_verify(&vk, &c, &r[30], &v, &pf).accepted() {
                    return Err("honest streaming opening not accepted".into());
                }
                let eta = r[32];
                let ok = catch(|| vk.verify_multi_points(&[c], &pts, &[evs.clone()], &mpf, &eta).is_ok())?;
                if !ok {
                    return Err("honest streaming multi-point opening not accepted".into());
                }
            }
        }
        Ok(hex(&h.finalize()[..8]))
    };
    for api in ["KZG", "MLP", "STR"] {
        let us: Vec<(usize, usize)> = match api {
            "KZG" => vec![(6, 0), (6, 1), (9, 0)],
            "MLP" => vec![(3, 0), (3, 1), (4, 0)],
            _ => vec![(8, 0), (8, 1), (12, 0)],
        };
        rec.scope(format!("{}: slice F, every sequence of 1..3 flows over the key universes (size, setup seed) {:?}", api, us));
        let mut base: Vec<Option<String>> = vec![None; us.len()];
        let n = us.len();
        for len in 1..=3usize {
            for code in 0..n.pow(len as u32) {
                let seq: Vec<usize> = (0..len).map(|i| code / n.pow(i as u32) % n).collect();
                let id = format!("{}/F/{}", api, seq.iter().map(|i| format!("U{}", i)).collect::<Vec<_>>().join(">"));
                if !rec.take(&id) {
                    continue;
                }
                rec.dim("scheme", api);
                rec.dim("slice", "F");
                for (pos, u) in seq.iter().enumerate() {
                    if base[*u].is_none() {
                        base[*u] = Some(flow(api, us[*u].0, us[*u].1).unwrap_or_else(|e| format!("failed: {}", e)));
                    }
                    rec.op(5);
                    match flow(api, us[*u].0, us[*u].1) {
                        Ok(dg) => {
                            let same = Some(&dg) == base[*u].as_ref();
                            rec.class(if same { "flow-reproduced" } else { "flow-differs" });
                            if !same {
                                rec.violation(&format!("C01/{}/flow/interleaved-keys/outputs-depend-on-history", api), &id, format!("flow on U{} at position {} of {:?} produced digest {} but {} before", u, pos, seq, dg, base[*u].clone().unwrap()));
                            }
                        }
                        Err(e) => {
                            rec.class("flow-failed");
                            rec.violation(&format!("C01/{}/flow/interleaved-keys/flow-fails", api), &id, format!("flow on U{} {:?} at position {} of {:?} failed: {}", u, us[*u], pos, seq, e));
                        }
                    }
                }
            }
        }
    }
}

fn c02_expect(rec: &mut Rec, d: &Dec, sch: &str, entry: &str, op: &str, id: &str, detail: String) {
    rec.count_points(1);
    rec.op(1);
    rec.class(&format!("fault-{}", d.class()));
    rec.obs(&format!("{}|{}|{}|{}", sch, entry, op, d.class()));
    if d.accepted() {
        rec.violation(&format!("C02/{}/{}/{}", sch, entry, op), id, format!("false statement accepted: {}", detail));
    }
}

pub fn c02_special(rec: &mut Rec) {
    kzg_batch_threads(rec, "C02");
    let dmax = if rec.thorough() { 8 } else { 4 };
    let deltas = crate::checks::c02::deltas::<Fr381>(rec.seed);
    let pts = crate::sch::uni_points::<Fr381>(rec.seed);
    let pp2 = kzg_setup(dmax + 2, false, rec.seed, 0);
    let other = {
        let powers = kzg_powers(&pp2, 2, 1);
        let q = UP::<Fr381>::from_coefficients_vec(vec![rho::<Fr381>(rec.seed, 2), rho::<Fr381>(rec.seed, 3)]);
        (Kzg::commit(&powers, &q, None, None).unwrap().0, q)
    };
    kzg_transcripts(rec, dmax, |rec, _pp, vk, t| {
        if !kzg_check(vk, &t.comm, t.point, t.value, &t.proof).accepted() {
            rec.class("source-not-accepted");
            return;
        }
        rec.class("source-accepted");
        for (dn, d) in deltas.iter() {
            let dec = kzg_check(vk, &t.comm, t.point, t.value + d, &t.proof);
            c02_expect(rec, &dec, "KZG", "check", "value+delta", &t.id, format!("value{} -> {}", dn, dec.short()));
            let dec = kzg_batch_check(vk, &[t.comm], &[t.point], &[t.value + d], &[t.proof], rec.seed, 0);
            c02_expect(rec, &dec, "KZG", "batch_check", "value+delta", &t.id, format!("value{} -> {}", dn, dec.short()));
        }
        for (zn, z2) in pts.iter() {
            if *z2 == t.point || t.poly.evaluate(z2) == t.value {
                continue;
            }
            let dec = kzg_check(vk, &t.comm, *z2, t.value, &t.proof);
            c02_expect(rec, &dec, "KZG", "check", "point", &t.id, format!("point -> {} : {}", zn, dec.short()));
        }
        if other.1.evaluate(&t.point) != t.value {
            let dec = kzg_check(vk, &other.0, t.point, t.value, &t.proof);
            c02_expect(rec, &dec, "KZG", "check", "commitment", &t.id, format!("commitment := commit(q) : {}", dec.short()));
        }
    });
    let nvmax = if rec.thorough() { 4 } else { 3 };
    mlp_transcripts(rec, nvmax, |rec, ck, vk, t| {
        if !mlp_check(vk, &t.comm, &t.point, t.value, &t.proof).accepted() {
            rec.class("source-not-accepted");
            return;
        }
        rec.class("source-accepted");
        for (dn, d) in deltas.iter() {
            let dec = mlp_check(vk, &t.comm, &t.point, t.value + d, &t.proof);
            c02_expect(rec, &dec, "MLP", "check", "value+delta", &t.id, format!("value{} -> {}", dn, dec.short()));
        }
        for i in 0..t.nv {
            for (an, a) in [("0", Fr381::zero()), ("1", Fr381::one()), ("r2", rho::<Fr381>(rec.seed, 2))] {
                if t.point[i] == a {
                    continue;
                }
                let mut z2 = t.point.clone();
                z2[i] = a;
                if t.poly.evaluate(&z2) == t.value {
                    rec.class("still-true");
                    continue;
                }
                let dec = mlp_check(vk, &t.comm, &z2, t.value, &t.proof);
                c02_expect(rec, &dec, "MLP", "check", "point", &t.id, format!("coordinate {} -> {} : {}", i, an, dec.short()));
            }
        }
        let q = crate::sch::ml_shapes::<Fr381>(t.nv, rec.seed ^ 0x55).pop().unwrap().1;
        if q.evaluate(&t.point) != t.value {
            if let Ok(cq) = catch(|| Mlp::commit(ck, &q)) {
                let dec = mlp_check(vk, &cq, &t.point, t.value, &t.proof);
                c02_expect(rec, &dec, "MLP", "check", "commitment", &t.id, format!("commitment := commit(q) : {}", dec.short()));
            }
        }
    });
    str_transcripts(rec, dmax, |rec, ck, vk, t| {
        if !str_verify(vk, &t.comm, &t.point, &t.value, &t.proof).accepted() {
            rec.class("source-not-accepted");
            return;
        }
        rec.class("source-accepted");
        for (dn, d) in deltas.iter() {
            let dec = str_verify(vk, &t.comm, &t.point, &(t.value + d), &t.proof);
            c02_expect(rec, &dec, "STR", "verify", "value+delta", &t.id, format!("value{} -> {}", dn, dec.short()));
        }
        let p = UP::<Fr381>::from_coefficients_vec(t.coeffs.clone());
        for (zn, z2) in pts.iter() {
            if *z2 == t.point || p.evaluate(z2) == t.value {
                continue;
            }
            let dec = str_verify(vk, &t.comm, z2, &t.value, &t.proof);
            c02_expect(rec, &dec, "STR", "verify", "point", &t.id, format!("point -> {} : {}", zn, dec.short()));
        }
        let q = vec![rho::<Fr381>(rec.seed, 2), rho::<Fr381>(rec.seed, 3)];
        let qp = UP::<Fr381>::from_coefficients_vec(q.clone());
        if qp.evaluate(&t.point) != t.value {
            let cq = ck.commit(&q);
            let dec = str_verify(vk, &cq, &t.point, &t.value, &t.proof);
            c02_expect(rec, &dec, "STR", "verify", "commitment", &t.id, format!("commitment := commit(q) : {}", dec.short()));
        }
    });
}

// ---------------------------------------------------------------------------------------------
// C03 on the special APIs
// ---------------------------------------------------------------------------------------------

fn c03_expect(rec: &mut Rec, d: &Dec, sch: &str, entry: &str, op: &str, id: &str, detail: String) {
    rec.count_points(1);
    rec.op(1);
    rec.class(&format!("attack-{}", d.class()));
    let opc: String = op.chars().filter(|c| !c.is_ascii_digit()).collect();
    rec.obs(&format!("{}|{}|{}|{}", sch, entry, opc, d.class()));
    if d.accepted() {
        rec.violation(&format!("C03/{}/{}/{}", sch, entry, opc), id, format!("false claim accepted with crafted proof: {} :: {}", op, detail));
    }
}

pub fn kzg_proof_muts(pf: &kzg10::Proof<E381>, other: &kzg10::Proof<E381>, seed: u64) -> Vec<(String, kzg10::Proof<E381>)> {
    <crate::sch::SMar as crate::pmut::ProofMut>::proof_mutations(pf, other, seed)
}

pub fn c03_special(rec: &mut Rec) {
    let dmax = if rec.thorough() { 6 } else { 3 };
    let one = Fr381::one();
    let mut prev: Option<kzg10::Proof<E381>> = None;
    kzg_transcripts(rec, dmax, |rec, _pp, vk, t| {
        if !kzg_check(vk, &t.comm, t.point, t.value, &t.proof).accepted() {
            return;
        }
        rec.class("source-accepted");
        let other = prev.unwrap_or(t.proof);
        for (name, m) in kzg_proof_muts(&t.proof, &other, rec.seed) {
            let d = kzg_check(vk, &t.comm, t.point, t.value + one, &m);
            c03_expect(rec, &d, "KZG", "check", &name, &t.id, format!("claim value+1: {}", d.short()));
            let d = kzg_batch_check(vk, &[t.comm], &[t.point], &[t.value + one], &[m], rec.seed, 0);
            c03_expect(rec, &d, "KZG", "batch_check", &name, &t.id, format!("claim value+1: {}", d.short()));
        }
        // slices of different length: the false claim sits in the unmatched tail
        let (c, z, v, p) = (t.comm, t.point, t.value, t.proof);
        let d = kzg_batch_check(vk, &[c, c, c], &[z, z, z], &[v, v, v + one], &[p, p], rec.seed, 0);
        c03_expect(rec, &d, "KZG", "batch_check", "shape:proofs-shorter", &t.id, format!("3 claims (third false), 2 proofs: {}", d.short()));
        let d = kzg_batch_check(vk, &[c, c, c], &[z, z], &[v, v, v + one], &[p, p, p], rec.seed, 0);
        c03_expect(rec, &d, "KZG", "batch_check", "shape:points-shorter", &t.id, format!("3 claims (third false), 2 points: {}", d.short()));
        let d = kzg_batch_check(vk, &[c, c], &[z, z, z], &[v, v, v + one], &[p, p, p], rec.seed, 0);
        c03_expect(rec, &d, "KZG", "batch_check", "shape:commitments-shorter", &t.id, format!("3 claims (third false), 2 commitments: {}", d.short()));
        let d = kzg_batch_check(vk, &[c], &[z], &[v + one], &[], rec.seed, 0);
        c03_expect(rec, &d, "KZG", "batch_check", "shape:proofs-empty", &t.id, format!("1 false claim, no proof: {}", d.short()));
        prev = Some(t.proof);
    });
    let nvmax = if rec.thorough() { 4 } else { 3 };
    mlp_transcripts(rec, nvmax, |rec, _ck, vk, t| {
        if !mlp_check(vk, &t.comm, &t.point, t.value, &t.proof).accepted() {
            return;
        }
        rec.class("source-accepted");
        type G2 = <E381 as Pairing>::G2Affine;
        for i in 0..t.proof.proofs.len() {
            for (n, g) in crate::pmut::g_alpha::<G2>(&t.proof.proofs[i], None, rec.seed) {
                let mut p = t.proof.clone();
                p.proofs[i] = g;
                let d = mlp_check(vk, &t.comm, &t.point, t.value + one, &p);
                c03_expect(rec, &d, "MLP", "check", &format!("proofs[{}]:={}", i, n), &t.id, format!("claim value+1: {}", d.short()));
            }
        }
        let mut p = t.proof.clone();
        p.proofs.pop();
        let d = mlp_check(vk, &t.comm, &t.point, t.value + one, &p);
        c03_expect(rec, &d, "MLP", "check", "shape:proofs-drop-last", &t.id, format!("claim value+1: {}", d.short()));
        let mut p = t.proof.clone();
        p.proofs.push(G2::zero());
        let d = mlp_check(vk, &t.comm, &t.point, t.value + one, &p);
        c03_expect(rec, &d, "MLP", "check", "shape:proofs-extra-identity", &t.id, format!("claim value+1: {}", d.short()));
        let mut p = t.proof.clone();
        p.proofs.clear();
        let d = mlp_check(vk, &t.comm, &t.point, t.value + one, &p);
        c03_expect(rec, &d, "MLP", "check", "shape:proofs-empty", &t.id, format!("claim value+1: {}", d.short()));
        let mut cm = t.comm.clone();
        cm.nv += 1;
        let d = mlp_check(vk, &cm, &t.point, t.value + one, &t.proof);
        c03_expect(rec, &d, "MLP", "check", "commitment.nv+1", &t.id, format!("claim value+1: {}", d.short()));
    });
    str_transcripts(rec, dmax, |rec, _ck, vk, t| {
        if !str_verify(vk, &t.comm, &t.point, &t.value, &t.proof).accepted() {
            return;
        }
        rec.class("source-accepted");
        type G1 = <E381 as Pairing>::G1Affine;
        for (n, g) in crate::pmut::g_alpha::<G1>(&t.proof.0, None, rec.seed) {
            let d = str_verify(vk, &t.comm, &t.point, &(t.value + one), &skzg::EvaluationProof(g));
            c03_expect(rec, &d, "STR", "verify", &format!("proof:={}", n), &t.id, format!("claim value+1: {}", d.short()));
        }
    });
}

// ---------------------------------------------------------------------------------------------
// C05 on KZG10::batch_check and streaming verify_multi_points
// ---------------------------------------------------------------------------------------------

fn c05_cmp(rec: &mut Rec, sch: &str, entry: &str, op: &str, id: &str, want: bool, got: &[Dec], detail: String) {
    rec.count_points(1);
    rec.op(got.len() as u64);
    rec.class(if want { "and-accepts" } else { "and-rejects" });
    rec.class(&format!("batch-{}", got[0].class()));
    let opc: String = op.chars().filter(|c| !c.is_ascii_digit()).collect();
    rec.obs(&format!("{}|{}|{}|{}", sch, opc, want, got[0].class()));
    for g in got {
        if g.accepted() != want {
            let dir = if g.accepted() { "batch-accepts" } else { "batch-rejects" };
            rec.violation(&format!("C05/{}/{}/{}/{}", sch, entry, opc, dir), id, format!("{}: batch -> {}, conjunction of individual checks -> {}", detail, g.short(), want));
            return;
        }
    }
}

pub fn c05_special(rec: &mut Rec) {
    kzg_batch_threads(rec, "C05");
    // ---- KZG10::batch_check: three claims, two of them at the same point
    let pp = kzg_setup(6, false, rec.seed, 0);
    let vk = kzg_vk(&pp);
    let powers = kzg_powers(&pp, 5, 3);
    let r = rho_stream::<Fr381>(rec.seed, 31, 10);
    let p0 = UP::<Fr381>::from_coefficients_vec(r[..4].to_vec());
    let p1 = UP::<Fr381>::from_coefficients_vec(r[4..7].to_vec());
    let (z1, z2) = (rho::<Fr381>(rec.seed, 1), rho::<Fr381>(rec.seed, 2));
    for hiding in [None, Some(1usize)] {
        let mut rng = seed_rng(rec.seed, 0);
        let (c0, r0) = Kzg::commit(&powers, &p0, hiding, Some(&mut rng as &mut dyn RngCore)).unwrap();
        let (c1, r1_) = Kzg::commit(&powers, &p1, hiding, Some(&mut rng as &mut dyn RngCore)).unwrap();
        let items = vec![
            (c0, z1, p0.evaluate(&z1), Kzg::open(&powers, &p0, z1, &r0).unwrap()),
            (c1, z1, p1.evaluate(&z1), Kzg::open(&powers, &p1, z1, &r1_).unwrap()),
            (c0, z2, p0.evaluate(&z2), Kzg::open(&powers, &p0, z2, &r0).unwrap()),
        ];
        let n = items.len();
        let tid = format!("KZG/C05/hiding={:?}", hiding);
        let cs: Vec<_> = items.iter().map(|x| x.0).collect();
        let zs: Vec<_> = items.iter().map(|x| x.1).collect();
        let vs: Vec<_> = items.iter().map(|x| x.2).collect();
        let ps: Vec<_> = items.iter().map(|x| x.3).collect();
        let indiv = |cs: &[kzg10::Commitment<E381>], zs: &[Fr381], vs: &[Fr381], ps: &[kzg10::Proof<E381>]| -> bool {
            if !(cs.len() == zs.len() && zs.len() == vs.len() && vs.len() == ps.len()) {
                return false;
            }
            (0..cs.len()).all(|i| kzg_check(&vk, &cs[i], zs[i], vs[i], &ps[i]).accepted())
        };
        let d1 = rho::<Fr381>(rec.seed, 1);
        for mask in 0u32..(1 << n) {
            let id = format!("{}/false-subset={:b}", tid, mask);
            if !rec.take(&id) {
                continue;
            }
            rec.dim("scheme", "KZG");
            let mut v = vs.clone();
            for i in 0..n {
                if mask >> i & 1 == 1 {
                    v[i] += d1;
                }
            }
            let got: Vec<Dec> = (0..3).map(|k| kzg_batch_check(&vk, &cs, &zs, &v, &ps, rec.seed, k)).collect();
            c05_cmp(rec, "KZG", "batch_check", "false-subset", &id, indiv(&cs, &zs, &v, &ps), &got, format!("mask={:b}", mask));
        }
        for i in 0..n {
            for j in 0..n {
                if i == j {
                    continue;
                }
                let id = format!("{}/cancel({},{})", tid, i, j);
                if !rec.take(&id) {
                    continue;
                }
                let mut v = vs.clone();
                v[i] += d1;
                v[j] -= d1;
                let got: Vec<Dec> = (0..3).map(|k| kzg_batch_check(&vk, &cs, &zs, &v, &ps, rec.seed, k)).collect();
                c05_cmp(rec, "KZG", "batch_check", "cancelling-pair", &id, indiv(&cs, &zs, &v, &ps), &got, format!("+d at {}, -d at {}", i, j));
            }
        }
        // proof-list edits and slice-length mismatches
        let mut edits: Vec<(String, Vec<kzg10::Commitment<E381>>, Vec<Fr381>, Vec<Fr381>, Vec<kzg10::Proof<E381>>)> = Vec::new();
        for p in permutations(n) {
            if p.iter().enumerate().all(|(i, x)| i == *x) {
                continue;
            }
            edits.push((format!("list-permuted{:?}", p), cs.clone(), zs.clone(), vs.clone(), p.iter().map(|i| ps[*i]).collect()));
        }
        for k in 0..n {
            edits.push((format!("list-truncated(len={})", k), cs.clone(), zs.clone(), vs.clone(), ps[..k].to_vec()));
            let mut l = ps.clone();
            l[(k + 1) % n] = ps[k];
            edits.push((format!("list-overwritten({})", k), cs.clone(), zs.clone(), vs.clone(), l));
        }
        let mut l = ps.clone();
        l.push(ps[0]);
        edits.push(("list-surplus".into(), cs.clone(), zs.clone(), vs.clone(), l));
        edits.push(("points-truncated".into(), cs.clone(), zs[..n - 1].to_vec(), vs.clone(), ps.clone()));
        edits.push(("values-truncated".into(), cs.clone(), zs.clone(), vs[..n - 1].to_vec(), ps.clone()));
        edits.push(("commitments-truncated".into(), cs[..n - 1].to_vec(), zs.clone(), vs.clone(), ps.clone()));
        for (name, c, z, v, p) in edits {
            for false_at in [None, Some(0usize), Some(n - 1)] {
                let id = format!("{}/{}/false={:?}", tid, name, false_at);
                if !rec.take(&id) {
                    continue;
                }
                let mut v = v.clone();
                if let Some(i) = false_at {
                    if i < v.len() {
                        v[i] += Fr381::one();
                    }
                }
                let got = vec![kzg_batch_check(&vk, &c, &z, &v, &p, rec.seed, 0)];
                c05_cmp(rec, "KZG", "batch_check", &name, &id, indiv(&c, &z, &v, &p), &got, format!("false claim at {:?}", false_at));
            }
        }
    }
    // ---- streaming verify_multi_points: m polynomials x k points
    let ck = str_key(8, 4, rec.seed);
    let vk = SVk::from(&ck);
    let polys: Vec<Vec<Fr381>> = vec![r[..5].to_vec(), r[3..9].to_vec(), r[1..4].to_vec()];
    let eta = rho::<Fr381>(rec.seed, 3);
    let d1 = rho::<Fr381>(rec.seed, 1);
    // value patterns: constant polynomials, a linear one (collinear values), an even one opened at z and -z (equal
    // values at two points) - claims whose divided differences vanish
    let even: Vec<Fr381> = vec![r[0], Fr381::zero(), r[1], Fr381::zero(), r[2]];
    let patterned: Vec<Vec<Fr381>> = vec![vec![r[5]], even, vec![r[6], r[7]]];
    for (case, m, pts) in [
        ("generic", 2usize, vec![z1, z2]),
        ("generic", 3, vec![z1, z2]),
        ("generic", 2, vec![z1, z2, Fr381::one()]),
        ("patterned", 2, vec![z1, -z1, z1 * z1]),
        ("patterned", 3, vec![z1, -z1, z2]),
        ("patterned", 1, vec![z1, z2, -z1, Fr381::one()]),
    ] {
        let polys: &Vec<Vec<Fr381>> = if case == "generic" { &polys } else { &patterned };
        let ps: Vec<&Vec<Fr381>> = polys[..m].iter().collect();
        let comms: Vec<_> = ps.iter().map(|p| ck.commit(p)).collect();
        let evals: Vec<Vec<Fr381>> = ps.iter().map(|p| pts.iter().map(|z| UP::<Fr381>::from_coefficients_slice(p).evaluate(z)).collect()).collect();
        let proof = ck.batch_open_multi_points(&ps, &pts, &eta);
        let k = pts.len();
        let tid = if case == "generic" { format!("STR/C05/m={}/k={}", m, k) } else { format!("STR/C05/{}/m={}/k={}", case, m, k) };
        let run = |ev: &Vec<Vec<Fr381>>, pf: &skzg::EvaluationProof<E381>| -> Dec {
            match catch(|| vk.verify_multi_points(&comms, &pts, ev, pf, &eta)) {
                Ok(Ok(())) => Dec::Acc,
                Ok(Err(_)) => Dec::Rej,
                Err(e) => Dec::Panic(e),
            }
        };
        for mask in 0u32..(1 << (m * k)) {
            let id = format!("{}/false-subset={:b}", tid, mask);
            if !rec.take(&id) {
                continue;
            }
            rec.dim("scheme", "STR");
            let mut ev = evals.clone();
            for b in 0..m * k {
                if mask >> b & 1 == 1 {
                    ev[b / k][b % k] += d1;
                }
            }
            let got = vec![run(&ev, &proof)];
            c05_cmp(rec, "STR", "verify_multi_points", "false-subset", &id, mask == 0, &got, format!("mask={:b}", mask));
        }
        for a in 0..m * k {
            for b in 0..m * k {
                if a == b {
                    continue;
                }
                let id = format!("{}/cancel({},{})", tid, a, b);
                if !rec.take(&id) {
                    continue;
                }
                let mut ev = evals.clone();
                ev[a / k][a % k] += d1;
                ev[b / k][b % k] -= d1;
                let got = vec![run(&ev, &proof)];
                c05_cmp(rec, "STR", "verify_multi_points", "cancelling-pair", &id, false, &got, format!("+d at {}, -d at {}", a, b));
            }
        }
        // a proof for other polynomials
        let id = format!("{}/foreign-proof", tid);
        if rec.take(&id) {
            let other: Vec<&Vec<Fr381>> = polys[polys.len() - m..].iter().rev().collect();
            let pf2 = ck.batch_open_multi_points(&other, &pts, &eta);
            if pf2 != proof {
                let got = vec![run(&evals, &pf2)];
                c05_cmp(rec, "STR", "verify_multi_points", "foreign-proof", &id, false, &got, "proof of another polynomial list".into());
            }
        }
    }
}

// ---------------------------------------------------------------------------------------------
// C10 on the special APIs
// ---------------------------------------------------------------------------------------------

fn c10_cmp(rec: &mut Rec, sch: &str, entry: &str, op: &str, id: &str, want: bool, got: &Dec) {
    rec.count_points(1);
    rec.op(2);
    let opc: String = op.chars().filter(|c| !c.is_ascii_digit()).collect();
    rec.class(if want { "relation-holds" } else { "relation-fails" });
    rec.class(&format!("lib-{}", got.class()));
    rec.obs(&format!("{}|{}|{}|{}|{}", sch, entry, opc, want, got.class()));
    if got.accepted() != want {
        let dir = if got.accepted() { "lib-accepts" } else { "lib-rejects" };
        rec.violation(&format!("C10/{}/{}/{}/{}", sch, entry, opc, dir), id, format!("{}: library -> {}, reference relation -> {}", op, got.short(), want));
    }
}

pub fn c10_special(rec: &mut Rec) {
    use crate::pmut::{f_alpha, g_alpha};
    use crate::refm::*;
    type G1 = <E381 as Pairing>::G1Affine;
    type G2 = <E381 as Pairing>::G2Affine;
    let dmax = if rec.thorough() { 4 } else { 2 };
    let mut prev: Option<KzgT> = None;
    kzg_transcripts(rec, dmax, |rec, _pp, vk, t| {
        let rel = |vk: &VerifierKey<E381>, c: &kzg10::Commitment<E381>, z: Fr381, v: Fr381, pf: &kzg10::Proof<E381>| {
            kzg_relation::<E381>(vk.g, vk.gamma_g, vk.h, vk.beta_h, c.0.into_group(), z, v, pf)
        };
        let both = |rec: &mut Rec, op: &str, vk: &VerifierKey<E381>, c: &kzg10::Commitment<E381>, z: Fr381, v: Fr381, pf: &kzg10::Proof<E381>| {
            let want = rel(vk, c, z, v, pf);
            let got = kzg_check(vk, c, z, v, pf);
            c10_cmp(rec, "KZG", "check", op, &t.id, want, &got);
            let got = kzg_batch_check(vk, &[*c], &[z], &[v], &[*pf], rec.seed, 0);
            c10_cmp(rec, "KZG", "batch_check", op, &t.id, want, &got);
        };
        both(rec, "honest", vk, &t.comm, t.point, t.value, &t.proof);
        let ow = prev.as_ref().map(|p| p.proof).unwrap_or(t.proof);
        let oc = prev.as_ref().map(|p| p.comm.0).unwrap_or(t.comm.0);
        for (n, f) in f_alpha(&t.value, None, rec.seed) {
            both(rec, &format!("value:={}", n), vk, &t.comm, t.point, f, &t.proof);
        }
        for (n, f) in f_alpha(&t.point, None, rec.seed) {
            both(rec, &format!("point:={}", n), vk, &t.comm, f, t.value, &t.proof);
        }
        for (n, g) in g_alpha::<G1>(&t.comm.0, Some(&oc), rec.seed) {
            both(rec, &format!("commitment:={}", n), vk, &kzg10::Commitment(g), t.point, t.value, &t.proof);
        }
        for (n, m) in kzg_proof_muts(&t.proof, &ow, rec.seed) {
            both(rec, &format!("proof.{}", n), vk, &t.comm, t.point, t.value, &m);
        }
        for (n, g) in g_alpha::<G1>(&vk.g, Some(&vk.gamma_g), rec.seed) {
            let mut k = vk.clone();
            k.g = g;
            both(rec, &format!("vk.g:={}", n), &k, &t.comm, t.point, t.value, &t.proof);
        }
        for (n, g) in g_alpha::<G1>(&vk.gamma_g, Some(&vk.g), rec.seed) {
            let mut k = vk.clone();
            k.gamma_g = g;
            both(rec, &format!("vk.gamma_g:={}", n), &k, &t.comm, t.point, t.value, &t.proof);
        }
        for (n, g) in g_alpha::<G2>(&vk.h, Some(&vk.beta_h), rec.seed) {
            let mut k = vk.clone();
            k.h = g;
            k.prepared_h = g.into();
            both(rec, &format!("vk.h:={}", n), &k, &t.comm, t.point, t.value, &t.proof);
        }
        for (n, g) in g_alpha::<G2>(&vk.beta_h, Some(&vk.h), rec.seed) {
            let mut k = vk.clone();
            k.beta_h = g;
            k.prepared_beta_h = g.into();
            both(rec, &format!("vk.beta_h:={}", n), &k, &t.comm, t.point, t.value, &t.proof);
        }
        rec.sample("KZG-c10", format!("{}: single-component replacements on check and batch_check vs the pairing relation", t.id));
        prev = Some(KzgT { id: t.id.clone(), poly: t.poly.clone(), comm: t.comm, rand: t.rand.clone(), point: t.point, value: t.value, proof: t.proof });
    });
    let nvmax = if rec.thorough() { 3 } else { 2 };
    mlp_transcripts(rec, nvmax, |rec, _ck, vk, t| {
        if t.id.ends_with("sparse") {
            return;
        }
        let both = |rec: &mut Rec, op: &str, vk: &mlpd::VerifierKey<E381>, c: &mlpd::Commitment<E381>, z: &[Fr381], v: Fr381, pf: &mlpd::Proof<E381>| {
            let want = ref_mlp_check::<E381>(vk.nv, vk.g, vk.h, &vk.g_mask_random, c.g_product, z, v, &pf.proofs);
            let got = mlp_check(vk, c, z, v, pf);
            c10_cmp(rec, "MLP", "check", op, &t.id, want, &got);
        };
        both(rec, "honest", vk, &t.comm, &t.point, t.value, &t.proof);
        for (n, f) in f_alpha(&t.value, None, rec.seed) {
            both(rec, &format!("value:={}", n), vk, &t.comm, &t.point, f, &t.proof);
        }
        for i in 0..t.nv {
            for (n, f) in f_alpha(&t.point[i], None, rec.seed).into_iter().take(3) {
                let mut z = t.point.clone();
                z[i] = f;
                both(rec, &format!("point[{}]:={}", i, n), vk, &t.comm, &z, t.value, &t.proof);
            }
            for (n, g) in g_alpha::<G2>(&t.proof.proofs[i], Some(&t.proof.proofs[(i + 1) % t.nv]), rec.seed) {
                let mut p = t.proof.clone();
                p.proofs[i] = g;
                both(rec, &format!("proof.proofs[{}]:={}", i, n), vk, &t.comm, &t.point, t.value, &p);
            }
            for (n, g) in g_alpha::<G1>(&vk.g_mask_random[i], Some(&vk.g), rec.seed) {
                let mut k = vk.clone();
                k.g_mask_random[i] = g;
                both(rec, &format!("vk.g_mask[{}]:={}", i, n), &k, &t.comm, &t.point, t.value, &t.proof);
            }
        }
        for (n, g) in g_alpha::<G1>(&t.comm.g_product, Some(&vk.g), rec.seed) {
            let mut c = t.comm.clone();
            c.g_product = g;
            both(rec, &format!("commitment:={}", n), vk, &c, &t.point, t.value, &t.proof);
        }
        for (n, g) in g_alpha::<G1>(&vk.g, None, rec.seed) {
            let mut k = vk.clone();
            k.g = g;
            both(rec, &format!("vk.g:={}", n), &k, &t.comm, &t.point, t.value, &t.proof);
        }
        for (n, g) in g_alpha::<G2>(&vk.h, None, rec.seed) {
            let mut k = vk.clone();
            k.h = g;
            both(rec, &format!("vk.h:={}", n), &k, &t.comm, &t.point, t.value, &t.proof);
        }
        rec.sample("MLP-c10", format!("{}: single-component replacements vs the pairing relation", t.id));
    });
    str_transcripts(rec, dmax, |rec, ck, vk, t| {
        let stream = skzg::CommitterKeyStream::from(ck);
        let g = *stream.powers_of_g.0.first().unwrap();
        let h = stream.powers_of_g2[0];
        let tau_h = stream.powers_of_g2[1];
        let both = |rec: &mut Rec, op: &str, c: &skzg::Commitment<E381>, z: Fr381, v: Fr381, pf: &skzg::EvaluationProof<E381>| {
            let want = ref_str_check::<E381>(g, h, tau_h, c.verif_inner(), z, v, pf.0);
            let got = str_verify(vk, c, &z, &v, pf);
            c10_cmp(rec, "STR", "verify", op, &t.id, want, &got);
        };
        both(rec, "honest", &t.comm, t.point, t.value, &t.proof);
        for (n, f) in f_alpha(&t.value, None, rec.seed) {
            both(rec, &format!("value:={}", n), &t.comm, t.point, f, &t.proof);
        }
        for (n, f) in f_alpha(&t.point, None, rec.seed) {
            both(rec, &format!("point:={}", n), &t.comm, f, t.value, &t.proof);
        }
        for (n, x) in g_alpha::<G1>(&t.comm.verif_inner(), Some(&g), rec.seed) {
            both(rec, &format!("commitment:={}", n), &skzg::Commitment::verif_from_inner(x), t.point, t.value, &t.proof);
        }
        for (n, x) in g_alpha::<G1>(&t.proof.0, Some(&g), rec.seed) {
            both(rec, &format!("proof:={}", n), &t.comm, t.point, t.value, &skzg::EvaluationProof(x));
        }
        rec.sample("STR-c10", format!("{}: single-component replacements vs the pairing relation", t.id));
    });
    // streaming multi-point verifier against its published relation
    //   e(sum eta^i C_i - [nu](tau) G, H) = e(pi, [Z](tau) H),  nu = interpolant of the eta-combined claims, Z = vanishing polynomial
    // for (polynomials, points) in {1,2,3} x {1,2,3,4} - fewer, as many and more polynomials than points
    {
        use ark_ec::CurveGroup;
        let ck = str_key(12, 4, rec.seed);
        let vk = SVk::from(&ck);
        let stream = skzg::CommitterKeyStream::from(&ck);
        let gp: Vec<G1> = stream.powers_of_g.0.to_vec();
        let g2p: Vec<G2> = stream.powers_of_g2.clone();
        let pts_all = rho_stream::<Fr381>(rec.seed, 71, 6);
        let reference = |cs: &[skzg::Commitment<E381>], zs: &[Fr381], evs: &[Vec<Fr381>], pf: &skzg::EvaluationProof<E381>, eta: Fr381| -> bool {
            let k = zs.len();
            if evs.len() != cs.len() || evs.iter().any(|e| e.len() != k) || k + 1 > g2p.len() {
                return false;
            }
            // eta-combined claims
            let mut comb = vec![Fr381::zero(); k];
            let mut cc = <E381 as Pairing>::G1::zero();
            let mut pw = Fr381::one();
            for (c, e) in cs.iter().zip(evs.iter()) {
                for j in 0..k {
                    comb[j] += pw * e[j];
                }
                cc += naive_mul(&c.verif_inner(), &pw);
                pw *= eta;
            }
            // Lagrange interpolation (naive) and vanishing polynomial
            let mut nu = vec![Fr381::zero(); k.max(1)];
            for j in 0..k {
                let mut basis = vec![Fr381::one()];
                let mut denom = Fr381::one();
                for m in 0..k {
                    if m == j {
                        continue;
                    }
                    let mut next = vec![Fr381::zero(); basis.len() + 1];
                    for (i, b) in basis.iter().enumerate() {
                        next[i + 1] += *b;
                        next[i] -= zs[m] * *b;
                    }
                    basis = next;
                    denom *= zs[j] - zs[m];
                }
                if denom.is_zero() {
                    return false;
                }
                let s = comb[j] * ark_ff::Field::inverse(&denom).unwrap();
                for (i, b) in basis.iter().enumerate() {
                    nu[i] += s * *b;
                }
            }
            let mut zpoly = vec![Fr381::one()];
            for z in zs.iter() {
                let mut next = vec![Fr381::zero(); zpoly.len() + 1];
                for (i, b) in zpoly.iter().enumerate() {
                    next[i + 1] += *b;
                    next[i] -= *z * *b;
                }
                zpoly = next;
            }
            let lhs_g1 = (cc - naive_msm(&gp[..nu.len()], &nu)).into_affine();
            let z_g2 = naive_msm(&g2p[..zpoly.len()], &zpoly).into_affine();
            <E381 as Pairing>::pairing(lhs_g1, g2p[0]) == <E381 as Pairing>::pairing(pf.0, z_g2)
        };
        for npoly in 1..=3usize {
            for npts in 1..=4usize {
                for (en, eta) in [("r1", rho::<Fr381>(rec.seed, 1)), ("1", Fr381::one()), ("0", Fr381::zero())] {
                    let id = format!("STR/multi/polys={}/points={}/eta={}", npoly, npts, en);
                    if !rec.take(&id) {
                        continue;
                    }
                    rec.dim("scheme", "STR");
                    let polys: Vec<Vec<Fr381>> = (0..npoly).map(|i| rho_stream::<Fr381>(rec.seed, 72 + i as u64, 6 + 2 * i)).collect();
                    let refs: Vec<&Vec<Fr381>> = polys.iter().collect();
                    let zs: Vec<Fr381> = pts_all[..npts].to_vec();
                    let cs: Vec<skzg::Commitment<E381>> = polys.iter().map(|p| ck.commit(p)).collect();
                    let evs: Vec<Vec<Fr381>> = polys.iter().map(|p| zs.iter().map(|z| crate::refm::horner(p, *z)).collect()).collect();
                    let pf = match catch(|| ck.batch_open_multi_points(&refs, &zs, &eta)) {
                        Ok(p) => p,
                        Err(_) => continue,
                    };
                    let mut both = |rec: &mut Rec, op: &str, cs: &[skzg::Commitment<E381>], zs: &[Fr381], evs: &[Vec<Fr381>], pf: &skzg::EvaluationProof<E381>| {
                        let want = reference(cs, zs, evs, pf, eta);
                        let got = match catch(|| vk.verify_multi_points(cs, zs, evs, pf, &eta)) {
                            Ok(Ok(())) => Dec::Acc,
                            Ok(Err(_)) => Dec::Rej,
                            Err(e) => Dec::Panic(e),
                        };
                        c10_cmp(rec, "STR", "verify_multi_points", op, &id, want, &got);
                    };
                    both(rec, "honest", &cs, &zs, &evs, &pf);
                    for i in 0..npoly {
                        for j in 0..npts {
                            for (n, f) in f_alpha(&evs[i][j], None, rec.seed) {
                                let mut e2 = evs.clone();
                                e2[i][j] = f;
                                both(rec, &format!("value[{}][{}]:={}", i, j, n), &cs, &zs, &e2, &pf);
                            }
                        }
                    }
                    for j in 0..npts {
                        let mut z2 = zs.clone();
                        z2[j] = pts_all[5];
                        both(rec, &format!("point[{}]:=other", j), &cs, &z2, &evs, &pf);
                    }
                    for i in 0..npoly {
                        for (n, x) in g_alpha::<G1>(&cs[i].verif_inner(), Some(&gp[0]), rec.seed) {
                            let mut c2 = cs.clone();
                            c2[i] = skzg::Commitment::verif_from_inner(x);
                            both(rec, &format!("commitment[{}]:={}", i, n), &c2, &zs, &evs, &pf);
                        }
                    }
                    for (n, x) in g_alpha::<G1>(&pf.0, Some(&gp[0]), rec.seed) {
                        both(rec, &format!("proof:={}", n), &cs, &zs, &evs, &skzg::EvaluationProof(x));
                    }
                }
            }
        }
    }
}

// ---------------------------------------------------------------------------------------------
// Points on and near the Boolean hypercube (multilinear / multivariate trait schemes)
// ---------------------------------------------------------------------------------------------

/// Every point with coordinates in {0, 1, rho} (3^nv points, nv <= 4) for a dense polynomial of a multilinear /
/// multivariate trait scheme.  `prop == "C01"`: the honest opening at the point is accepted for the true value.
/// `prop == "C02"` / `"C03"`: the same honest proof does not prove the value the polynomial takes at a REARRANGED point
/// (coordinates reversed, reversed inside each half, halves exchanged, 0 and 1 exchanged) when that value differs.
pub fn hypercube<S: crate::sch::Sch<Pt = Vec<<S as crate::sch::Sch>::F>>>(rec: &mut Rec, prop: &str, nvs: &[usize]) {
    use crate::sch::*;
    use crate::tr::*;
    for nv in nvs.iter().copied() {
        let cfg = if S::FAM == Fam::Mv { KeyCfg::mv(nv, 2, 2) } else { KeyCfg::ml(nv) };
        let mut keys: Option<Keys<S>> = None;
        let total = 3usize.pow(nv as u32);
        // one enumerated point per block of 9 hypercube points
        for block in 0..(total + 8) / 9 {
            let id = format!("{}/{}/hypercube/nv={}/block={}", S::NAME, prop, nv, block);
            if !rec.take(&id) {
                continue;
            }
            if keys.is_none() {
                keys = build_keys::<S>(&cfg, rec.seed).ok();
            }
            let keys = match &keys {
                Some(k) => k,
                None => return,
            };
            rec.dim("scheme", S::NAME);
            let shapes = S::shapes(&cfg, rec.seed);
            let dense = match shapes.iter().rev().find(|(m, _)| m.starts_with("dense")) {
                Some(x) => x.1.clone(),
                None => shapes.last().unwrap().1.clone(),
            };
            let c = match commit_set::<S>(keys, vec![lp::<S>("p", dense.clone(), None, None)], rec.seed, 0) {
                Ok(c) => c,
                Err(_) => continue,
            };
            let rho_v = rho_stream::<S::F>(rec.seed, 81, nv);
            for k in block * 9..((block + 1) * 9).min(total) {
                let mut digits = Vec::new();
                let mut x = k;
                for _ in 0..nv {
                    digits.push(x % 3);
                    x /= 3;
                }
                let z: Vec<S::F> = digits.iter().enumerate().map(|(i, d)| match d { 0 => S::F::zero(), 1 => S::F::one(), _ => rho_v[i] }).collect();
                let name: String = digits.iter().map(|d| match d { 0 => '0', 1 => '1', _ => 'r' }).collect();
                let s1 = match open_single::<S>(keys, &c, &[0], &z, 0, rec.seed, 0) {
                    Ok(s) => s,
                    Err(o) => {
                        if prop == "C01" {
                            rec.count_points(1);
                            rec.violation(&format!("C01/{}/open/hypercube", S::NAME), &id, format!("open failed at the point {}: {}", name, o.short()));
                        }
                        continue;
                    }
                };
                rec.op(2);
                let comms: Vec<&LCm<S>> = c.comms.iter().collect();
                if prop == "C01" {
                    let d = check_single::<S>(keys, &comms, &z, &s1.values, &s1.proof, 0, rec.seed, 0);
                    rec.count_points(1);
                    rec.class(d.class());
                    rec.obs(&format!("{}|hypercube|{}|{}", S::NAME, nv, d.class()));
                    if !d.accepted() {
                        rec.violation(&format!("C01/{}/check/hypercube", S::NAME), &id, format!("honest opening at the point {} (0/1/generic coordinates) not accepted: {}", name, d.short()));
                    }
                } else {
                    let h = nv / 2;
                    let mut variants: Vec<(&str, Vec<S::F>)> = Vec::new();
                    variants.push(("reversed", z.iter().rev().cloned().collect()));
                    if nv >= 2 {
                        let mut v: Vec<S::F> = z[..h].iter().rev().cloned().collect();
                        v.extend(z[h..].iter().rev().cloned());
                        variants.push(("reversed-inside-halves", v));
                        let mut v: Vec<S::F> = z[h..].to_vec();
                        v.extend(z[..h].iter().cloned());
                        if v.len() == nv {
                            variants.push(("halves-exchanged", v));
                        }
                    }
                    variants.push(("bits-flipped", z.iter().map(|x| if x.is_zero() { S::F::one() } else if x.is_one() { S::F::zero() } else { *x }).collect()));
                    for (vn, zz) in variants {
                        let other = dense.evaluate(&zz);
                        rec.count_points(1);
                        if other == s1.values[0] {
                            rec.class("still-true");
                            continue;
                        }
                        let d = check_single::<S>(keys, &comms, &z, &[other], &s1.proof, 0, rec.seed, 0);
                        rec.class(&format!("false-{}", d.class()));
                        rec.obs(&format!("{}|hypercube|{}|{}|{}", S::NAME, nv, vn, d.class()));
                        if d.accepted() {
                            rec.violation(&format!("{}/{}/check/value-of-rearranged-point", prop, S::NAME), &id, format!("the honest proof at the point {} proves the value the polynomial takes at the {} point", name, vn));
                        }
                    }
                }
            }
            rec.sample(&format!("{}-hypercube", S::NAME), id.clone());
        }
    }
}

/// Streaming KZG, SPACE-efficient prover (C01): commitment and opening computed from a coefficient stream with an MSM
/// buffer of b entries, b in {1, 2, 3, 8, len - 1, len, 2^20} (the buffer bound exists for polynomials longer than the
/// buffer), verified by the verifier key: the true evaluation is returned and accepted.
pub fn c01_special_stream(rec: &mut Rec) {
    use ark_poly_commit::streaming_kzg::CommitterKeyStream;
    let lens: Vec<usize> = if rec.thorough() { (1..=40).chain([63, 64, 65, 129, 257]).collect() } else { vec![1, 2, 3, 4, 5, 8, 9, 16, 17, 33, 34, 65] };
    let top = *lens.iter().max().unwrap();
    let ck = str_key(top + 1, 3, rec.seed);
    let vk = SVk::from(&ck);
    let sck = CommitterKeyStream::from(&ck);
    let r = rho_stream::<Fr381>(rec.seed, 91, top + 2);
    rec.scope(format!("STR space-efficient prover: lengths {:?} x 3 coefficient patterns x MSM buffers {{1,2,3,8,len-1,len,2^20}} x 2 points", lens));
    for len in lens {
        for pat in ["dense", "lowzero", "alternating"] {
            let id = format!("STR/stream/len={}/{}", len, pat);
            if !rec.take(&id) {
                continue;
            }
            rec.dim("scheme", "STR");
            let mut coeffs: Vec<Fr381> = r[..len].to_vec();
            if pat == "lowzero" && len > 2 {
                coeffs[0] = Fr381::zero();
                coeffs[1] = Fr381::zero();
            }
            if pat == "alternating" {
                for i in (1..len.saturating_sub(1)).step_by(2) {
                    coeffs[i] = Fr381::zero();
                }
            }
            let p = UP::<Fr381>::from_coefficients_slice(&coeffs);
            let rev: Vec<Fr381> = coeffs.iter().rev().cloned().collect();
            let stream = rev.as_slice();
            let comm = match catch(|| sck.commit(&stream)) {
                Ok(c) => c,
                Err(e) => {
                    rec.violation("C01/STR/stream-commit/in-domain", &id, format!("panicked: {}", e));
                    continue;
                }
            };
            let mut bufs = vec![1usize, 2, 3, 8, len.saturating_sub(1).max(1), len, 1 << 20];
            bufs.sort();
            bufs.dedup();
            for z in [r[top], r[top + 1]] {
                for b in bufs.iter() {
                    rec.count_points(1);
                    rec.op(2);
                    match catch(|| sck.open(&stream, &z, *b)) {
                        Ok((v, pf)) => {
                            if v != p.evaluate(&z) {
                                rec.violation("C01/STR/stream-open/evaluation", &id, format!("buffer {}: the space-efficient prover returned a wrong evaluation", b));
                            }
                            let d = str_verify(&vk, &comm, &z, &p.evaluate(&z), &pf);
                            rec.class(d.class());
                            rec.obs(&format!("STR|stream|{}|{}", (*b).min(len + 1) >= len, d.class()));
                            if !d.accepted() {
                                rec.violation("C01/STR/verify/stream-honest", &id, format!("buffer {}: the space-efficient prover's proof of the true evaluation is not accepted: {}", b, d.short()));
                            }
                        }
                        Err(e) => rec.violation("C01/STR/stream-open/in-domain", &id, format!("buffer {}: panicked: {}", b, e)),
                    }
                }
            }
            rec.sample("STR-stream", id.clone());
        }
    }
}
