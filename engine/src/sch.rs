//! Scheme adapters: a uniform view of the nine `PolynomialCommitment` instantiations, plus the
//! guarded wrappers around every trait entry point (panic capture, decision classes).
use crate::alpha::*;
use crate::schemes::*;
use crate::util::*;
use ark_crypto_primitives::sponge::Absorb;
use ark_ff::{One, PrimeField, Zero};
use ark_poly::{
    multivariate::{SparseTerm, Term},
    DenseMVPolynomial, DenseUVPolynomial, Polynomial,
};
use ark_poly_commit::{
    linear_codes::{BrakedownPCParams, LigeroPCParams},
    BatchLCProof, Evaluations, LabeledCommitment, LabeledPolynomial, LinearCombination,
    PolynomialCommitment, QuerySet,
};
use ark_std::rand::RngCore;
use core::fmt::Debug;
use core::hash::Hash;

#[derive(Clone, Debug, PartialEq, Eq)]
pub struct KeyCfg {
    /// max_degree handed to setup
    pub max: usize,
    /// num_vars handed to setup
    pub nv: Option<usize>,
    /// supported_degree handed to trim
    pub sup: usize,
    /// supported_hiding_bound handed to trim
    pub hid: usize,
    /// enforced degree bounds handed to trim
    pub bounds: Option<Vec<usize>>,
    /// linear codes: (security parameter, rho_inv, well-formedness check); None = scheme default
    pub lc: Option<(usize, usize, bool)>,
    /// setup RNG seed index
    pub srng: usize,
}

impl KeyCfg {
    pub fn uni(max: usize, sup: usize, hid: usize, bounds: Option<Vec<usize>>) -> Self {
        KeyCfg { max, nv: None, sup, hid, bounds, lc: None, srng: 0 }
    }
    pub fn ml(nv: usize) -> Self {
        KeyCfg { max: 1, nv: Some(nv), sup: 1, hid: 1, bounds: None, lc: None, srng: 0 }
    }
    pub fn mv(nv: usize, max: usize, sup: usize) -> Self {
        KeyCfg { max, nv: Some(nv), sup, hid: sup, bounds: None, lc: None, srng: 0 }
    }
    pub fn id(&self) -> String {
        let mut s = format!("D={}", self.max);
        if let Some(n) = self.nv {
            s.push_str(&format!(",nv={}", n));
        }
        s.push_str(&format!(",s={},hs={}", self.sup, self.hid));
        match &self.bounds {
            None => s.push_str(",B=None"),
            Some(b) => s.push_str(&format!(",B={:?}", b).replace(' ', "")),
        }
        if let Some((l, r, w)) = self.lc {
            s.push_str(&format!(",lc=({},{},{})", l, r, w));
        }
        if self.srng != 0 {
            s.push_str(&format!(",srng={}", self.srng));
        }
        s
    }
}

#[derive(Clone, Copy, Debug, PartialEq, Eq)]
pub enum Fam {
    Uni,
    Ml,
    Mv,
}

pub type PCof<S> = <S as Sch>::PC;
pub type PP<S> = <<S as Sch>::PC as PolynomialCommitment<<S as Sch>::F, <S as Sch>::P>>::UniversalParams;
pub type CK<S> = <<S as Sch>::PC as PolynomialCommitment<<S as Sch>::F, <S as Sch>::P>>::CommitterKey;
pub type VK<S> = <<S as Sch>::PC as PolynomialCommitment<<S as Sch>::F, <S as Sch>::P>>::VerifierKey;
pub type Cm<S> = <<S as Sch>::PC as PolynomialCommitment<<S as Sch>::F, <S as Sch>::P>>::Commitment;
pub type St<S> = <<S as Sch>::PC as PolynomialCommitment<<S as Sch>::F, <S as Sch>::P>>::CommitmentState;
pub type Pf<S> = <<S as Sch>::PC as PolynomialCommitment<<S as Sch>::F, <S as Sch>::P>>::Proof;
pub type BPf<S> = <<S as Sch>::PC as PolynomialCommitment<<S as Sch>::F, <S as Sch>::P>>::BatchProof;
pub type LP<S> = LabeledPolynomial<<S as Sch>::F, <S as Sch>::P>;
pub type LCm<S> = LabeledCommitment<Cm<S>>;

pub trait Sch: Sized + 'static {
    type F: PrimeField + Absorb;
    type Pt: Clone + Debug + Hash + Ord + Sync + Send;
    type P: Polynomial<Self::F, Point = Self::Pt> + Clone + Debug;
    type PC: PolynomialCommitment<Self::F, Self::P>;
    const NAME: &'static str;
    const FAM: Fam;
    /// scheme enforces degree bounds
    const BOUNDS: bool;
    /// scheme supports hiding commitments
    const HIDING: bool;
    /// commit/open need an RNG even without hiding (Hyrax)
    const NEEDS_RNG: bool;
    /// uses the trait's default batch_check / check_combinations
    const DEFAULT_BATCH: bool;

    fn setup(cfg: &KeyCfg, seed: u64) -> Result<PP<Self>, Out> {
        let mut rng = seed_rng(seed, 10 + cfg.srng);
        flat(catch(|| Self::PC::setup(cfg.max, cfg.nv, &mut rng)))
    }

    fn trim(pp: &PP<Self>, cfg: &KeyCfg) -> Result<(CK<Self>, VK<Self>), Out> {
        flat(catch(|| Self::PC::trim(pp, cfg.sup, cfg.hid, cfg.bounds.as_deref())))
    }

    /// Named polynomial shapes that are in-domain for the key.
    fn shapes(cfg: &KeyCfg, seed: u64) -> Vec<(String, Self::P)>;
    /// Evaluation point alphabet for the key (first entry is generic).
    fn points(cfg: &KeyCfg, seed: u64) -> Vec<(String, Self::Pt)>;
    /// Points that differ from `p` (for "opened elsewhere" perturbations).
    fn other_points(cfg: &KeyCfg, seed: u64, p: &Self::Pt) -> Vec<(String, Self::Pt)> {
        Self::points(cfg, seed).into_iter().filter(|(_, q)| q != p).collect()
    }
    fn degree(p: &Self::P) -> usize {
        p.degree()
    }
    /// Shapes for the scheme-specific size slice (C01-C); defaults to `shapes`.
    fn shapes_c(cfg: &KeyCfg, seed: u64, _thorough: bool) -> Vec<(String, Self::P)> {
        Self::shapes(cfg, seed)
    }
    /// p + 1 (a different polynomial of the same shape family)
    fn plus_one(p: &Self::P) -> Self::P;
    /// a*p + b*q
    fn lincomb(a: Self::F, p: &Self::P, b: Self::F, q: &Self::P) -> Self::P;
    /// p with its first two variables exchanged (multilinear / multivariate families)
    fn swap_vars(_p: &Self::P) -> Option<Self::P> {
        None
    }
}

pub struct Keys<S: Sch> {
    pub cfg: KeyCfg,
    pub pp: PP<S>,
    pub ck: CK<S>,
    pub vk: VK<S>,
}

pub fn build_keys<S: Sch>(cfg: &KeyCfg, seed: u64) -> Result<Keys<S>, Out> {
    let pp = S::setup(cfg, seed)?;
    let (ck, vk) = S::trim(&pp, cfg)?;
    Ok(Keys { cfg: cfg.clone(), pp, ck, vk })
}

// ------------------------------------------------------------------------------------------
// guarded wrappers
// ------------------------------------------------------------------------------------------

pub fn lp<S: Sch>(label: &str, p: S::P, bound: Option<usize>, hiding: Option<usize>) -> LP<S> {
    LabeledPolynomial::new(label.to_string(), p, bound, hiding)
}

pub fn do_commit<S: Sch>(
    ck: &CK<S>,
    polys: &[LP<S>],
    rng: Option<&mut dyn RngCore>,
) -> Result<(Vec<LCm<S>>, Vec<St<S>>), Out> {
    flat(catch(|| S::PC::commit(ck, polys.iter(), rng)))
}

pub fn do_open<S: Sch>(
    ck: &CK<S>,
    polys: &[&LP<S>],
    comms: &[&LCm<S>],
    point: &S::Pt,
    sponge: &mut Sponge<S::F>,
    states: &[&St<S>],
    rng: Option<&mut dyn RngCore>,
) -> Result<Pf<S>, Out> {
    flat(catch(|| {
        S::PC::open(
            ck,
            polys.iter().copied(),
            comms.iter().copied(),
            point,
            sponge,
            states.iter().copied(),
            rng,
        )
    }))
}

pub fn do_check<S: Sch>(
    vk: &VK<S>,
    comms: &[&LCm<S>],
    point: &S::Pt,
    values: &[S::F],
    proof: &Pf<S>,
    sponge: &mut Sponge<S::F>,
    rng: Option<&mut dyn RngCore>,
) -> Dec {
    dec(catch(|| {
        S::PC::check(vk, comms.iter().copied(), point, values.iter().copied(), proof, sponge, rng)
    }))
}

pub fn do_batch_open<S: Sch>(
    ck: &CK<S>,
    polys: &[&LP<S>],
    comms: &[&LCm<S>],
    qs: &QuerySet<S::Pt>,
    sponge: &mut Sponge<S::F>,
    states: &[&St<S>],
    rng: Option<&mut dyn RngCore>,
) -> Result<BPf<S>, Out> {
    flat(catch(|| {
        S::PC::batch_open(
            ck,
            polys.iter().copied(),
            comms.iter().copied(),
            qs,
            sponge,
            states.iter().copied(),
            rng,
        )
    }))
}

pub fn do_batch_check<S: Sch>(
    vk: &VK<S>,
    comms: &[&LCm<S>],
    qs: &QuerySet<S::Pt>,
    evals: &Evaluations<S::Pt, S::F>,
    proof: &BPf<S>,
    sponge: &mut Sponge<S::F>,
    rng: &mut dyn RngCore,
) -> Dec {
    let mut r = rng;
    dec(catch(|| S::PC::batch_check(vk, comms.iter().copied(), qs, evals, proof, sponge, &mut r)))
}

pub fn do_open_comb<S: Sch>(
    ck: &CK<S>,
    lcs: &[LinearCombination<S::F>],
    polys: &[&LP<S>],
    comms: &[&LCm<S>],
    qs: &QuerySet<S::Pt>,
    sponge: &mut Sponge<S::F>,
    states: &[&St<S>],
    rng: Option<&mut dyn RngCore>,
) -> Result<BatchLCProof<S::F, BPf<S>>, Out> {
    flat(catch(|| {
        S::PC::open_combinations(
            ck,
            lcs.iter(),
            polys.iter().copied(),
            comms.iter().copied(),
            qs,
            sponge,
            states.iter().copied(),
            rng,
        )
    }))
}

pub fn do_check_comb<S: Sch>(
    vk: &VK<S>,
    lcs: &[LinearCombination<S::F>],
    comms: &[&LCm<S>],
    qs: &QuerySet<S::Pt>,
    evals: &Evaluations<S::Pt, S::F>,
    proof: &BatchLCProof<S::F, BPf<S>>,
    sponge: &mut Sponge<S::F>,
    rng: &mut dyn RngCore,
) -> Dec {
    let mut r = rng;
    dec(catch(|| {
        S::PC::check_combinations(vk, lcs.iter(), comms.iter().copied(), qs, evals, proof, sponge, &mut r)
    }))
}

pub fn relabel<S: Sch>(c: &LCm<S>, label: &str, bound: Option<usize>) -> LCm<S> {
    LabeledCommitment::new(label.to_string(), c.commitment().clone(), bound)
}

// ------------------------------------------------------------------------------------------
// polynomial shape alphabets
// ------------------------------------------------------------------------------------------

/// Univariate shapes for degree limit `s` (DESIGN 3.2).
pub fn uni_shapes<F: PrimeField>(s: usize, seed: u64) -> Vec<(String, UP<F>)> {
    let mut out: Vec<(String, UP<F>)> = Vec::new();
    let r = rho_stream::<F>(seed, 1, s + 2);
    out.push(("zero".into(), UP::<F>::from_coefficients_vec(vec![])));
    out.push(("const".into(), UP::<F>::from_coefficients_vec(vec![r[0]])));
    for d in 1..=s {
        out.push((format!("dense({})", d), UP::<F>::from_coefficients_vec(r[..=d].to_vec())));
    }
    for d in 1..=s {
        let mut c = r[..=d].to_vec();
        c[0] = F::zero();
        out.push((format!("lowzero({})", d), UP::<F>::from_coefficients_vec(c)));
    }
    for d in 1..=s {
        let mut c = vec![F::zero(); d + 1];
        c[d] = F::one();
        out.push((format!("top({})", d), UP::<F>::from_coefficients_vec(c)));
    }
    for d in 0..s {
        let mut c = r[..=d].to_vec();
        c.push(F::zero());
        c.push(F::zero());
        out.push((format!("padded({})", d), UP::<F>::from_coefficients_vec(c)));
    }
    out
}

/// A short list of univariate shapes (used where the full alphabet would be too wide).
pub fn uni_shapes_short<F: PrimeField>(s: usize, seed: u64) -> Vec<(String, UP<F>)> {
    let all = uni_shapes::<F>(s, seed);
    let keep = [
        "zero".to_string(),
        "const".to_string(),
        format!("dense({})", s),
        format!("dense({})", (s + 1) / 2),
        format!("lowzero({})", s),
        format!("top({})", s),
    ];
    let mut out = Vec::new();
    for (n, p) in all {
        if keep.contains(&n) && !out.iter().any(|(m, _): &(String, UP<F>)| *m == n) {
            out.push((n, p));
        }
    }
    out
}

pub fn uni_points<F: PrimeField>(seed: u64) -> Vec<(String, F)> {
    vec![
        ("r1".into(), rho::<F>(seed, 1)),
        ("0".into(), F::zero()),
        ("1".into(), F::one()),
        ("-1".into(), -F::one()),
        ("r2".into(), rho::<F>(seed, 2)),
    ]
}

/// Multilinear shapes for `nv` variables.
pub fn ml_shapes<F: PrimeField>(nv: usize, seed: u64) -> Vec<(String, MLE<F>)> {
    let n = 1usize << nv;
    let r = rho_stream::<F>(seed, 2, n);
    let mut out = Vec::new();
    out.push(("zero".into(), MLE::<F>::from_evaluations_vec(nv, vec![F::zero(); n])));
    out.push(("const".into(), MLE::<F>::from_evaluations_vec(nv, vec![r[0]; n])));
    let unit_idx: Vec<usize> = if n <= 16 {
        (0..n).collect()
    } else {
        vec![0, 1, n / 2 - 1, n / 2, n - 2, n - 1]
    };
    for i in unit_idx {
        let mut e = vec![F::zero(); n];
        e[i] = F::one();
        out.push((format!("e{}", i), MLE::<F>::from_evaluations_vec(nv, e)));
    }
    out.push(("dense".into(), MLE::<F>::from_evaluations_vec(nv, r.clone())));
    out
}

pub fn ml_points<F: PrimeField>(nv: usize, seed: u64) -> Vec<(String, Vec<F>)> {
    let r = rho_stream::<F>(seed, 3, nv.max(1) * 2);
    let mut out = vec![("generic".to_string(), r[..nv].to_vec())];
    out.push(("zeros".into(), vec![F::zero(); nv]));
    out.push(("ones".into(), vec![F::one(); nv]));
    if nv >= 1 {
        let mut m = r[..nv].to_vec();
        m[0] = F::zero();
        if nv >= 2 {
            m[nv - 1] = F::one();
        }
        out.push(("mixed".into(), m));
        out.push(("generic2".into(), r[nv..2 * nv].to_vec()));
    }
    out.dedup_by(|a, b| a.1 == b.1);
    let mut seen: Vec<Vec<F>> = Vec::new();
    out.retain(|(_, p)| {
        if seen.contains(p) {
            false
        } else {
            seen.push(p.clone());
            true
        }
    });
    out
}

/// All exponent vectors in `nv` variables of total degree <= d (independent stars-and-bars enumerator).
pub fn exponent_vectors(nv: usize, d: usize) -> Vec<Vec<usize>> {
    fn rec(i: usize, nv: usize, left: usize, cur: &mut Vec<usize>, out: &mut Vec<Vec<usize>>) {
        if i == nv {
            out.push(cur.clone());
            return;
        }
        for e in 0..=left {
            cur.push(e);
            rec(i + 1, nv, left - e, cur, out);
            cur.pop();
        }
    }
    let mut out = Vec::new();
    rec(0, nv, d, &mut Vec::new(), &mut out);
    out
}

pub fn sparse_term(exps: &[usize]) -> SparseTerm {
    SparseTerm::new(exps.iter().enumerate().filter(|(_, e)| **e > 0).map(|(i, e)| (i, *e)).collect())
}

pub fn mv_from_support<F: PrimeField>(nv: usize, support: &[Vec<usize>], coeffs: &[F]) -> MVP<F> {
    let terms: Vec<(F, SparseTerm)> =
        support.iter().zip(coeffs.iter()).map(|(e, c)| (*c, sparse_term(e))).collect();
    MVP::<F>::from_coefficients_vec(nv, terms)
}

/// Multivariate shapes for (nv, degree <= sup): zero, const, every single monomial, pairs with a
/// mixed monomial, the full dense support.
pub fn mv_shapes<F: PrimeField>(nv: usize, sup: usize, seed: u64) -> Vec<(String, MVP<F>)> {
    let mons = exponent_vectors(nv, sup);
    let r = rho_stream::<F>(seed, 4, mons.len() + 2);
    let mut out = Vec::new();
    out.push(("zero".into(), MVP::<F>::from_coefficients_vec(nv, vec![])));
    out.push(("const".into(), mv_from_support(nv, &[vec![0; nv]], &r[..1])));
    for (i, m) in mons.iter().enumerate() {
        if m.iter().sum::<usize>() == 0 {
            continue;
        }
        out.push((format!("mono{:?}", m).replace(' ', ""), mv_from_support(nv, &[m.clone()], &r[i..i + 1])));
    }
    out.push(("dense".into(), mv_from_support(nv, &mons, &r[..mons.len()])));
    out
}

// ------------------------------------------------------------------------------------------
// the nine adapters
// ------------------------------------------------------------------------------------------

macro_rules! uni_common {
    ($F:ty) => {
        fn shapes(cfg: &KeyCfg, seed: u64) -> Vec<(String, Self::P)> {
            uni_shapes::<$F>(cfg.sup, seed)
        }
        fn points(_cfg: &KeyCfg, seed: u64) -> Vec<(String, Self::Pt)> {
            uni_points::<$F>(seed)
        }
        fn plus_one(p: &Self::P) -> Self::P {
            p + &UP::<$F>::from_coefficients_vec(vec![<$F>::one()])
        }
        fn lincomb(a: $F, p: &Self::P, b: $F, q: &Self::P) -> Self::P {
            let mut r = UP::<$F>::zero();
            r += (a, p);
            r += (b, q);
            r
        }
    };
}

macro_rules! ml_common {
    ($F:ty) => {
        fn shapes(cfg: &KeyCfg, seed: u64) -> Vec<(String, Self::P)> {
            ml_shapes::<$F>(cfg.nv.unwrap(), seed)
        }
        fn points(cfg: &KeyCfg, seed: u64) -> Vec<(String, Self::Pt)> {
            ml_points::<$F>(cfg.nv.unwrap(), seed)
        }
        fn plus_one(p: &Self::P) -> Self::P {
            let ev: Vec<$F> = p.evaluations.iter().map(|e| *e + <$F>::one()).collect();
            MLE::<$F>::from_evaluations_vec(p.num_vars, ev)
        }
        fn lincomb(a: $F, p: &Self::P, b: $F, q: &Self::P) -> Self::P {
            let ev: Vec<$F> =
                p.evaluations.iter().zip(q.evaluations.iter()).map(|(x, y)| a * x + b * y).collect();
            MLE::<$F>::from_evaluations_vec(p.num_vars, ev)
        }
        fn degree(_p: &Self::P) -> usize {
            1
        }
        fn swap_vars(p: &Self::P) -> Option<Self::P> {
            if p.num_vars < 2 {
                return None;
            }
            let ev: Vec<$F> = (0..p.evaluations.len())
                .map(|i| {
                    let (b0, b1) = (i & 1, (i >> 1) & 1);
                    p.evaluations[(i & !3) | (b0 << 1) | b1]
                })
                .collect();
            Some(MLE::<$F>::from_evaluations_vec(p.num_vars, ev))
        }
    };
}

pub struct SMar;
impl Sch for SMar {
    type F = Fr381;
    type Pt = Fr381;
    type P = UP<Fr381>;
    type PC = Mar;
    const NAME: &'static str = "MAR";
    const FAM: Fam = Fam::Uni;
    const BOUNDS: bool = true;
    const HIDING: bool = true;
    const NEEDS_RNG: bool = false;
    const DEFAULT_BATCH: bool = false;
    uni_common!(Fr381);
}

pub struct SSon;
impl Sch for SSon {
    type F = Fr381;
    type Pt = Fr381;
    type P = UP<Fr381>;
    type PC = Son;
    const NAME: &'static str = "SON";
    const FAM: Fam = Fam::Uni;
    const BOUNDS: bool = true;
    const HIDING: bool = true;
    const NEEDS_RNG: bool = false;
    const DEFAULT_BATCH: bool = false;
    uni_common!(Fr381);
}

pub struct SMar377;
impl Sch for SMar377 {
    type F = Fr377;
    type Pt = Fr377;
    type P = UP<Fr377>;
    type PC = Mar377;
    const NAME: &'static str = "MAR377";
    const FAM: Fam = Fam::Uni;
    const BOUNDS: bool = true;
    const HIDING: bool = true;
    const NEEDS_RNG: bool = false;
    const DEFAULT_BATCH: bool = false;
    uni_common!(Fr377);
}

pub struct SSon377;
impl Sch for SSon377 {
    type F = Fr377;
    type Pt = Fr377;
    type P = UP<Fr377>;
    type PC = Son377;
    const NAME: &'static str = "SON377";
    const FAM: Fam = Fam::Uni;
    const BOUNDS: bool = true;
    const HIDING: bool = true;
    const NEEDS_RNG: bool = false;
    const DEFAULT_BATCH: bool = false;
    uni_common!(Fr377);
}

pub struct SIpa;
impl Sch for SIpa {
    type F = FrJ;
    type Pt = FrJ;
    type P = UP<FrJ>;
    type PC = Ipa;
    const NAME: &'static str = "IPA";
    const FAM: Fam = Fam::Uni;
    const BOUNDS: bool = true;
    const HIDING: bool = true;
    const NEEDS_RNG: bool = false;
    const DEFAULT_BATCH: bool = false;
    fn shapes(cfg: &KeyCfg, seed: u64) -> Vec<(String, Self::P)> {
        // IPA rounds the supported degree up to 2^k - 1
        let s = (cfg.sup + 1).next_power_of_two() - 1;
        uni_shapes::<FrJ>(s, seed)
    }
    fn points(_cfg: &KeyCfg, seed: u64) -> Vec<(String, Self::Pt)> {
        uni_points::<FrJ>(seed)
    }
    fn plus_one(p: &Self::P) -> Self::P {
        p + &UP::<FrJ>::from_coefficients_vec(vec![FrJ::one()])
    }
    fn lincomb(a: FrJ, p: &Self::P, b: FrJ, q: &Self::P) -> Self::P {
        let mut r = UP::<FrJ>::zero();
        r += (a, p);
        r += (b, q);
        r
    }
}

pub struct SLig;
impl Sch for SLig {
    type F = Fr381;
    type Pt = Fr381;
    type P = UP<Fr381>;
    type PC = Lig;
    const NAME: &'static str = "LIG";
    const FAM: Fam = Fam::Uni;
    const BOUNDS: bool = false;
    const HIDING: bool = false;
    const NEEDS_RNG: bool = false;
    const DEFAULT_BATCH: bool = true;
    fn setup(cfg: &KeyCfg, seed: u64) -> Result<PP<Self>, Out> {
        match cfg.lc {
            None => {
                let mut rng = seed_rng(seed, 10 + cfg.srng);
                flat(catch(|| Self::PC::setup(cfg.max, cfg.nv, &mut rng)))
            }
            Some((l, r, w)) => Ok(LigeroPCParams::new(l, r, w, (), (), ())),
        }
    }
    fn shapes(cfg: &KeyCfg, seed: u64) -> Vec<(String, Self::P)> {
        uni_shapes::<Fr381>(cfg.sup.min(8), seed)
    }
    /// Degree ladder: every degree up to a bound plus 2^k-1, 2^k, 2^k+1.
    fn shapes_c(_cfg: &KeyCfg, seed: u64, thorough: bool) -> Vec<(String, Self::P)> {
        let top = if thorough { 200 } else { 40 };
        let mut degs: Vec<usize> = (0..=top).collect();
        let kmax = if thorough { 12 } else { 8 };
        for k in 6..=kmax {
            for d in [(1usize << k) - 1, 1 << k, (1 << k) + 1] {
                if !degs.contains(&d) {
                    degs.push(d);
                }
            }
        }
        let r = rho_stream::<Fr381>(seed, 9, degs.iter().max().unwrap() + 1);
        let mut out: Vec<(String, Self::P)> = vec![("zero".into(), UP::<Fr381>::from_coefficients_vec(vec![]))];
        for d in degs {
            out.push((format!("dense({})", d), UP::<Fr381>::from_coefficients_vec(r[..=d].to_vec())));
        }
        out
    }
    fn points(_cfg: &KeyCfg, seed: u64) -> Vec<(String, Self::Pt)> {
        uni_points::<Fr381>(seed)
    }
    fn plus_one(p: &Self::P) -> Self::P {
        p + &UP::<Fr381>::from_coefficients_vec(vec![Fr381::one()])
    }
    fn lincomb(a: Fr381, p: &Self::P, b: Fr381, q: &Self::P) -> Self::P {
        let mut r = UP::<Fr381>::zero();
        r += (a, p);
        r += (b, q);
        r
    }
}

pub struct SMll;
impl Sch for SMll {
    type F = Fr381;
    type Pt = Vec<Fr381>;
    type P = MLE<Fr381>;
    type PC = Mll;
    const NAME: &'static str = "MLL";
    const FAM: Fam = Fam::Ml;
    const BOUNDS: bool = false;
    const HIDING: bool = false;
    const NEEDS_RNG: bool = false;
    const DEFAULT_BATCH: bool = true;
    fn setup(cfg: &KeyCfg, seed: u64) -> Result<PP<Self>, Out> {
        match cfg.lc {
            None => {
                let mut rng = seed_rng(seed, 10 + cfg.srng);
                flat(catch(|| Self::PC::setup(cfg.max, cfg.nv, &mut rng)))
            }
            Some((l, r, w)) => Ok(LigeroPCParams::new(l, r, w, (), (), ())),
        }
    }
    ml_common!(Fr381);
}

pub struct SBrk;
impl Sch for SBrk {
    type F = Fr381;
    type Pt = Vec<Fr381>;
    type P = MLE<Fr381>;
    type PC = Brk;
    const NAME: &'static str = "BRK";
    const FAM: Fam = Fam::Ml;
    const BOUNDS: bool = false;
    const HIDING: bool = false;
    const NEEDS_RNG: bool = false;
    const DEFAULT_BATCH: bool = true;
    fn setup(cfg: &KeyCfg, seed: u64) -> Result<PP<Self>, Out> {
        let mut rng = seed_rng(seed, 10 + cfg.srng);
        match cfg.lc {
            None => flat(catch(|| Self::PC::setup(cfg.max, cfg.nv, &mut rng))),
            Some((_, _, w)) => catch(|| {
                BrakedownPCParams::default(&mut rng, 1 << cfg.nv.unwrap(), w, (), (), ())
            })
            .map_err(Out::Panic),
        }
    }
    ml_common!(Fr381);
}

pub struct SHyr;
impl Sch for SHyr {
    type F = FrJ;
    type Pt = Vec<FrJ>;
    type P = MLE<FrJ>;
    type PC = Hyr;
    const NAME: &'static str = "HYR";
    const FAM: Fam = Fam::Ml;
    const BOUNDS: bool = false;
    const HIDING: bool = false;
    const NEEDS_RNG: bool = true;
    const DEFAULT_BATCH: bool = true;
    ml_common!(FrJ);
}

pub struct SPst;
impl Sch for SPst {
    type F = Fr381;
    type Pt = Vec<Fr381>;
    type P = MVP<Fr381>;
    type PC = Pst;
    const NAME: &'static str = "PST";
    const FAM: Fam = Fam::Mv;
    const BOUNDS: bool = false;
    const HIDING: bool = true;
    const NEEDS_RNG: bool = false;
    const DEFAULT_BATCH: bool = false;
    fn shapes(cfg: &KeyCfg, seed: u64) -> Vec<(String, Self::P)> {
        mv_shapes::<Fr381>(cfg.nv.unwrap(), cfg.sup, seed)
    }
    fn points(cfg: &KeyCfg, seed: u64) -> Vec<(String, Self::Pt)> {
        ml_points::<Fr381>(cfg.nv.unwrap(), seed)
    }
    fn plus_one(p: &Self::P) -> Self::P {
        let one = MVP::<Fr381>::from_coefficients_vec(p.num_vars, vec![(Fr381::one(), SparseTerm::new(vec![]))]);
        p + &one
    }
    fn lincomb(a: Fr381, p: &Self::P, b: Fr381, q: &Self::P) -> Self::P {
        let mut r = MVP::<Fr381>::zero();
        r.num_vars = p.num_vars;
        r += (a, p);
        r += (b, q);
        r
    }
    fn swap_vars(p: &Self::P) -> Option<Self::P> {
        if p.num_vars < 2 {
            return None;
        }
        let terms: Vec<(Fr381, SparseTerm)> = p
            .terms()
            .iter()
            .map(|(c, t)| {
                let vars: Vec<(usize, usize)> = t.vars().iter().zip(t.powers().iter()).map(|(v, e)| (if *v == 0 { 1 } else if *v == 1 { 0 } else { *v }, *e)).collect();
                (*c, SparseTerm::new(vars))
            })
            .collect();
        Some(MVP::<Fr381>::from_coefficients_vec(p.num_vars, terms))
    }
}

/// Run `$body` once per trait scheme, with `$S` bound to the adapter type.
#[macro_export]
macro_rules! for_each_scheme {
    ($S:ident, $body:block) => {{
        { type $S = $crate::sch::SMar; $body }
        { type $S = $crate::sch::SSon; $body }
        { type $S = $crate::sch::SIpa; $body }
        { type $S = $crate::sch::SPst; $body }
        { type $S = $crate::sch::SHyr; $body }
        { type $S = $crate::sch::SLig; $body }
        { type $S = $crate::sch::SMll; $body }
        { type $S = $crate::sch::SBrk; $body }
    }};
}
