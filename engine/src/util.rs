//! Small helpers: panic capture, decisions, hashing, JSON escaping, serialization shortcuts.
use ark_serialize::{CanonicalSerialize, Compress};
use std::panic::{catch_unwind, AssertUnwindSafe};

/// Run `f`, turning an unwinding panic into `Err(message)`.
pub fn catch<T>(f: impl FnOnce() -> T) -> Result<T, String> {
    match catch_unwind(AssertUnwindSafe(f)) {
        Ok(v) => Ok(v),
        Err(e) => {
            let msg = if let Some(s) = e.downcast_ref::<&str>() {
                s.to_string()
            } else if let Some(s) = e.downcast_ref::<String>() {
                s.clone()
            } else {
                "<non-string panic>".to_string()
            };
            Err(msg)
        }
    }
}

pub fn silence_panics() {
    // library panics are decisions (recorded by `catch`); only the engine's own MACHINERY panics are printed
    std::panic::set_hook(Box::new(|info| {
        let msg = info.payload().downcast_ref::<String>().cloned().or_else(|| info.payload().downcast_ref::<&str>().map(|s| s.to_string())).unwrap_or_default();
        if msg.starts_with("MACHINERY") || std::env::var("VERIF_PANICS").is_ok() {
            eprintln!("{} ({})", msg, info.location().map(|l| l.to_string()).unwrap_or_default());
        }
    }));
}

/// A verifier decision. `Rej`, `Err`, `Panic` are all "not accepted".
#[derive(Clone, Debug, PartialEq, Eq)]
pub enum Dec {
    Acc,
    Rej,
    Err(String),
    Panic(String),
}

impl Dec {
    pub fn accepted(&self) -> bool {
        matches!(self, Dec::Acc)
    }
    pub fn refused(&self) -> bool {
        matches!(self, Dec::Err(_) | Dec::Panic(_))
    }
    pub fn class(&self) -> &'static str {
        match self {
            Dec::Acc => "accept",
            Dec::Rej => "reject",
            Dec::Err(_) => "err",
            Dec::Panic(_) => "panic",
        }
    }
    pub fn short(&self) -> String {
        match self {
            Dec::Acc => "Ok(true)".into(),
            Dec::Rej => "Ok(false)".into(),
            Dec::Err(e) => format!("Err({})", trunc(e, 80)),
            Dec::Panic(e) => format!("panic({})", trunc(e, 80)),
        }
    }
}

pub fn trunc(s: &str, n: usize) -> String {
    let s: String = s.chars().filter(|c| *c != '\n').collect();
    if s.chars().count() > n {
        let t: String = s.chars().take(n).collect();
        format!("{}…", t)
    } else {
        s
    }
}

/// Collapse a caught `Result<bool, E>` into a decision.
pub fn dec<E: core::fmt::Debug>(r: Result<Result<bool, E>, String>) -> Dec {
    match r {
        Ok(Ok(true)) => Dec::Acc,
        Ok(Ok(false)) => Dec::Rej,
        Ok(Err(e)) => Dec::Err(format!("{:?}", e)),
        Err(p) => Dec::Panic(p),
    }
}

/// Outcome of a producing operation (commit/open/trim/...).
#[derive(Clone, Debug, PartialEq, Eq)]
pub enum Out {
    Ok,
    Err(String),
    Panic(String),
}
impl Out {
    pub fn is_ok(&self) -> bool {
        matches!(self, Out::Ok)
    }
    pub fn short(&self) -> String {
        match self {
            Out::Ok => "Ok".into(),
            Out::Err(e) => format!("Err({})", trunc(e, 80)),
            Out::Panic(e) => format!("panic({})", trunc(e, 80)),
        }
    }
}

pub fn flat<T, E: core::fmt::Debug>(r: Result<Result<T, E>, String>) -> Result<T, Out> {
    match r {
        Ok(Ok(v)) => Ok(v),
        Ok(Err(e)) => Err(Out::Err(format!("{:?}", e))),
        Err(p) => Err(Out::Panic(p)),
    }
}

pub fn fnv64(data: &[u8]) -> u64 {
    let mut h: u64 = 0xcbf29ce484222325;
    for b in data {
        h ^= *b as u64;
        h = h.wrapping_mul(0x100000001b3);
    }
    h
}

pub fn hash_str(s: &str) -> u64 {
    fnv64(s.as_bytes())
}

pub fn ser<T: CanonicalSerialize>(x: &T) -> Vec<u8> {
    let mut v = Vec::new();
    x.serialize_with_mode(&mut v, Compress::Yes).expect("serialize");
    v
}
pub fn ser_u<T: CanonicalSerialize>(x: &T) -> Vec<u8> {
    let mut v = Vec::new();
    x.serialize_with_mode(&mut v, Compress::No).expect("serialize");
    v
}

pub fn hex(b: &[u8]) -> String {
    let mut s = String::with_capacity(b.len() * 2);
    for x in b {
        s.push_str(&format!("{:02x}", x));
    }
    s
}

pub fn jesc(s: &str) -> String {
    let mut o = String::with_capacity(s.len() + 2);
    for c in s.chars() {
        match c {
            '"' => o.push_str("\\\""),
            '\\' => o.push_str("\\\\"),
            '\n' => o.push_str("\\n"),
            '\r' => o.push_str("\\r"),
            '\t' => o.push_str("\\t"),
            c if (c as u32) < 0x20 => o.push_str(&format!("\\u{:04x}", c as u32)),
            c => o.push(c),
        }
    }
    o
}

/// All permutations of 0..n (n small).
pub fn permutations(n: usize) -> Vec<Vec<usize>> {
    fn rec(cur: &mut Vec<usize>, used: &mut Vec<bool>, n: usize, out: &mut Vec<Vec<usize>>) {
        if cur.len() == n {
            out.push(cur.clone());
            return;
        }
        for i in 0..n {
            if !used[i] {
                used[i] = true;
                cur.push(i);
                rec(cur, used, n, out);
                cur.pop();
                used[i] = false;
            }
        }
    }
    let mut out = Vec::new();
    rec(&mut Vec::new(), &mut vec![false; n], n, &mut out);
    out
}

/// Run `f` inside a private rayon pool of `t` worker threads (so that `rayon::current_num_threads()` is `t` for the
/// library code it calls).  Without the `parallel` feature `f` just runs.  The pool's scheduling is the OS's, but a
/// deterministic library gives the same answer under every schedule; what this makes visible is behaviour that
/// depends on the NUMBER of threads.
pub fn with_threads<R: Send>(t: usize, f: impl FnOnce() -> R + Send) -> R {
    #[cfg(all(feature = "parallel", not(feature = "sim")))]
    {
        let pool = rayon::ThreadPoolBuilder::new().num_threads(t).build().expect("MACHINERY: rayon pool");
        pool.install(f)
    }
    #[cfg(not(all(feature = "parallel", not(feature = "sim"))))]
    {
        let _ = t;
        f()
    }
}
