//! Alphabets: field elements, RNG seeds, counting RNG. Everything derives from VERIF_SEED.
use ark_ff::PrimeField;
use rand_chacha::ChaCha20Rng;
use rand_core::{RngCore, SeedableRng};

fn seed_bytes(seed: u64, stream: u64) -> [u8; 32] {
    let mut s = [0u8; 32];
    s[..8].copy_from_slice(&seed.to_le_bytes());
    s[8..16].copy_from_slice(&stream.to_le_bytes());
    s[16..24].copy_from_slice(b"pcmc-alp");
    s
}

/// Deterministic ChaCha20 stream number `stream` under VERIF_SEED `seed`.
pub fn chacha(seed: u64, stream: u64) -> ChaCha20Rng {
    ChaCha20Rng::from_seed(seed_bytes(seed, stream))
}

/// The i-th "generic" field element (i >= 1) of the alphabet.
pub fn rho<F: PrimeField>(seed: u64, i: usize) -> F {
    let mut r = chacha(seed, 0x5000 + i as u64);
    F::rand(&mut r)
}

/// A deterministic stream of generic elements for polynomial coefficients.
pub fn rho_stream<F: PrimeField>(seed: u64, stream: u64, n: usize) -> Vec<F> {
    let mut r = chacha(seed, 0x7000 + stream);
    (0..n).map(|_| F::rand(&mut r)).collect()
}

/// A_F = {0, 1, -1, 2, rho1, rho2, rho3}
pub fn field_alphabet<F: PrimeField>(seed: u64) -> Vec<(&'static str, F)> {
    vec![
        ("0", F::zero()),
        ("1", F::one()),
        ("-1", -F::one()),
        ("2", F::from(2u64)),
        ("r1", rho(seed, 1)),
        ("r2", rho(seed, 2)),
        ("r3", rho(seed, 3)),
    ]
}

/// RNG seed alphabet A_S = {s0, s1, s2}: streams 0x100 + k.
pub fn seed_rng(seed: u64, k: usize) -> CountRng {
    CountRng::new(chacha(seed, 0x100 + k as u64))
}

/// RNG wrapper that counts the bytes drawn.
pub struct CountRng {
    inner: ChaCha20Rng,
    pub bytes: u64,
}
impl CountRng {
    pub fn new(inner: ChaCha20Rng) -> Self {
        CountRng { inner, bytes: 0 }
    }
}
impl RngCore for CountRng {
    fn next_u32(&mut self) -> u32 {
        self.bytes += 4;
        self.inner.next_u32()
    }
    fn next_u64(&mut self) -> u64 {
        self.bytes += 8;
        self.inner.next_u64()
    }
    fn fill_bytes(&mut self, dest: &mut [u8]) {
        self.bytes += dest.len() as u64;
        self.inner.fill_bytes(dest)
    }
    fn try_fill_bytes(&mut self, dest: &mut [u8]) -> Result<(), rand_core::Error> {
        self.bytes += dest.len() as u64;
        self.inner.try_fill_bytes(dest)
    }
}
