//! Reference model: naive group arithmetic and the textbook verification relations (DESIGN 3.4/3.5),
//! written without calling the code under test (only ark-* algebra, the sponge, CRH and Merkle path).
use crate::mirror::*;
use crate::schemes::*;
use ark_crypto_primitives::crh::CRHScheme;
use ark_crypto_primitives::sponge::{Absorb, CryptographicSponge, FieldElementSize};
use ark_ec::pairing::Pairing;
use ark_ec::{AffineRepr, CurveGroup};
use ark_ff::{BigInteger, Field, One, PrimeField, Zero};
use ark_poly::{EvaluationDomain, GeneralEvaluationDomain};
use ark_poly_commit::{hyrax, ipa_pc, kzg10, marlin_pc, marlin_pst13_pc, sonic_pc, LabeledCommitment};
use ark_serialize::CanonicalSerialize;
use blake2::Blake2s256;
use digest::Digest;
use num_bigint::BigUint;

/// Plain double-and-add (never `VariableBaseMSM`).
pub fn naive_mul<G: AffineRepr>(g: &G, s: &G::ScalarField) -> G::Group {
    let bits = s.into_bigint().to_bits_be();
    let mut acc = G::Group::zero();
    for b in bits {
        acc = acc + acc;
        if b {
            acc = acc + g.into_group();
        }
    }
    acc
}

pub fn naive_msm<G: AffineRepr>(bases: &[G], scalars: &[G::ScalarField]) -> G::Group {
    assert_eq!(bases.len(), scalars.len(), "naive_msm: length mismatch");
    let mut acc = G::Group::zero();
    for (b, s) in bases.iter().zip(scalars.iter()) {
        if !s.is_zero() {
            acc += naive_mul(b, s);
        }
    }
    acc
}

pub fn inner<F: Field>(a: &[F], b: &[F]) -> F {
    a.iter().zip(b.iter()).map(|(x, y)| *x * y).sum()
}

pub fn horner<F: Field>(coeffs: &[F], z: F) -> F {
    let mut acc = F::zero();
    for c in coeffs.iter().rev() {
        acc = acc * z + c;
    }
    acc
}

/// 128-bit truncated challenge, as the protocols specify.
pub fn challenge<F: PrimeField, S: CryptographicSponge>(sponge: &mut S) -> F {
    sponge.squeeze_field_elements_with_sizes::<F>(&[FieldElementSize::Truncated(128)])[0]
}

// ---------------------------------------------------------------------------------------------
// KZG family
// ---------------------------------------------------------------------------------------------

/// e(C - vG - r*gammaG, H) == e(W, betaH - zH)
pub fn kzg_relation<E: Pairing>(
    g: E::G1Affine,
    gamma_g: E::G1Affine,
    h: E::G2Affine,
    beta_h: E::G2Affine,
    c: E::G1,
    z: E::ScalarField,
    v: E::ScalarField,
    pf: &kzg10::Proof<E>,
) -> bool {
    let mut inner = c - naive_mul(&g, &v);
    if let Some(r) = pf.random_v {
        inner -= naive_mul(&gamma_g, &r);
    }
    let rhs_g2 = beta_h.into_group() - naive_mul(&h, &z);
    E::pairing(inner, h) == E::pairing(pf.w, rhs_g2)
}

pub fn ref_mar_check<E: Pairing, S: CryptographicSponge>(
    vk: &marlin_pc::VerifierKey<E>,
    comms: &[&LabeledCommitment<marlin_pc::Commitment<E>>],
    z: E::ScalarField,
    values: &[E::ScalarField],
    pf: &kzg10::Proof<E>,
    sponge: &mut S,
) -> bool {
    let mut c_star = E::G1::zero();
    let mut v_star = E::ScalarField::zero();
    for (lc, v) in comms.iter().zip(values.iter()) {
        let cm = lc.commitment();
        if lc.degree_bound().is_some() != cm.shifted_comm.is_some() {
            return false;
        }
        let xi: E::ScalarField = challenge(sponge);
        c_star += naive_mul(&cm.comm.0, &xi);
        v_star += xi * v;
        if let Some(d) = lc.degree_bound() {
            let xi2: E::ScalarField = challenge(sponge);
            let shift = match vk.degree_bounds_and_shift_powers.as_ref().and_then(|l| l.iter().find(|(b, _)| *b == d)) {
                Some((_, s)) => *s,
                None => return false,
            };
            let adj = cm.shifted_comm.unwrap().0.into_group() - naive_mul(&shift, v);
            c_star += naive_mul(&adj.into_affine(), &xi2);
        }
    }
    kzg_relation::<E>(vk.vk.g, vk.vk.gamma_g, vk.vk.h, vk.vk.beta_h, c_star, z, v_star, pf)
}

pub fn ref_son_check<E: Pairing, S: CryptographicSponge>(
    vk: &sonic_pc::VerifierKey<E>,
    comms: &[&LabeledCommitment<sonic_pc::Commitment<E>>],
    z: E::ScalarField,
    values: &[E::ScalarField],
    pf: &kzg10::Proof<E>,
    sponge: &mut S,
) -> bool {
    let mut xi: E::ScalarField = challenge(sponge);
    let mut v_star = E::ScalarField::zero();
    let mut by_bound: Vec<(Option<usize>, E::G1)> = Vec::new();
    for (lc, v) in comms.iter().zip(values.iter()) {
        v_star += xi * v;
        let term = naive_mul(&lc.commitment().0, &xi);
        match by_bound.iter_mut().find(|(b, _)| *b == lc.degree_bound()) {
            Some((_, acc)) => *acc += term,
            None => by_bound.push((lc.degree_bound(), term)),
        }
        xi = challenge(sponge);
    }
    let mut lhs = <E as Pairing>::TargetField::one();
    for (b, acc) in by_bound {
        let h2 = match b {
            None => vk.h,
            Some(d) => match vk.degree_bounds_and_neg_powers_of_h.as_ref().and_then(|l| l.iter().find(|(x, _)| *x == d)) {
                Some((_, h)) => *h,
                None => return false,
            },
        };
        lhs *= E::pairing(acc, h2).0;
    }
    let mut adj = naive_mul(&vk.g, &v_star) - naive_mul(&pf.w, &z);
    if let Some(r) = pf.random_v {
        adj += naive_mul(&vk.gamma_g, &r);
    }
    let rhs = E::pairing(adj, vk.h).0 * E::pairing(pf.w, vk.beta_h).0;
    lhs == rhs
}

pub fn ref_pst_check<E: Pairing, S: CryptographicSponge>(
    vk: &marlin_pst13_pc::VerifierKey<E>,
    comms: &[&LabeledCommitment<marlin_pc::Commitment<E>>],
    z: &[E::ScalarField],
    values: &[E::ScalarField],
    pf: &marlin_pst13_pc::Proof<E>,
    sponge: &mut S,
) -> bool {
    if pf.w.len() != vk.num_vars || z.len() != vk.num_vars || vk.beta_h.len() != vk.num_vars {
        return false;
    }
    let mut c_star = E::G1::zero();
    let mut v_star = E::ScalarField::zero();
    for (lc, v) in comms.iter().zip(values.iter()) {
        let cm = lc.commitment();
        if lc.degree_bound().is_some() != cm.shifted_comm.is_some() {
            return false;
        }
        if lc.degree_bound().is_some() {
            // PST has no degree bounds: the library needs a verifier key for the shift power and has none
            return false;
        }
        let xi: E::ScalarField = challenge(sponge);
        c_star += naive_mul(&cm.comm.0, &xi);
        v_star += xi * v;
    }
    let mut inner = c_star - naive_mul(&vk.g, &v_star);
    if let Some(r) = pf.random_v {
        inner -= naive_mul(&vk.gamma_g, &r);
    }
    let lhs = E::pairing(inner, vk.h).0;
    let mut rhs = <E as Pairing>::TargetField::one();
    for j in 0..vk.num_vars {
        let g2 = vk.beta_h[j].into_group() - naive_mul(&vk.h, &z[j]);
        rhs *= E::pairing(pf.w[j], g2).0;
    }
    lhs == rhs
}

// ---------------------------------------------------------------------------------------------
// IPA
// ---------------------------------------------------------------------------------------------

pub fn ro_challenge<F: PrimeField>(bytes: &[u8]) -> F {
    let mut i = 0u64;
    loop {
        let mut inp = bytes.to_vec();
        inp.extend_from_slice(&i.to_le_bytes());
        let h = Blake2s256::digest(&inp);
        if let Some(c) = F::from_random_bytes(&h) {
            return c;
        }
        i += 1;
    }
}

pub fn ser_unc<T: CanonicalSerialize>(x: &T, out: &mut Vec<u8>) {
    x.serialize_uncompressed(out).unwrap();
}

/// Coefficients of h(X) = prod_{j=1..k} (1 + u_j X^{2^{k-j}}), expanded naively.
pub fn check_poly_coeffs<F: Field>(u: &[F]) -> Vec<F> {
    let k = u.len();
    let mut coeffs = vec![F::one()];
    for (j, uj) in u.iter().enumerate() {
        let shift = 1usize << (k - (j + 1));
        let mut next = vec![F::zero(); coeffs.len() + shift];
        for (i, c) in coeffs.iter().enumerate() {
            next[i] += *c;
            next[i + shift] += *c * uj;
        }
        coeffs = next;
    }
    coeffs.resize(1 << k, F::zero());
    coeffs
}

pub fn ref_ipa_check<S: CryptographicSponge>(
    vk: &ipa_pc::VerifierKey<GJ>,
    comms: &[&LabeledCommitment<ipa_pc::Commitment<GJ>>],
    z: FrJ,
    values: &[FrJ],
    pf: &ipa_pc::Proof<GJ>,
    sponge: &mut S,
) -> bool {
    type G = <GJ as AffineRepr>::Group;
    let n = vk.comm_key.len();
    if n == 0 || !n.is_power_of_two() {
        return false;
    }
    let d = n - 1;
    let log_d = n.trailing_zeros() as usize;
    if pf.l_vec.len() != log_d || pf.r_vec.len() != log_d {
        return false;
    }
    let mut xi: FrJ = challenge(sponge);
    let mut c = G::zero();
    let mut v = FrJ::zero();
    for (lc, val) in comms.iter().zip(values.iter()) {
        let cm = lc.commitment();
        v += xi * val;
        c += naive_mul(&cm.comm, &xi);
        xi = challenge(sponge);
        if lc.degree_bound().is_some() != cm.shifted_comm.is_some() {
            return false;
        }
        if let Some(b) = lc.degree_bound() {
            if b > d {
                return false;
            }
            let shift = z.pow([(d - b) as u64]);
            v += xi * val * shift;
            c += naive_mul(&cm.shifted_comm.unwrap(), &xi);
        }
        xi = challenge(sponge);
    }
    if pf.hiding_comm.is_some() != pf.rand.is_some() {
        return false;
    }
    if let (Some(hc), Some(r)) = (pf.hiding_comm, pf.rand) {
        let mut bytes = Vec::new();
        ser_unc(&c.into_affine(), &mut bytes);
        ser_unc(&z, &mut bytes);
        ser_unc(&v, &mut bytes);
        ser_unc(&hc, &mut bytes);
        let ch: FrJ = ro_challenge(&bytes);
        c += naive_mul(&hc, &ch) - naive_mul(&vk.s, &r);
    }
    let mut bytes = Vec::new();
    ser_unc(&c.into_affine(), &mut bytes);
    ser_unc(&z, &mut bytes);
    ser_unc(&v, &mut bytes);
    let mut rc: FrJ = ro_challenge(&bytes);
    let h_prime = naive_mul(&vk.h, &rc).into_affine();
    let mut round = c + naive_mul(&h_prime, &v);
    let mut us = Vec::new();
    for (l, r) in pf.l_vec.iter().zip(pf.r_vec.iter()) {
        let mut bytes = Vec::new();
        ser_unc(&rc, &mut bytes);
        ser_unc(l, &mut bytes);
        ser_unc(r, &mut bytes);
        rc = ro_challenge(&bytes);
        let inv = match rc.inverse() {
            Some(i) => i,
            None => return false,
        };
        us.push(rc);
        round += naive_mul(l, &inv) + naive_mul(r, &rc);
    }
    let hc = check_poly_coeffs(&us);
    let hz = horner(&hc, z);
    let expect = naive_mul(&pf.final_comm_key, &pf.c) + naive_mul(&h_prime, &(pf.c * hz));
    if round != expect {
        return false;
    }
    naive_msm(&vk.comm_key, &hc) == pf.final_comm_key.into_group()
}

// ---------------------------------------------------------------------------------------------
// Hyrax
// ---------------------------------------------------------------------------------------------

/// eq-tensor with the first value on the most significant index bit.
pub fn tensor_msb<F: Field>(values: &[F]) -> Vec<F> {
    let k = values.len();
    (0..(1usize << k))
        .map(|idx| {
            let mut p = F::one();
            for (j, v) in values.iter().enumerate() {
                let bit = (idx >> (k - 1 - j)) & 1;
                p *= if bit == 1 { *v } else { F::one() - v };
            }
            p
        })
        .collect()
}

/// eq-tensor with the first value on the least significant index bit.
pub fn tensor_lsb<F: Field>(values: &[F]) -> Vec<F> {
    let k = values.len();
    (0..(1usize << k))
        .map(|idx| {
            let mut p = F::one();
            for (j, v) in values.iter().enumerate() {
                let bit = (idx >> j) & 1;
                p *= if bit == 1 { *v } else { F::one() - v };
            }
            p
        })
        .collect()
}

pub fn ref_hyrax_check<S: CryptographicSponge>(
    vk: &hyrax::HyraxVerifierKey<GJ>,
    comms: &[&LabeledCommitment<hyrax::HyraxCommitment<GJ>>],
    point: &[FrJ],
    values: &[FrJ],
    pf: &[hyrax::HyraxProof<GJ>],
    sponge: &mut S,
) -> bool {
    let n = point.len();
    if n % 2 == 1 || comms.len() != pf.len() || comms.len() != values.len() {
        return false;
    }
    let dim = 1usize << (n / 2);
    if vk.com_key.len() < dim || vk.com_key.is_empty() {
        return false;
    }
    let rev: Vec<FrJ> = point.iter().rev().cloned().collect();
    let l = tensor_msb(&rev[n / 2..]);
    let r = tensor_msb(&rev[..n / 2]);
    for ((lc, value), p) in comms.iter().zip(values.iter()).zip(pf.iter()) {
        let rows = &lc.commitment().row_coms;
        if rows.len() != dim || p.z.len() != dim || vk.com_key.len() != dim {
            return false;
        }
        let mut b = Vec::new();
        ser_unc(vk, &mut b);
        sponge.absorb(&b);
        let mut b = Vec::new();
        ser_unc(rows, &mut b);
        sponge.absorb(&b);
        sponge.absorb(&point.to_vec());
        for g in [&p.com_eval, &p.com_d, &p.com_b] {
            let mut b = Vec::new();
            ser_unc(g, &mut b);
            sponge.absorb(&b);
        }
        let c: FrJ = sponge.squeeze_field_elements(1)[0];
        // the evaluation is revealed: com_eval opens to the claimed value
        if naive_mul(&vk.com_key[0], value) + naive_mul(&vk.h, &p.r_eval) != p.com_eval.into_group() {
            return false;
        }
        // eq. (14)
        if naive_mul(&vk.com_key[0], &inner(&r, &p.z)) + naive_mul(&vk.h, &p.z_b) != naive_mul(&p.com_eval, &c) + p.com_b.into_group() {
            return false;
        }
        // eq. (13)
        let t_prime = naive_msm(rows, &l);
        if naive_msm(&vk.com_key, &p.z) + naive_mul(&vk.h, &p.z_d) != naive_mul(&t_prime.into_affine(), &c) + p.com_d.into_group() {
            return false;
        }
    }
    true
}

// ---------------------------------------------------------------------------------------------
// Linear codes
// ---------------------------------------------------------------------------------------------

/// Exact minimal t with 2*(1-d/2)^t + n/|F| <= 2^-lambda, capped at n; None = infeasible.
/// With 1 - d/2 = a/b this is 2^(lambda+1) a^t q + n 2^lambda b^t <= b^t q.
pub fn ref_t(modulus: &BigUint, lambda: usize, dist: (usize, usize), n: usize) -> Option<usize> {
    let (d0, d1) = dist;
    if d1 == 0 || d0 == 0 || d0 > 2 * d1 {
        return None;
    }
    let a = BigUint::from(2 * d1 - d0);
    let b = BigUint::from(2 * d1);
    let q = modulus.clone();
    let two_l = BigUint::one() << lambda;
    let nn = BigUint::from(n);
    // infeasible iff n * 2^lambda >= q (the first term is positive for every t unless a == 0)
    if &nn * &two_l >= q {
        return None;
    }
    let holds = |t: usize| -> bool {
        let at = num_pow(&a, t);
        let bt = num_pow(&b, t);
        (&two_l << 1) * &at * &q + &nn * &two_l * &bt <= &bt * &q
    };
    // exponential + binary search for the smallest t that holds
    if holds(0) {
        return Some(0usize.min(n));
    }
    let mut hi = 1usize;
    while !holds(hi) {
        hi *= 2;
        if hi > (1 << 22) {
            return None;
        }
    }
    let mut lo = hi / 2; // !holds(lo)
    while hi - lo > 1 {
        let mid = (lo + hi) / 2;
        if holds(mid) {
            hi = mid;
        } else {
            lo = mid;
        }
    }
    Some(hi.min(n))
}

fn num_pow(b: &BigUint, e: usize) -> BigUint {
    let mut acc = BigUint::one();
    let mut base = b.clone();
    let mut e = e;
    while e > 0 {
        if e & 1 == 1 {
            acc *= &base;
        }
        base = &base * &base;
        e >>= 1;
    }
    acc
}

pub fn modulus_of<F: PrimeField>() -> BigUint {
    BigUint::from_bytes_le(&F::MODULUS.to_bytes_le())
}

pub fn num_bytes(n: usize) -> usize {
    let bits = (usize::BITS - n.leading_zeros()) as usize;
    (bits + 7) / 8
}

/// Column indices as the transcript dictates (DESIGN A.5).
pub fn ref_indices<S: CryptographicSponge>(n_ext: usize, t: usize, sponge: &mut S) -> Vec<usize> {
    let nb = num_bytes(n_ext);
    let mut out = Vec::new();
    for _ in 0..t {
        let bytes = sponge.squeeze_bytes(nb);
        sponge.absorb(&bytes);
        let mut ind: u128 = 0;
        for b in bytes.iter() {
            ind = (ind << 8) + *b as u128;
        }
        out.push((ind % n_ext as u128) as usize);
    }
    out
}

pub fn reed_solomon_ref<F: PrimeField>(msg: &[F], rho_inv: usize) -> Option<Vec<F>> {
    let dom = GeneralEvaluationDomain::<F>::new(msg.len() * rho_inv)?;
    // naive evaluation of the message polynomial on the domain (no FFT)
    Some(dom.elements().map(|x| horner(msg, x)).collect())
}

/// What the verifier needs to know about a linear-code key.
pub struct LcInfo<'a, F: PrimeField> {
    pub sec_param: usize,
    pub distance: (usize, usize),
    pub check_wf: bool,
    pub encode: &'a dyn Fn(&[F]) -> Option<Vec<F>>,
    /// (a, b) with p(z) = b^T M a for an n_rows x n_cols matrix
    pub tensor: &'a dyn Fn(usize, usize) -> (Vec<F>, Vec<F>),
    pub point_vec: Vec<F>,
}

pub fn col_hash<F: PrimeField>(col: &Vec<F>) -> Vec<u8> {
    <ColH<F> as CRHScheme>::evaluate(&(), col.clone()).unwrap()
}

pub fn ref_lincode_check<F: PrimeField + Absorb, S: CryptographicSponge>(
    info: &LcInfo<F>,
    comms: &[MComm],
    values: &[F],
    proofs: &[MProof<F>],
    sponge: &mut S,
) -> bool {
    if proofs.len() < comms.len() {
        return false;
    }
    let q = modulus_of::<F>();
    for (i, (cm, value)) in comms.iter().zip(values.iter()).enumerate() {
        let pf = &proofs[i];
        let (n_rows, n_cols, n_ext) = (cm.metadata.n_rows, cm.metadata.n_cols, cm.metadata.n_ext_cols);
        let t = match ref_t(&q, info.sec_param, info.distance, n_ext) {
            Some(t) => t,
            None => return false,
        };
        if pf.opening.columns.len() != t || pf.opening.paths.len() != t || pf.opening.v.len() != n_cols {
            return false;
        }
        let mut rb = Vec::new();
        cm.root.serialize_compressed(&mut rb).unwrap();
        sponge.absorb(&rb);
        let mut r_vec: Option<Vec<F>> = None;
        if info.check_wf {
            let wf = match &pf.well_formedness {
                Some(w) => w,
                None => return false,
            };
            if wf.len() != n_cols {
                return false;
            }
            r_vec = Some(sponge.squeeze_field_elements::<F>(n_rows));
            sponge.absorb(wf);
        } else if let Some(wf) = &pf.well_formedness {
            // not part of the relation when the key does not ask for it; length still dictated
            if wf.len() != n_cols {
                return false;
            }
        }
        sponge.absorb(&info.point_vec);
        sponge.absorb(&pf.opening.v);
        let indices = ref_indices(n_ext, t, sponge);
        let w = match (info.encode)(&pf.opening.v) {
            Some(w) => w,
            None => return false,
        };
        let w_wf = match (&r_vec, &pf.well_formedness) {
            (Some(_), Some(wf)) => match (info.encode)(wf) {
                Some(x) => Some(x),
                None => return false,
            },
            _ => None,
        };
        let (a, b) = (info.tensor)(n_rows, n_cols);
        for (j, qj) in indices.iter().enumerate() {
            let col = &pf.opening.columns[j];
            let path = &pf.opening.paths[j];
            if path.leaf_index != *qj {
                return false;
            }
            match path.verify(&(), &(), &cm.root, col_hash(col)) {
                Ok(true) => {}
                _ => return false,
            }
            if *qj >= w.len() || inner(&b, col) != w[*qj] || col.len() != n_rows {
                return false;
            }
            if let (Some(r), Some(wwf)) = (&r_vec, &w_wf) {
                if inner(r, col) != wwf[*qj] {
                    return false;
                }
            }
        }
        if inner(&pf.opening.v, &a) != *value {
            return false;
        }
    }
    true
}

// ---------------------------------------------------------------------------------------------
// MultilinearPC and streaming KZG
// ---------------------------------------------------------------------------------------------

/// e(C - vG, H) == prod_i e(t_i G - z_i G, pi_i)
pub fn ref_mlp_check<E: Pairing>(
    nv: usize,
    g: E::G1Affine,
    h: E::G2Affine,
    g_mask: &[E::G1Affine],
    c: E::G1Affine,
    z: &[E::ScalarField],
    v: E::ScalarField,
    proofs: &[E::G2Affine],
) -> bool {
    if proofs.len() != nv || z.len() != nv || g_mask.len() != nv {
        return false;
    }
    let lhs = E::pairing(c.into_group() - naive_mul(&g, &v), h).0;
    let mut rhs = <E as Pairing>::TargetField::one();
    for i in 0..nv {
        rhs *= E::pairing(g_mask[i].into_group() - naive_mul(&g, &z[i]), proofs[i]).0;
    }
    lhs == rhs
}

/// e(C - vG, H) == e(pi, tauH - zH)
pub fn ref_str_check<E: Pairing>(g: E::G1Affine, h: E::G2Affine, tau_h: E::G2Affine, c: E::G1Affine, z: E::ScalarField, v: E::ScalarField, pi: E::G1Affine) -> bool {
    E::pairing(c.into_group() - naive_mul(&g, &v), h) == E::pairing(pi, tau_h.into_group() - naive_mul(&h, &z))
}
