//! Transcript builders: honest single-point and batched openings produced by the real library.
use crate::alpha::*;
use crate::schemes::*;
use crate::sch::*;
use crate::util::*;
use ark_poly::Polynomial;
use ark_poly_commit::{Evaluations, QuerySet};
use ark_std::rand::RngCore;

pub struct Committed<S: Sch> {
    pub polys: Vec<LP<S>>,
    pub comms: Vec<LCm<S>>,
    pub states: Vec<St<S>>,
}

impl<S: Sch> Committed<S> {
    pub fn refs(&self) -> (Vec<&LP<S>>, Vec<&LCm<S>>, Vec<&St<S>>) {
        (self.polys.iter().collect(), self.comms.iter().collect(), self.states.iter().collect())
    }
    pub fn idx(&self, label: &str) -> usize {
        self.polys.iter().position(|p| p.label() == label).expect("label")
    }
}

/// Commit with RNG seed index `k` (always handing an RNG: `commit` documents that it may be None
/// only when nothing hides, that case is exercised separately).
pub fn commit_set<S: Sch>(keys: &Keys<S>, polys: Vec<LP<S>>, seed: u64, k: usize) -> Result<Committed<S>, Out> {
    let mut rng = seed_rng(seed, k);
    let (comms, states) = do_commit::<S>(&keys.ck, &polys, Some(&mut rng as &mut dyn RngCore))?;
    if comms.len() != polys.len() || states.len() != polys.len() {
        return Err(Out::Err(format!("commit returned {} commitments / {} states for {} polynomials", comms.len(), states.len(), polys.len())));
    }
    Ok(Committed { polys, comms, states })
}

pub struct Single<S: Sch> {
    pub point: S::Pt,
    pub values: Vec<S::F>,
    pub proof: Pf<S>,
    pub pre: usize,
    /// the polynomial type itself cannot be evaluated at the point (its `evaluate` aborts): `values` are zeros then
    pub undefined: bool,
}

/// Open all committed polynomials (in list order) at one point.
pub fn open_single<S: Sch>(
    keys: &Keys<S>,
    c: &Committed<S>,
    sel: &[usize],
    point: &S::Pt,
    pre: usize,
    seed: u64,
    k: usize,
) -> Result<Single<S>, Out> {
    let polys: Vec<&LP<S>> = sel.iter().map(|i| &c.polys[*i]).collect();
    let comms: Vec<&LCm<S>> = sel.iter().map(|i| &c.comms[*i]).collect();
    let states: Vec<&St<S>> = sel.iter().map(|i| &c.states[*i]).collect();
    let mut sponge = sponge_pre::<S::F>(pre);
    let mut rng = seed_rng(seed, 20 + k);
    let proof = do_open::<S>(&keys.ck, &polys, &comms, point, &mut sponge, &states, Some(&mut rng as &mut dyn RngCore))?;
    // the library answered; the reference values come from the polynomial type, which may itself refuse the point
    let (values, undefined) = match catch(|| polys.iter().map(|p| p.polynomial().evaluate(point)).collect::<Vec<S::F>>()) {
        Ok(v) => (v, false),
        Err(_) => (vec![<S::F as ark_ff::Zero>::zero(); polys.len()], true),
    };
    Ok(Single { point: point.clone(), values, proof, pre, undefined })
}

pub fn check_single<S: Sch>(
    keys: &Keys<S>,
    comms: &[&LCm<S>],
    point: &S::Pt,
    values: &[S::F],
    proof: &Pf<S>,
    pre: usize,
    seed: u64,
    vk_rng: usize,
) -> Dec {
    let mut sponge = sponge_pre::<S::F>(pre);
    let mut rng = seed_rng(seed, 40 + vk_rng);
    do_check::<S>(&keys.vk, comms, point, values, proof, &mut sponge, Some(&mut rng as &mut dyn RngCore))
}

pub struct Batch<S: Sch> {
    pub qs: QuerySet<S::Pt>,
    pub evals: Evaluations<S::Pt, S::F>,
    pub proof: BPf<S>,
    pub pre: usize,
}

pub fn true_evals<S: Sch>(c: &Committed<S>, qs: &QuerySet<S::Pt>) -> Evaluations<S::Pt, S::F> {
    let mut ev = Evaluations::new();
    for (label, (_, point)) in qs.iter() {
        let p = &c.polys[c.idx(label)];
        ev.insert((label.clone(), point.clone()), p.polynomial().evaluate(point));
    }
    ev
}

/// batch_open with the prover's triple list permuted by `perm` (indices into `c`).
pub fn open_batch<S: Sch>(
    keys: &Keys<S>,
    c: &Committed<S>,
    perm: &[usize],
    qs: &QuerySet<S::Pt>,
    pre: usize,
    seed: u64,
    k: usize,
) -> Result<Batch<S>, Out> {
    let polys: Vec<&LP<S>> = perm.iter().map(|i| &c.polys[*i]).collect();
    let comms: Vec<&LCm<S>> = perm.iter().map(|i| &c.comms[*i]).collect();
    let states: Vec<&St<S>> = perm.iter().map(|i| &c.states[*i]).collect();
    let mut sponge = sponge_pre::<S::F>(pre);
    let mut rng = seed_rng(seed, 20 + k);
    let proof = do_batch_open::<S>(&keys.ck, &polys, &comms, qs, &mut sponge, &states, Some(&mut rng as &mut dyn RngCore))?;
    Ok(Batch { qs: qs.clone(), evals: true_evals::<S>(c, qs), proof, pre })
}

pub fn check_batch<S: Sch>(
    keys: &Keys<S>,
    comms: &[&LCm<S>],
    qs: &QuerySet<S::Pt>,
    evals: &Evaluations<S::Pt, S::F>,
    proof: &BPf<S>,
    pre: usize,
    seed: u64,
    vk_rng: usize,
) -> Dec {
    let mut sponge = sponge_pre::<S::F>(pre);
    let mut rng = seed_rng(seed, 40 + vk_rng);
    do_batch_check::<S>(&keys.vk, comms, qs, evals, proof, &mut sponge, &mut rng)
}

/// Labelled-polynomial options valid for a key: (degree bound, hiding bound) pairs.
/// `hid_all` enumerates every hiding bound up to the limit, otherwise {None, 1, hmax}.
pub fn lp_options<S: Sch>(cfg: &KeyCfg, deg: usize, hid_all: bool) -> Vec<(Option<usize>, Option<usize>)> {
    let mut bounds: Vec<Option<usize>> = vec![None];
    if S::BOUNDS {
        if S::NAME == "IPA" {
            // IPA's trim ignores the bound list: any bound in [deg, supported] is served
            let s = (cfg.sup + 1).next_power_of_two() - 1;
            for d in deg..=s {
                bounds.push(Some(d));
            }
        } else if let Some(b) = &cfg.bounds {
            let mut bs = b.clone();
            bs.sort();
            bs.dedup();
            for d in bs {
                if d >= deg && d <= cfg.max {
                    bounds.push(Some(d));
                }
            }
        }
    }
    let mut out = Vec::new();
    for b in bounds {
        let mut hs: Vec<Option<usize>> = vec![None];
        if S::HIDING {
            // the range the property names, intersected with what the key was trimmed for
            let limit = match (S::NAME, b) {
                ("SON", Some(d)) | ("SON377", Some(d)) => cfg.hid.min(d),
                _ => cfg.hid,
            };
            if hid_all {
                for h in 1..=limit {
                    hs.push(Some(h));
                }
            } else {
                for h in [1usize, limit] {
                    if h >= 1 && h <= limit && !hs.contains(&Some(h)) {
                        hs.push(Some(h));
                    }
                }
            }
        }
        for h in hs {
            out.push((b, h));
        }
    }
    out
}
